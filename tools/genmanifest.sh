#!/bin/bash
# Regenerates MANIFEST.json from the checker's registry and validates it against the schema.
cd "$(dirname "$0")/.." && ./setup.sh >/dev/null && ./bin/sopcheck -manifest > /tmp/m.$$.json && python3-vt -c "
import json,jsonschema,sys
m=json.load(open('/tmp/m.$$.json')); s=json.load(open('/root/.vp/MANIFEST.schema.json')); jsonschema.validate(m,s); print('manifest ok: claimed',len(m['checks']),'n/a',len(m['not_applicable']))" && mv /tmp/m.$$.json MANIFEST.json
