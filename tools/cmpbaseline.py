#!/usr/bin/env python3
"""cmpbaseline.py verdicts.json...: every test in BASELINE.json's stable_pass that appears in the given
verdict files must have passed."""
import json,sys
base=set(json.load(open('/root/.vp/BASELINE.json'))['stable_pass'])
bad=[];seen=0
for f in sys.argv[1:]:
    r=json.load(open(f))
    for k,v in r.items():
        if k in base:
            seen+=1
            if v!='pass': bad.append((k,v))
print(seen,'stable-pass tests seen;',len(bad),'not passing')
for b in bad[:40]: print('  ',b)
sys.exit(1 if bad else 0)
