#!/usr/bin/env python3
# Regenerates the seeded-changes table of DESIGN.md (between the SEED-TABLE markers) from
# seeded/*/meta.json and seeded/results.json (written by seeded/tryall.sh).
import json,glob,os,re
os.chdir('/verif')
res=json.load(open('seeded/results.json'))
rows=[]
for f in sorted(glob.glob('seeded/C*/meta.json')):
    m=json.load(open(f)); sid=m['id']; r=res.get(sid,{})
    own=', '.join(r.get('own_property_rules',[])) or ('(neutralised: see F29)' if 'neutralised' in m.get('status','') else '**missed**')
    oth=', '.join(r.get('other_rules',[]))
    note=''
    d=m.get('detected_by','')
    k=re.search(r'\(([^()]*added[^()]*)\)',d)
    if k: note=' ('+k.group(1)+')'
    rows.append(f"| {sid} | {m['property']} | {m['summary']} | {own}{note}" + (f"; also {oth}" if oth else '') + " |")
tab="| seed | property | change | rules that report it (own property first) |\n|------|----------|--------|-----------|\n"+"\n".join(rows)+"\n"
s=open('DESIGN.md').read()
a='<!-- SEED-TABLE-BEGIN -->\n'; b='<!-- SEED-TABLE-END -->\n'
if a in s:
    s=s[:s.index(a)+len(a)]+tab+s[s.index(b):]
else:
    i=s.index('| seed | property | change | caught by |'); j=s.index('\n\n',i)+1
    s=s[:i]+a+tab+b+s[j:]
open('DESIGN.md','w').write(s)
print(len(rows),'rows')
