#!/bin/bash
# testverdicts.sh <module-dir> <out.json> [pkgs...]: runs go test -json and stores {pkg::test: verdict}
mod=$1; out=$2; shift 2
cd /repo/$mod && go test -vet=off -count=1 -timeout 25m -json "${@:-./...}" 2>&1 | python3 -c "
import sys,json
r={}
for l in sys.stdin:
    try: e=json.loads(l)
    except: continue
    if e.get('Test') and e.get('Action') in ('pass','fail','skip'): r[e['Package']+'::'+e['Test']]=e['Action']
json.dump(r,open('$out','w'),indent=0,sort_keys=True)
print(len(r),'tests;',sum(1 for v in r.values() if v=='fail'),'fail;',sum(1 for v in r.values() if v=='pass'),'pass')"
