#!/usr/bin/env python3
# Regenerates the findings table of DESIGN.md section 7 from known_findings.json.
import json,os,re
os.chdir('/verif')
k=json.load(open('known_findings.json'))['findings']
rows=[]
for e in k:
    wf=e['what_fails']
    wf=re.sub(r'^fixed: property=\S+ \S+ ','',wf)
    disp="**known finding**" if e['status']=='known' else f"**fixed** in /repo `{e.get('commit','')}`"
    rows.append(f"| {e['finding']} | {e['property']} | {e['rule']} | {wf} | {disp} |")
tab="| # | property | rule | what failed | disposition |\n|---|----------|------|-------------|-------------|\n"+"\n".join(rows)+"\n"
s=open('DESIGN.md').read()
a='<!-- FINDINGS-TABLE-BEGIN -->\n'; b='<!-- FINDINGS-TABLE-END -->\n'
if a in s:
    s=s[:s.index(a)+len(a)]+tab+s[s.index(b):]
else:
    i=s.index('| # | property | rule | what failed | disposition |'); j=s.index('\n\n',i)+1
    s=s[:i]+a+tab+b+s[j:]
open('DESIGN.md','w').write(s)
print(len(rows),'rows')
