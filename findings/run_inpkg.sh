#!/bin/bash
# run_inpkg.sh <file.txt> <pkgdir-in-repo> <TestPattern>: runs an in-package repro test against a scratch
# copy of /repo (outside /repo and /verif), removed afterwards. A FAILING test means "defect present".
t=$(mktemp -d /tmp/sopverif-inpkg-XXXX)
rsync -a --exclude .git /repo/ $t/repo/
cp /verif/findings/inpkg/$1 $t/repo/$2/zz_$(basename ${1%.txt})
(cd $t/repo/$2 && go test -count=1 -run "$3" . 2>&1 | grep -v "level=\|^20[0-9][0-9]/" | tail -${TAILN:-15})
rm -rf $t
