#!/bin/bash
# run_scratch.sh <TestPattern>: runs the throw-away repro tests (findings/scratch/*.txt) against /repo
# in a scratch module outside /repo and /verif. A FAILING test means "the defect is present".
# Never used by any check; the deciding step is the static checker.
d=$(mktemp -d /tmp/sopverif-scratch-XXXX)
for f in /verif/findings/scratch/*.txt; do cp $f $d/$(basename ${f%.txt}); done
cat /repo/go.sum /repo/infs/go.sum /repo/jsondb/go.sum /repo/incfs/go.sum /repo/adapters/redis/go.sum /repo/adapters/cassandra/go.sum | sort -u > $d/go.sum
(cd $d && PATH=/opt/veriftools/go1.26.8/bin:$PATH GOTOOLCHAIN=local GOPROXY=off GOSUMDB=off GOFLAGS=-mod=mod GOWORK=off go test -count=1 -v -run "$1" ./... 2>&1 | grep -v "^=== RUN\|level=\|^20[0-9][0-9]/" | tail -${TAILN:-25})
rm -rf $d
