#!/bin/bash
# Builds the checker offline from files on disk (x/tools v0.50.0 from the module cache, go1.26.8).
set -e
cd "$(dirname "$0")/checker"
export PATH=/opt/veriftools/go1.26.8/bin:$PATH GOTOOLCHAIN=local GOPROXY=off GOSUMDB=off GOFLAGS=-mod=mod
unset GOWORK
mkdir -p ../bin ../evidence
go build -o ../bin/sopcheck .
echo "built $(pwd)/../bin/sopcheck"
