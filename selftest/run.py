#!/usr/bin/env python3
"""Both-ways self-test of sopcheck (DESIGN.md section 8).

For every entry of mutants.json: copy /repo's working tree to a scratch directory outside /repo
and /verif, apply the single textual edit, make sure the edited tree still compiles, run the
named property's check against the scratch tree and require exit 1 with a violated obligation
whose rule matches. Entries with "expect": "held" are behaviour-preserving refactorings that
must NOT change the verdict. The scratch tree is removed at the end. Nothing here is used as
evidence for a property; it tests the checker.

usage: run.py [-k substring] [--held] [--shard i/n] [--keep]   (--held: only the behaviour-preserving variants)   (--shard runs every n-th variant starting at i, so that
n processes can share the work: for i in 0 1 2 3; do run.py --shard $i/4 & done)
"""
import json, os, shutil, subprocess, sys, tempfile

VERIF = os.path.dirname(os.path.dirname(os.path.abspath(__file__)))
REPO = os.environ.get("SOP_REPO", "/repo")
ENV = dict(os.environ, PATH="/opt/veriftools/go1.26.8/bin:" + os.environ["PATH"], GOTOOLCHAIN="local",
           GOPROXY="off", GOSUMDB="off", GOFLAGS="")
ENV.pop("GOWORK", None)

def main():
    sel = None
    shard = None
    if "--shard" in sys.argv:
        a, b = sys.argv[sys.argv.index("--shard") + 1].split("/")
        shard = (int(a), int(b))
    if "-k" in sys.argv:
        sel = sys.argv[sys.argv.index("-k") + 1]
    muts = json.load(open(os.path.join(VERIF, "selftest", "mutants.json")))
    # every confirmed seeded change (seeded/<id>/patch.diff) is a variant too: the rule recorded for it in
    # seeded/results.json (first rule of its own property) must keep reporting it
    resf = os.path.join(VERIF, "seeded", "results.json")
    if os.path.exists(resf):
        for sid, r in sorted(json.load(open(resf)).items()):
            if r.get("own_property_rules"):
                muts.append({"name": "seed-" + sid, "prop": r["property"], "rule": r["own_property_rules"][0], "seed": sid})
    scratch = tempfile.mkdtemp(prefix="sopverif-mut-")
    tree = os.path.join(scratch, "repo")
    vdir = os.path.join(scratch, "verif")
    os.makedirs(vdir)
    shutil.copy(os.path.join(VERIF, "known_findings.json"), vdir)
    subprocess.check_call(["rsync", "-a", "--exclude", ".git", REPO + "/", tree + "/"])
    bad = 0
    ran = 0
    try:
        for idx, m in enumerate(muts):
            if sel and sel not in m["name"] and sel not in m["prop"]:
                continue
            if "--held" in sys.argv and m.get("expect") != "held":
                continue
            if shard and idx % shard[1] != shard[0]:
                continue
            ran += 1
            edits = m.get("edits") or ([] if m.get("seed") else [m])
            saved = {}
            ok_apply = True
            if m.get("seed"):
                pf = os.path.join(VERIF, "seeded", m["seed"], "patch.diff")
                files = [l[6:].strip() for l in open(pf) if l.startswith("+++ b/")]
                for fl in files:
                    fp = os.path.join(tree, fl)
                    saved[fp] = open(fp).read() if os.path.exists(fp) else None
                edits = [{"file": fl} for fl in files]
                pr = subprocess.run(["patch", "-s", "-p1", "-i", pf], cwd=tree, capture_output=True, text=True)
                if pr.returncode != 0:
                    print(f"FAIL {m['name']}: patch does not apply: {pr.stdout[:300]}")
                    ok_apply = False
                edits_to_apply = []
            else:
                edits_to_apply = edits
            for e in edits_to_apply:
                p = os.path.join(tree, e["file"])
                s = open(p).read()
                saved.setdefault(p, s)
                cur = open(p).read()
                if cur.count(e["old"]) < 1:
                    print(f"FAIL {m['name']}: pattern not found in {e['file']}")
                    ok_apply = False
                    break
                open(p, "w").write(cur.replace(e["old"], e["new"], 1))
            if ok_apply:
                pkgs = sorted({"./" + os.path.dirname(e["file"]) if os.path.dirname(e["file"]) else "." for e in edits})
                # compile check of the touched packages (in their module)
                comp = subprocess.run(["go", "build"] + pkgs, cwd=tree, env=ENV, capture_output=True, text=True)
                if comp.returncode != 0:
                    print(f"FAIL {m['name']}: mutant does not compile:\n{comp.stderr[:600]}")
                    bad += 1
                else:
                    r = subprocess.run([os.path.join(VERIF, "bin", "sopcheck"), "-prop", m["prop"], "-tier", m.get("tier", "quick"),
                                        "-repo", tree, "-verif", vdir], env=ENV, capture_output=True, text=True)
                    out = r.stdout + r.stderr
                    if m.get("expect", "violation") == "held":
                        if r.returncode != 0:
                            print(f"FAIL {m['name']}: refactoring variant raised an alarm (exit {r.returncode})\n{out[-1500:]}")
                            bad += 1
                        else:
                            print(f"ok   {m['name']}: quiet on behaviour-preserving variant")
                    else:
                        want = m.get("rule", "")
                        hit = [l for l in out.splitlines() if l.strip().startswith("violated") and want in l]
                        if r.returncode != 1 or not hit:
                            print(f"FAIL {m['name']}: expected violation of {m['prop']} {want}; exit {r.returncode}\n{out[-1500:]}")
                            bad += 1
                        else:
                            print(f"ok   {m['name']}: {hit[0].strip()[:160]}")
            else:
                bad += 1
            for p, s in saved.items():
                if s is None:
                    if os.path.exists(p):
                        os.remove(p)
                else:
                    open(p, "w").write(s)
            for junk in subprocess.run(["find", tree, "-name", "*.orig", "-o", "-name", "*.rej"], capture_output=True, text=True).stdout.split():
                os.remove(junk)
    finally:
        if "--keep" not in sys.argv:
            shutil.rmtree(scratch, ignore_errors=True)
        else:
            print("kept", scratch)
    print(f"{ran} variants, {bad} failures")
    sys.exit(1 if bad else 0)

main()
