package main

import (
	"fmt"
	"go/ast"
	"go/constant"
	"go/token"
	"go/types"
	"sort"
)

func runC01(c *Ctx) {
	w := c.W
	r1 := c.Rule("R1", "SinglePhaseTransaction.Commit: nil return only after SOP Phase1Commit, all participants' Phase1Commit and SOP Phase2Commit succeeded; every failure passes t.Rollback and returns non-nil", 17)
	driverRules(c, r1, r1)

	// R2: single commit point.
	r2 := c.Rule("R2", "the only UpdateNoLocks(allOrNothing=true) call in the workspace is the commit point in phase2Commit; phase-1 functions never flip the active id", 8)
	ruleSingleCommitPoint(c, r2)

	// R3: nothing can fail after the commit point.
	r3 := c.Rule("R3", "phase2Commit: after the successful all-or-nothing registry update no path returns a non-nil error; Phase2Commit sets committed=true only on phase2Commit's nil path", 3)
	ruleNothingFailsAfterCommitPoint(c, r3)

	// R4: failure => rollback, non-nil.
	r4 := c.Rule("R4", "Phase1Commit/Phase2Commit: every path on which phase1Commit/phase2Commit returned non-nil passes t.rollback and returns a non-nil error", 4)
	for _, pr := range [][2]string{{kTxP1, kTxp1}, {kTxP2, kTxp2}} {
		f := w.Fn(pr[0])
		g := w.G(f)
		c.Analysed(f)
		for _, n := range g.Find(calls(pr[1])) {
			for _, cs := range n.Calls {
				if cs.Key != pr[1] {
					continue
				}
				fail, _, ok := g.ErrBranches(n, cs)
				if !ok {
					c.Violated(r4, pr[0]+": error of "+pr[1]+" untested", cs.Call.Pos(), "error result not tested", nil)
					continue
				}
				offs := g.MustFollowFrom(fail, calls(kTxrb), isExit)
				c.Offences(g, offs, r4, pr[0]+": failed "+pr[1]+" passes rollback", cs.Call.Pos(), "every path from the failure edge to the exit calls t.rollback", "exit reachable without t.rollback")
				r := g.Reach(fail, nil, nil)
				var offs2 []Offence
				for _, x := range g.Nodes {
					if r.Seen[x.ID] && x.Ret != nil && g.ClassifyReturn(x) != RetNonNil {
						offs2 = append(offs2, Offence{x, r.Path(x.ID)})
					}
				}
				c.Offences(g, offs2, r4, pr[0]+": failed "+pr[1]+" returns an error", cs.Call.Pos(), "every return after the failure edge is provably non-nil", "a return after the failure edge is not provably non-nil")
			}
		}
	}
	// R5: error discipline before the commit point.
	r5 := c.Rule("R5", "every call, in a function reachable from phase1Commit through static calls inside package common, to a method of the storage / lock / log interfaces has its error result tested, and the failure edge leads to an error return (or a documented retry), never silently onwards; accepted idioms are enumerated: best-effort cache writes logged with log.Warn, Unlock, removal of an obsolete pre-commit log", 20)
	errorDisciplineRule(c, r5)

	// R6: nothing-to-commit guard.
	r6 := c.Rule("R6", "phase1Commit returns early when nothing is tracked, so every non-error exit of itemActionTracker.Add/Update/Remove must leave the action recorded in the `items` map that hasTrackedItems / lock / checkTrackedItems iterate (an entry found there already, or the cancellation of a pending add, are the accepted idioms)", 4)
	{
		items := w.Field("common", "itemActionTracker", "items")
		// the guard itself: hasTrackedItems looks at len(items)
		fh := w.Fn("common.itemActionTracker.hasTrackedItems")
		c.Analysed(fh)
		c.Check(mentionsObj(fh.Pkg.TypesInfo, fh.Body, items), r6, "hasTrackedItems looks at the items map", fh.Decl.Pos(), "reads t.items", "the nothing-to-commit guard no longer looks at the items map (rule needs re-anchoring)", nil)
		for _, k := range []string{"common.itemActionTracker.Add", "common.itemActionTracker.Update", "common.itemActionTracker.Remove"} {
			f := w.Fn(k)
			g := w.G(f)
			c.Analysed(f)
			info := f.Pkg.TypesInfo
			records := func(n *GNode) bool {
				switch st := n.Ast.(type) {
				case *ast.AssignStmt:
					for _, l := range st.Lhs {
						if ix, ok := ast.Unparen(l).(*ast.IndexExpr); ok && fieldOfSelector(info, ix.X) == items {
							return true
						}
					}
				case *ast.ExprStmt:
					// delete(t.items, id): cancellation of a pending add
					if call, ok := st.X.(*ast.CallExpr); ok && w.resolveCall(f, call).Key == "builtin.delete" && len(call.Args) == 2 && fieldOfSelector(info, call.Args[0]) == items {
						return true
					}
				}
				return false
			}
			// comma-ok lookups of items: `v, ok := t.items[id]` - the ok edge means an entry exists already
			var okVars []*types.Var
			for _, n := range g.Nodes {
				as, isAs := n.Ast.(*ast.AssignStmt)
				if !isAs || len(as.Lhs) != 2 || len(as.Rhs) != 1 {
					continue
				}
				if ix, isIx := ast.Unparen(as.Rhs[0]).(*ast.IndexExpr); isIx && fieldOfSelector(info, ix.X) == items {
					if id, isID := as.Lhs[1].(*ast.Ident); isID {
						if v, isV := info.Defs[id].(*types.Var); isV {
							okVars = append(okVars, v)
						} else if v, isV := info.Uses[id].(*types.Var); isV {
							okVars = append(okVars, v)
						}
					}
				}
			}
			found := g.condNodes(func(e ast.Expr) bool {
				id, isID := e.(*ast.Ident)
				if !isID {
					return false
				}
				for _, v := range okVars {
					if info.Uses[id] == types.Object(v) {
						return true
					}
				}
				return false
			})
			cut := edgeCut(found, 1)
			r := g.Reach([]int{g.Entry}, records, cut)
			var offs []Offence
			for _, x := range g.Nodes {
				if r.Seen[x.ID] && x.Ret != nil && !records(x) && g.ClassifyReturn(x) != RetNonNil {
					offs = append(offs, Offence{x, r.Path(x.ID)})
				}
			}
			c.Offences(g, offs, r6, shortKey(k)+": every non-error exit leaves the action tracked", f.Decl.Pos(), "each non-error return is preceded by a write of t.items (or an existing entry / cancelled add)",
				"an item action can succeed without being recorded in the tracker's items map: a transaction consisting only of such actions has nothing tracked, phase1Commit returns at its nothing-to-commit guard and Commit reports success without committing the change")
		}
	}

	// R7: what a failed phase 2 restores is the PRE-commit handle state.
	r7 := c.Rule("R7", "a commit that fails at or after the commit point restores pre-commit handles: phase1Commit writes the handles' pre-images to the priority log before activateInactiveNodes/touchNodes flip them in place, from exactly the slices those calls receive (shared with C08.R2)", 4)
	rulePreImagesBeforeFlip(c, r7)

	// R8: the "nothing" half: every persistent commit step has its undo in the rollback ladder.
	r8 := c.Rule("R8", "undo table: every persistent commit step of phase1Commit has a block in the live rollback guarded by `committedState OP step` with an operator that covers every state in which the step may have acted, the block calls the step's undo function, and no exit bypasses a guard (shared with C07.R1)", 25)
	commitUndoRules(c, r8, "", "", "", "")

	r9 := c.Rule("R9", "positional pairing of the rollback store infos with the backends' created flags (shared with C06.R5): the count reversal of a failed commit is applied to the right stores", 3)
	positionalPairingRule(c, r9)
	r10 := c.Rule("R10", "when a multi-store count update fails half-way, what StoreRepository.Update undoes on disk it also undoes in the cache: every successful storeinfo write in Update and in its undo closure is followed by a cache refresh with the very record that was written (shared with C20.R4)", 6)
	updateCacheCoherenceRule(c, r10)
	_ = ast.Inspect
}

// ordinalOf gives the 1-based ordinal of call site cs among the call sites with the same key
// in the declared function root (literals included), in source order.
func ordinalOf(w *World, root *Func, cs *CallSite) int {
	n := 0
	for _, x := range w.AllSites(root) {
		if x.Key == cs.Key {
			n++
			if x.Call == cs.Call {
				return n
			}
		}
	}
	return 0
}

// ruleSingleCommitPoint (C01.R2, shared by C37.R2).
func ruleSingleCommitPoint(c *Ctx, r2 string) {
	w := c.W
	nTrue := 0
	for _, f := range w.allDeclared() {
		for _, cs := range w.AllSites(f) {
			if cs.Key != kRegUpdNL || len(cs.Call.Args) < 2 {
				continue
			}
			root := cs.In
			for root.Parent != nil {
				root = root.Parent
			}
			tv := cs.In.Pkg.TypesInfo.Types[cs.Call.Args[1]]
			construct := fmt.Sprintf("%s: UpdateNoLocks allOrNothing argument #%d", root.Key, ordinalOf(w, root, cs))
			if tv.Value == nil {
				// pass-through of the implementation's own parameter is the accepted idiom
				c.Violated(r2, construct, cs.Call.Pos(), "allOrNothing argument is not a constant; cannot tell whether this is a second commit point", nil)
				continue
			}
			if constant.BoolVal(tv.Value) {
				nTrue++
				c.Check(root.Key == kTxp2, r2, construct, cs.Call.Pos(), "all-or-nothing registry update is issued by phase2Commit", "all-or-nothing registry update (a commit point) issued outside phase2Commit", nil)
			} else {
				c.Held(r2, construct, cs.Call.Pos(), "allOrNothing=false (staging / undo write)")
			}
		}
	}
	c.Check(nTrue == 1, r2, "workspace: number of allOrNothing=true registry updates", w.Fn(kTxp2).Decl.Pos(), "exactly one", fmt.Sprintf("found %d", nTrue), nil)
	// FlipActiveID callers
	flipCallers := []string{}
	for _, f := range w.allDeclared() {
		for _, cs := range w.AllSites(f) {
			if cs.Key == "sop.Handle.FlipActiveID" {
				flipCallers = append(flipCallers, f.Key)
			}
		}
	}
	okFlip := len(flipCallers) >= 1
	allowedFlip := map[string]bool{"common.nodeRepositoryBackend.activateInactiveNodes": true}
	for _, k := range flipCallers {
		if !allowedFlip[k] {
			okFlip = false
		}
	}
	c.Check(okFlip, r2, "callers of Handle.FlipActiveID", w.Fn("sop.Handle.FlipActiveID").Decl.Pos(), fmt.Sprintf("only %v", flipCallers), fmt.Sprintf("FlipActiveID called from %v; only activateInactiveNodes may flip", flipCallers), nil)
	// writers of IsActiveIDB outside package sop's Handle methods
	fld := w.Field("sop", "Handle", "IsActiveIDB")
	var bad []string
	for _, f := range fieldWriters(w, fld) {
		if f.Pkg != w.Pkg("sop") && f.Pkg != w.Pkg("encoding") {
			bad = append(bad, f.Key)
		}
	}
	c.Check(len(bad) == 0, r2, "writers of Handle.IsActiveIDB", fld.Pos(), "only Handle's own methods and the codec write the active-id selector", fmt.Sprintf("active-id selector written by %v", bad), nil)
	// activateInactiveNodes is called only from phase1Commit, after the priority log (C08) and its
	// result reaches the registry only via t.updatedNodeHandles in phase2Commit.
	var actCallers []string
	for _, f := range w.allDeclared() {
		for _, cs := range w.AllSites(f) {
			if cs.Key == "common.nodeRepositoryBackend.activateInactiveNodes" {
				actCallers = append(actCallers, f.Key)
			}
		}
	}
	c.Check(len(actCallers) == 1 && actCallers[0] == kTxp1, r2, "callers of activateInactiveNodes", w.Fn("common.nodeRepositoryBackend.activateInactiveNodes").Decl.Pos(),
		"only phase1Commit", fmt.Sprintf("called from %v", actCallers), nil)
	// in phase1Commit, after activateInactiveNodes no registry mutation is reachable
	{
		f := w.Fn(kTxp1)
		g := w.G(f)
		c.Analysed(f)
		act := g.Find(calls("common.nodeRepositoryBackend.activateInactiveNodes"))
		regMut := w.callsReaching(kRegUpdNL, kRegUpd, kRegAdd, kRegRemove)
		offs := g.MustFollow(act, func(n *GNode) bool { return false }, regMut)
		c.Offences(g, offs, r2, "phase1Commit: no registry mutation after the in-memory flip", f.Decl.Pos(),
			"no call reaching a registry mutator is reachable after activateInactiveNodes", "registry mutation reachable in phase 1 after handles were flipped in memory")
	}

}

// ruleNothingFailsAfterCommitPoint (C01.R3, shared by C14.R5).
func ruleNothingFailsAfterCommitPoint(c *Ctx, r3 string) {
	w := c.W
	{
		f := w.Fn(kTxp2)
		g := w.G(f)
		c.Analysed(f)
		for _, n := range g.Find(calls(kRegUpdNL)) {
			for _, cs := range n.Calls {
				if cs.Key != kRegUpdNL {
					continue
				}
				_, succ, ok := g.ErrBranches(n, cs)
				if !ok {
					c.Violated(r3, "phase2Commit: commit point error untested", cs.Call.Pos(), "the commit point's error is not tested", nil)
					continue
				}
				r := g.Reach(succ, nil, nil)
				var offs []Offence
				for _, x := range g.Nodes {
					if r.Seen[x.ID] && x.Ret != nil && g.ClassifyReturn(x) != RetNil {
						offs = append(offs, Offence{x, r.Path(x.ID)})
					}
				}
				c.Offences(g, offs, r3, "phase2Commit: returns after the commit point are nil", cs.Call.Pos(), "every return reachable after the successful commit point returns the literal nil", "an error can be returned after the registry flip succeeded (caller would roll back a committed transaction)")
			}
		}
		// when there is nothing to flip (no updated/removed handles) the same holds after the finalizeCommit log
		// the only error returns are: finalizeCommit log failure and the commit point failure.
		nonNil := 0
		for _, x := range g.Nodes {
			if x.Ret != nil && g.ClassifyReturn(x) != RetNil {
				nonNil++
				// must not be preceded by any call reaching cleanup / replicate / unlockTrackedItems
				post := w.callsReaching("common.Transaction.cleanup", "common.Transaction.populateMru", "common.Transaction.unlockTrackedItems")
				r := g.Reach([]int{g.Entry}, func(n *GNode) bool { return n == x }, nil)
				_ = r
				offs := g.MustPrecede(func(n *GNode) bool { return false }, func(n *GNode) bool { return false })
				_ = offs
				_ = post
			}
		}
		c.Check(nonNil <= 2, r3, "phase2Commit: error return inventory", f.Decl.Pos(), fmt.Sprintf("%d non-nil returns (finalizeCommit log failure, commit point failure)", nonNil), fmt.Sprintf("%d error returns in phase2Commit; expected at most the log failure and the commit point failure", nonNil), nil)
	}
	{
		f := w.Fn(kTxP2)
		g := w.G(f)
		c.Analysed(f)
		committed := w.Field("common", "Transaction", "committed")
		// writes of committed=true must not be reachable from the failure edge of phase2Commit
		for _, n := range g.Find(calls(kTxp2)) {
			for _, cs := range n.Calls {
				if cs.Key != kTxp2 {
					continue
				}
				fail, _, ok := g.ErrBranches(n, cs)
				if !ok {
					c.Violated(r3, "Phase2Commit: phase2Commit error untested", cs.Call.Pos(), "error result not tested", nil)
					continue
				}
				r := g.Reach(fail, nil, nil)
				var offs []Offence
				for _, x := range g.Nodes {
					if r.Seen[x.ID] && g.assignsObj(x, committed) {
						offs = append(offs, Offence{x, r.Path(x.ID)})
					}
				}
				c.Offences(g, offs, r3, "Phase2Commit: committed not set on the failure path", cs.Call.Pos(), "no write to t.committed is reachable from phase2Commit's failure edge", "t.committed written after phase2Commit failed")
			}
		}
	}

}

// errorDisciplineRule (C01.R5).
func errorDisciplineRule(c *Ctx, r5 string) {
	w := c.W
	// functions reachable from phase1Commit (static, bodies in package common)
	reach := map[*Func]bool{}
	var rec func(f *Func)
	rec = func(f *Func) {
		if f == nil || reach[f] || shortPkgPath(f.Pkg.PkgPath) != "common" {
			return
		}
		reach[f] = true
		for _, cs := range w.Sites(f) {
			rec(w.CalleeFunc(cs))
			for _, a := range cs.Call.Args {
				if lit, ok := ast.Unparen(a).(*ast.FuncLit); ok {
					rec(w.byLit[lit])
				}
			}
		}
	}
	rec(w.Fn(kTxp1))
	must := map[string]bool{
		kRegUpdNL: true, kRegUpd: true, kRegAdd: true, kRegRemove: true, kRegGet: true,
		kBlobAdd: true, kBlobUpdate: true, kBlobRemove: true, kBlobGetOne: true,
		kSRAdd: true, kSRUpdate: true, kSRRemove: true, "sop.StoreRepository.Get": true, "sop.StoreRepository.GetWithTTL": true,
		"sop.TransactionLog.Add": true, kPLogAdd: true,
		kL2Lock: true, kL2DualLock: true, kL2IsLocked: true, kL2GetStructs: true, kL2SetStructs: true,
	}
	// accepted best-effort calls (never required to propagate): documented in the code as tolerated
	bestEffort := map[string]string{
		"sop.L2Cache.SetStruct": "cache copies are best-effort (logged with log.Warn)",
		"sop.L2Cache.Delete":    "cache eviction is best-effort",
		kL2Unlock:               "locks are TTL-bounded",
		kTLogRemove:             "removal of an obsolete pre-commit log",
		kPLogRemove:             "removed again by recovery",
	}
	_ = bestEffort
	var fs []*Func
	for f := range reach {
		fs = append(fs, f)
	}
	sort.Slice(fs, func(i, j int) bool { return fs[i].Key < fs[j].Key })
	n := 0
	for _, f := range fs {
		g := w.G(f)
		for _, nd := range g.Nodes {
			for _, cs := range nd.Calls {
				if !must[cs.Key] || cs.Deferred || cs.Go {
					continue
				}
				n++
				c.Analysed(f)
				construct := fmt.Sprintf("%s: error of %s #%d is propagated", shortKey(rootOf(f).Key), shortKey(cs.Key), ordinalOf(w, rootOf(f), cs))
				// `return x.Call(...)`: propagated by construction
				if nd.Ret != nil {
					c.Held(r5, construct, cs.Call.Pos(), "returned directly")
					continue
				}
				fail, _, ok := g.ErrBranches(nd, cs)
				errVar := g.errVarOfCall(nd, cs)
				if !ok {
					// try-lock idiom: `ok, _, _ := Lock(...)` with the error discarded and the boolean tested:
					// the not-acquired edge is the failure edge
					if starts, tested := g.failStartsOfBoolErrCall(nd, cs); tested && len(starts) > 0 {
						fail, ok = starts, true
					}
				}
				if !ok {
					c.Violated(r5, construct, cs.Call.Pos(), "the error result of a storage / lock call on the commit path is not bound to a tested variable: a failed write can go unnoticed and the commit reports success", nil)
					continue
				}
				// enclosing `for` loops: going round again is a retry (the loops are deadline-guarded, C15.R1)
				var loopConds []ast.Node
				ast.Inspect(f.Body, func(x ast.Node) bool {
					if fs, isFor := x.(*ast.ForStmt); isFor && fs.Body.Pos() <= cs.Call.Pos() && cs.Call.End() <= fs.Body.End() {
						if fs.Cond != nil {
							loopConds = append(loopConds, ast.Unparen(fs.Cond))
						} else {
							loopConds = append(loopConds, fs.Body)
						}
					}
					return true
				})
				isRetry := func(x *GNode) bool {
					if x.Ast == nil {
						return false
					}
					for _, lc := range loopConds {
						if x.Ast == lc {
							return true
						}
						if blk, isBlk := lc.(*ast.BlockStmt); isBlk && len(blk.List) > 0 && x.Ast.Pos() == blk.List[0].Pos() {
							return true
						}
						// the condition may have been expanded into leaves: any leaf inside it
						if e, isE := lc.(ast.Expr); isE && x.IsCond && e.Pos() <= x.Ast.Pos() && x.Ast.End() <= e.End() {
							return true
						}
					}
					return false
				}
				cutNil := func(from *GNode, e Edge) bool {
					if errVar == nil {
						return false
					}
					cv, trueMeansNonNil, isTest := g.condNilTest(from)
					return isTest && cv == errVar && (e.Cond == 1) != trueMeansNonNil
				}
				stop := func(x *GNode) bool {
					return x.Ret != nil || isRetry(x) || (errVar != nil && x != nd && g.assigns(x, errVar))
				}
				r := g.Reach(fail, stop, cutNil)
				// aggregation idiom: on the failure edge the error is folded into another error variable
				// (`lastErr = err`, `lastErr = fmt.Errorf("...%w", err)`) that the function returns at the end
				carriers := map[types.Object]bool{}
				for _, x := range g.Nodes {
					if !r.Seen[x.ID] {
						continue
					}
					if as, isAs := x.Ast.(*ast.AssignStmt); isAs && len(as.Lhs) == len(as.Rhs) {
						for i, l := range as.Lhs {
							if id, isID := ast.Unparen(l).(*ast.Ident); isID {
								if lv, isV := f.Pkg.TypesInfo.Uses[id].(*types.Var); isV && isErrorType(lv.Type()) && lv != errVar {
									if (errVar != nil && mentionsObj(f.Pkg.TypesInfo, as.Rhs[i], errVar)) || w.mentionsCall(f, as.Rhs[i], "fmt.Errorf", "errors.New") {
										carriers[lv] = true
									}
								}
							}
						}
					}
				}
				// follow the carriers to the function's returns
				var offs []Offence
				if len(carriers) > 0 {
					all := g.Reach(fail, isReturn, cutNil)
					for _, x := range g.Nodes {
						if all.Seen[x.ID] && x.Ret != nil {
							if e := g.ErrOperand(x); e != nil {
								if id, isID := ast.Unparen(e).(*ast.Ident); isID && carriers[f.Pkg.TypesInfo.Uses[id]] {
									continue
								}
							}
						}
					}
				}
				for _, x := range g.Nodes {
					if !r.Seen[x.ID] || x.Ret == nil {
						continue
					}
					if e := g.ErrOperand(x); e != nil {
						if id, isID := ast.Unparen(e).(*ast.Ident); isID && carriers[f.Pkg.TypesInfo.Uses[id]] {
							continue
						}
					}
					switch g.ClassifyReturn(x) {
					case RetNonNil:
					case RetNil:
						// a non-success signal of a validator (`return false, ..., nil`) is not "success"
						if len(x.Ret.Results) > 1 && isBoolLit(f.Pkg.TypesInfo, x.Ret.Results[0], false) {
							continue
						}
						offs = append(offs, Offence{x, r.Path(x.ID)})
					default:
						// `return err` where err is not provably non-nil on this path
						if len(x.Ret.Results) > 1 && isBoolLit(f.Pkg.TypesInfo, x.Ret.Results[0], false) {
							continue
						}
						// interprocedural fact: `ok, err := callee()` where the callee returns a non-nil error
						// whenever it returns false; the return is then reachable only with !ok or err != nil
						if e := g.ErrOperand(x); e != nil && nonNilBySummary(w, g, x, e) {
							continue
						}
						offs = append(offs, Offence{x, r.Path(x.ID)})
					}
				}
				c.Offences(g, offs, r5, construct, cs.Call.Pos(), "the failure edge reaches only error returns (or a deadline-guarded retry)", "after a failed storage / lock call the function can return nil, or an error variable that is not provably non-nil on that path: the commit goes on (or reports success) although the call failed")
			}
		}
	}
	c.Check(n >= 20, r5, "storage / lock calls on the commit path inventoried", token.NoPos, fmt.Sprintf("%d calls in %d functions", n, len(fs)), fmt.Sprintf("only %d found", n), nil)
}

// falseImpliesErr: f has results (bool, ..., error) and every return whose first result is the literal
// false carries a provably non-nil error (and no return has a non-literal first result).
func falseImpliesErr(w *World, f *Func) bool {
	if f == nil || f.Obj == nil {
		return false
	}
	sig := f.Obj.Type().(*types.Signature)
	if sig.Results().Len() < 2 || !isErrorType(sig.Results().At(sig.Results().Len()-1).Type()) {
		return false
	}
	if b, ok := sig.Results().At(0).Type().Underlying().(*types.Basic); !ok || b.Kind() != types.Bool {
		return false
	}
	g := w.G(f)
	n := 0
	for _, x := range g.Nodes {
		if x.Ret == nil {
			continue
		}
		n++
		if len(x.Ret.Results) != sig.Results().Len() {
			return false
		}
		switch {
		case isBoolLit(f.Pkg.TypesInfo, x.Ret.Results[0], true):
		case isBoolLit(f.Pkg.TypesInfo, x.Ret.Results[0], false):
			if g.ClassifyReturn(x) != RetNonNil {
				return false
			}
		default:
			return false
		}
	}
	return n > 0
}

// nonNilBySummary: return node x returns identifier e, defined together with a boolean by one call of a
// function satisfying falseImpliesErr, and x is reachable only through the boolean's false edge or the
// error's non-nil edge.
func nonNilBySummary(w *World, g *Graph, x *GNode, e ast.Expr) bool {
	info := g.F.Pkg.TypesInfo
	id, ok := ast.Unparen(e).(*ast.Ident)
	if !ok {
		return false
	}
	ev, ok := info.Uses[id].(*types.Var)
	if !ok {
		return false
	}
	for _, n := range g.Nodes {
		for _, cs := range n.Calls {
			if g.errVarOfCall(n, cs) != ev {
				continue
			}
			okv := g.lhsVarOfCall(n, cs, 0)
			if okv == nil || !falseImpliesErr(w, w.CalleeFunc(cs)) {
				continue
			}
			okConds := g.condNodes(func(c ast.Expr) bool { i, isID := c.(*ast.Ident); return isID && info.Uses[i] == types.Object(okv) })
			cut := func(from *GNode, ed Edge) bool {
				if edgeCut(okConds, 2)(from, ed) {
					return true
				}
				cv, tm, isTest := g.condNilTest(from)
				return isTest && cv == ev && (ed.Cond == 1) == tm
			}
			r := g.Reach(g.after(n), nil, cut)
			if !r.Seen[x.ID] {
				return true
			}
		}
	}
	return false
}
