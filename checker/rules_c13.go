package main

import (
	"fmt"
	"go/ast"
	"go/constant"
	"go/token"
	"go/types"
	"reflect"
	"strings"
)

func init() {
	register("C13", propMeta{
		Explanation:  "Decides the soundness of the in-place metadata patch used by StoreRepository.Update: (R1) for every call patchJSONNumericField(data, K, v) the locator of key K must be structural (a JSON tokenizer) or, if it is a first-occurrence byte search, no free-text field (string, map, any, nested struct with strings) may be marshalled before K in sop.StoreInfo, otherwise store names/descriptions containing the quoted key redirect the patch onto another field; (R2) only the fields tagged by the constants fieldCount/fieldTimestamp are patched, the constants equal the JSON tags of StoreInfo.Count/Timestamp, those fields are integers, each patched value comes from the same-named field, and the fast path is taken only when NeedsMetaDataSave is false (otherwise the full struct is re-marshalled); (R3) the count written is the freshly read count plus the caller's delta, under the store lock. (R4) the patcher's result is the concatenation data[:start] + rendering of the new value + data[end:] with end = the tokenizer's offset after the value and start = end - len(raw value); a buffer may be overwritten in place only where len(new) == len(old) was tested. (R5) after every storeinfo write of Update and its undo closure the cache is refreshed with the record that was written (shared with C20.R4).",
		DoesNotCover: "That encoding/json round-trips every option value of StoreInfo; concurrent writers outside the L2 lock.",
	}, runC13)
}

func jsonTagName(tag string) string {
	v := reflect.StructTag(tag).Get("json")
	if i := strings.Index(v, ","); i >= 0 {
		v = v[:i]
	}
	return v
}

func isFreeText(t types.Type, depth int) bool {
	switch u := t.Underlying().(type) {
	case *types.Basic:
		return u.Info()&types.IsString != 0
	case *types.Map, *types.Interface:
		return true
	case *types.Slice:
		return isFreeText(u.Elem(), depth+1) || true
	case *types.Array:
		return isFreeText(u.Elem(), depth+1)
	case *types.Pointer:
		return isFreeText(u.Elem(), depth+1)
	case *types.Struct:
		if depth > 3 {
			return true
		}
		for i := 0; i < u.NumFields(); i++ {
			if isFreeText(u.Field(i).Type(), depth+1) {
				return true
			}
		}
	}
	return false
}

func runC13(c *Ctx) {
	w := c.W
	r1 := c.Rule("R1", "patch locator soundness: tokenizer-based, or first-occurrence search with no free-text field marshalled before the patched key", 2)
	fp := w.Fn("fs.patchJSONNumericField")
	c.Analysed(fp)
	usesTokenizer := w.Reaches(fp, keyIn("encoding/json.Decoder.Token")) && w.Reaches(fp, keyIn("encoding/json.Decoder.InputOffset"))
	usesByteSearch := w.Reaches(fp, keyIn("bytes.Index", "bytes.Contains", "strings.Index", "bytes.LastIndex"))
	st, _ := w.Object("sop", "StoreInfo").Type().Underlying().(*types.Struct)
	if st == nil {
		panic(undecided{"sop.StoreInfo is not a struct"})
	}
	type fld struct {
		name, tag string
		v         *types.Var
	}
	var flds []fld
	for i := 0; i < st.NumFields(); i++ {
		tg := jsonTagName(st.Tag(i))
		if tg == "-" {
			continue
		}
		if tg == "" {
			tg = st.Field(i).Name()
		}
		flds = append(flds, fld{st.Field(i).Name(), tg, st.Field(i)})
	}
	fu := w.Fn("fs.StoreRepository.Update")
	c.Analysed(fu)
	keys := map[string]bool{}
	type site struct {
		cs  *CallSite
		key string
	}
	var sites []site
	for _, cs := range w.AllSites(fu) {
		if cs.Key != "fs.patchJSONNumericField" || len(cs.Call.Args) != 3 {
			continue
		}
		tv := cs.In.Pkg.TypesInfo.Types[cs.Call.Args[1]]
		if tv.Value == nil {
			c.Violated(r1, fmt.Sprintf("Update: patch #%d key is a constant", ordinalOf(w, fu, cs)), cs.Call.Pos(), "the patched key is not a constant", nil)
			continue
		}
		k := constant.StringVal(tv.Value)
		keys[k] = true
		sites = append(sites, site{cs, k})
	}
	c.Check(len(sites) >= 2, r1, "Update: patch call sites", fu.Decl.Pos(), fmt.Sprintf("%d sites", len(sites)), "fewer than two patch sites found", nil)
	for k := range keys {
		idx := -1
		for i, f := range flds {
			if f.tag == k {
				idx = i
			}
		}
		if idx < 0 {
			c.Violated(r1, "key \""+k+"\" is a StoreInfo JSON field", fp.Decl.Pos(), "no StoreInfo field has this JSON tag", nil)
			continue
		}
		var before []string
		for _, f := range flds[:idx] {
			if isFreeText(f.v.Type(), 0) {
				before = append(before, f.tag)
			}
		}
		switch {
		case usesTokenizer && !usesByteSearch:
			c.Held(r1, "locator of \""+k+"\" is sound", fp.Decl.Pos(), "key located with a JSON tokenizer")
		case len(before) == 0:
			c.Held(r1, "locator of \""+k+"\" is sound", fp.Decl.Pos(), "byte search, but no free-text field precedes the key")
		default:
			c.Violated(r1, "locator of \""+k+"\" is sound", fp.Decl.Pos(),
				fmt.Sprintf("the key is located by a first-occurrence byte search while free-text fields %v are marshalled before it: a store whose name/description contains \"%s (e.g. x\"%s) makes the search hit inside that text and the patch overwrites another field (slot_length observed) while the real %s is left unchanged", before, k, k, k), nil)
		}
	}

	r2 := c.Rule("R2", "only count and timestamp are patched, constants agree with the JSON tags, integer fields, values from the same-named fields, fast path only without NeedsMetaDataSave", 8)
	okKeys := len(keys) == 2
	fc := w.Object("fs", "fieldCount").(*types.Const)
	ft := w.Object("fs", "fieldTimestamp").(*types.Const)
	tagOf := func(name string) string {
		for _, f := range flds {
			if f.name == name {
				return f.tag
			}
		}
		return ""
	}
	c.Check(okKeys && keys[constant.StringVal(fc.Val())] && keys[constant.StringVal(ft.Val())], r2, "patched keys are exactly fieldCount and fieldTimestamp", fu.Decl.Pos(), fmt.Sprintf("%v", keys), fmt.Sprintf("patched keys %v", keys), nil)
	c.Check(constant.StringVal(fc.Val()) == tagOf("Count"), r2, "fieldCount equals StoreInfo.Count's JSON tag", fc.Pos(), tagOf("Count"), fmt.Sprintf("constant %q vs tag %q", constant.StringVal(fc.Val()), tagOf("Count")), nil)
	c.Check(constant.StringVal(ft.Val()) == tagOf("Timestamp"), r2, "fieldTimestamp equals StoreInfo.Timestamp's JSON tag", ft.Pos(), tagOf("Timestamp"), fmt.Sprintf("constant %q vs tag %q", constant.StringVal(ft.Val()), tagOf("Timestamp")), nil)
	for _, nm := range []string{"Count", "Timestamp"} {
		for _, f := range flds {
			if f.name == nm {
				b, ok := f.v.Type().Underlying().(*types.Basic)
				c.Check(ok && b.Info()&types.IsInteger != 0, r2, "StoreInfo."+nm+" is an integer", f.v.Pos(), b.String(), "patched field is not an integer", nil)
			}
		}
	}
	for _, s := range sites {
		want := "Count"
		if s.key == constant.StringVal(ft.Val()) {
			want = "Timestamp"
		}
		okV := false
		if sel, ok := ast.Unparen(s.cs.Call.Args[2]).(*ast.SelectorExpr); ok && sel.Sel.Name == want {
			okV = true
		}
		c.Check(okV, r2, fmt.Sprintf("Update: patch #%d writes the same-named field's value", ordinalOf(w, fu, s.cs)), s.cs.Call.Pos(), "value is ."+want, "the value patched into \""+s.key+"\" is not the "+want+" field", nil)
	}
	// fast path only when !NeedsMetaDataSave
	{
		nms := w.Field("sop", "StoreInfo", "NeedsMetaDataSave")
		for _, f := range append([]*Func{fu}, w.allLits(fu)...) {
			g := w.G(f)
			info := f.Pkg.TypesInfo
			patch := calls("fs.patchJSONNumericField")
			if len(g.Find(patch)) == 0 {
				continue
			}
			conds := g.condNodes(func(e ast.Expr) bool { return fieldOfSelector(info, e) == nms })
			offs := g.notOnlyVia(conds, 2, patch)
			nm := "Update"
			if f.Lit != nil {
				nm = "Update(undo)"
			}
			c.Offences(g, offs, r2, nm+": fast path only when no metadata save is pending", f.Body.Pos(), "patch reachable only with NeedsMetaDataSave == false", "metadata changes pending (NeedsMetaDataSave) can be skipped by the count/timestamp patch")
		}
	}

	r3 := c.Rule("R3", "Update applies the delta to the freshly read count under the store lock (released by defer)", 3)
	countMergeRule(c, r3)

	r4 := c.Rule("R4", "splice shape of the patcher: the patched document is the concatenation of data[:start], the rendering of the new value and data[end:], with end = the tokenizer's offset after the value and start = end - len(raw value); a buffer is overwritten in place only where the new rendering is proven to have the old width", 4)
	spliceShapeRule(c, r4, fp)

	r5 := c.Rule("R5", "reopening yields the count that was written: after every successful storeinfo write of Update and of its undo closure the cache is refreshed with the very record that was written, because the next Update starts from the cached count (shared with C20.R4 / C06.R6)", 6)
	updateCacheCoherenceRule(c, r5)
}

// spliceShapeRule (C13.R4): fs.patchJSONNumericField builds its result by concatenation only.
func spliceShapeRule(c *Ctx, r4 string, fp *Func) {
	w := c.W
	g := w.G(fp)
	info := fp.Pkg.TypesInfo
	defs := localDefs(fp)
	sig := fp.Obj.Type().(*types.Signature)
	data, value := sig.Params().At(0), sig.Params().At(2)
	isBuiltin := func(call *ast.CallExpr, name string) bool {
		id, ok := ast.Unparen(call.Fun).(*ast.Ident)
		if !ok {
			return false
		}
		b, ok := info.Uses[id].(*types.Builtin)
		return ok && b.Name() == name
	}
	// the raw value variable: the target of dec.Decode(&raw)
	var raw types.Object
	for _, cs := range w.Sites(fp) {
		if cs.Key == "encoding/json.Decoder.Decode" && len(cs.Call.Args) == 1 {
			if u, ok := ast.Unparen(cs.Call.Args[0]).(*ast.UnaryExpr); ok && u.Op == token.AND {
				if id, ok := ast.Unparen(u.X).(*ast.Ident); ok {
					raw = info.Uses[id]
				}
			}
		}
	}
	isLenOf := func(e ast.Expr, o types.Object) bool {
		call, ok := ast.Unparen(e).(*ast.CallExpr)
		return ok && o != nil && isBuiltin(call, "len") && len(call.Args) == 1 && mentionsObj(info, call.Args[0], o)
	}
	// concatenation operands
	var prefix, suffix *ast.SliceExpr
	var prefixAt, numberAt, suffixAt *GNode
	for _, n := range g.Nodes {
		if n.Ast == nil {
			continue
		}
		ast.Inspect(n.Ast, func(x ast.Node) bool {
			if _, ok := x.(*ast.FuncLit); ok {
				return false
			}
			call, ok := x.(*ast.CallExpr)
			if !ok {
				return true
			}
			concat := isBuiltin(call, "append")
			if cs := w.resolveCall(fp, call); cs != nil && (cs.Key == "slices.Concat" || cs.Key == "bytes.Join" || cs.Key == "bytes.Buffer.Write") {
				concat = true
			}
			if !concat {
				return true
			}
			for i, a := range call.Args {
				if i == 0 && isBuiltin(call, "append") {
					continue
				}
				if se, ok := ast.Unparen(a).(*ast.SliceExpr); ok && mentionsObj(info, se.X, data) {
					if se.Low == nil && se.High != nil && prefix == nil {
						prefix, prefixAt = se, n
					}
					if se.Low != nil && se.High == nil && suffix == nil {
						suffix, suffixAt = se, n
					}
					continue
				}
				if w.mentionsDeep(fp, defs, a, value) && numberAt == nil {
					numberAt = n
				}
			}
			return true
		})
	}
	okOver := map[*GNode]bool{}
	// in-place overwrites
	nOver := 0
	for _, n := range g.Nodes {
		if n.Ast == nil {
			continue
		}
		var over []ast.Node
		var srcs []ast.Expr
		ast.Inspect(n.Ast, func(x ast.Node) bool {
			switch y := x.(type) {
			case *ast.FuncLit:
				return false
			case *ast.CallExpr:
				if isBuiltin(y, "copy") && len(y.Args) == 2 {
					over = append(over, y)
					srcs = append(srcs, y.Args[1])
				}
			case *ast.AssignStmt:
				for _, l := range y.Lhs {
					if ix, ok := ast.Unparen(l).(*ast.IndexExpr); ok {
						if _, isSlice := info.TypeOf(ix.X).Underlying().(*types.Slice); isSlice {
							over = append(over, y)
							srcs = append(srcs, nil)
						}
					}
				}
			}
			return true
		})
		for i, o := range over {
			nOver++
			// accepted only behind an equal-width test: `len(src) == len(raw)` (either order) taken on its true edge
			guards := g.condNodes(func(e ast.Expr) bool {
				be, ok := ast.Unparen(e).(*ast.BinaryExpr)
				if !ok || be.Op != token.EQL || srcs[i] == nil {
					return false
				}
				srcLen := func(x ast.Expr) bool {
					call, ok := ast.Unparen(x).(*ast.CallExpr)
					return ok && isBuiltin(call, "len") && len(call.Args) == 1 && types.ExprString(call.Args[0]) == types.ExprString(srcs[i])
				}
				return (srcLen(be.X) && isLenOf(be.Y, raw)) || (srcLen(be.Y) && isLenOf(be.X, raw))
			})
			guarded := len(guards) > 0 && len(g.ReachableWithout(edgeCut(guards, 1), func(x *GNode) bool { return x == n })) == 0
			if guarded {
				okOver[n] = true
			}
			c.Check(guarded, r4, fmt.Sprintf("patchJSONNumericField: in-place overwrite #%d is width-preserving", nOver), o.Pos(), "only reachable where len(new) == len(old) was tested",
				"part of a buffer is overwritten in place without a proof that the new rendering is exactly as wide as the old value: a narrower number leaves trailing digits of the old one (12 -> 7 becomes 72), a wider one is truncated", nil)
		}
	}
	have := prefix != nil && suffix != nil && numberAt != nil
	c.Check(have, r4, "patchJSONNumericField: the result is concatenated from prefix, new value and suffix", fp.Decl.Pos(), "data[:start], the rendering of value and data[end:] are appended",
		"the three pieces of the spliced document (data[:start], the rendering of the new value, data[end:]) are not all appended to the result", nil)
	if have {
		// order on every path: prefix before number before suffix, all before the success return
		okRet := func(n *GNode) bool { return n.Ret != nil && g.ClassifyReturn(n) != RetNonNil }
		offs := g.MustPrecede(func(n *GNode) bool { return n == prefixAt }, func(n *GNode) bool { return n == numberAt && n != prefixAt })
		offs = append(offs, g.MustPrecede(func(n *GNode) bool { return n == numberAt }, func(n *GNode) bool { return n == suffixAt && n != numberAt })...)
		offs = append(offs, g.MustPrecede(func(n *GNode) bool { return n == suffixAt || okOver[n] }, okRet)...)
		c.Offences(g, offs, r4, "patchJSONNumericField: pieces are appended in document order on every success path", fp.Decl.Pos(), "prefix, value, suffix, then the successful return", "a successful return is reachable without the three pieces in order")
		// bounds: end := dec.InputOffset(), start := end - len(raw)
		endObj, _ := info.Uses[identOf(suffix.Low)].(types.Object)
		startObj, _ := info.Uses[identOf(prefix.High)].(types.Object)
		endOK := endObj != nil && w.mentionsDeep(fp, defs, suffix.Low, nil, "encoding/json.Decoder.InputOffset")
		for _, d := range defs[endObj] {
			if be, ok := ast.Unparen(d).(*ast.BinaryExpr); ok && (be.Op == token.ADD || be.Op == token.SUB) {
				endOK = false // an adjusted offset
			}
		}
		startOK := false
		if startObj != nil && len(defs[startObj]) == 1 {
			if be, ok := ast.Unparen(defs[startObj][0]).(*ast.BinaryExpr); ok && be.Op == token.SUB && endObj != nil && mentionsObj(info, be.X, endObj) && isLenOf(be.Y, raw) {
				if _, plain := ast.Unparen(be.X).(*ast.Ident); plain {
					startOK = true
				}
			}
		}
		c.Check(endOK && startOK, r4, "patchJSONNumericField: splice bounds are the tokenizer's value span", prefix.Pos(), "end = InputOffset() after decoding the value, start = end - len(raw)",
			fmt.Sprintf("the splice bounds are not exactly the span of the old value (end from InputOffset unadjusted: %v, start = end - len(raw): %v): bytes of the old value survive or neighbouring bytes are dropped", endOK, startOK), nil)
	}
	c.Check(true, r4, "patchJSONNumericField: in-place overwrites inventoried", fp.Decl.Pos(), fmt.Sprintf("%d in-place overwrite(s)", nOver), "", nil)
}

// countMergeRule (C13.R3, shared by C06.R2): fs.StoreRepository.Update merges the caller's delta into the
// freshly read count of the same store, under the store lock.
func countMergeRule(c *Ctx, r3 string) {
	w := c.W
	fu := w.Fn("fs.StoreRepository.Update")
	c.Analysed(fu)
	{
		g := w.G(fu)
		info := fu.Pkg.TypesInfo
		cnt := w.Field("sop", "StoreInfo", "Count")
		delta := w.Field("sop", "StoreInfo", "CountDelta")
		okMerge := false
		var mergeNode *GNode
		for _, n := range g.Nodes {
			as, ok := n.Ast.(*ast.AssignStmt)
			if !ok || len(as.Lhs) != 1 || len(as.Rhs) != 1 || fieldOfSelector(info, as.Lhs[0]) != cnt {
				continue
			}
			be, ok := ast.Unparen(as.Rhs[0]).(*ast.BinaryExpr)
			if ok && be.Op.String() == "+" && fieldOfSelector(info, be.X) == cnt && fieldOfSelector(info, be.Y) == delta {
				// be.X must be the freshly read store (a local from GetWithTTL), not stores[i]
				if sel, ok := ast.Unparen(be.X).(*ast.SelectorExpr); ok {
					if id, ok := ast.Unparen(sel.X).(*ast.Ident); ok {
						if v, ok := info.Uses[id].(*types.Var); ok && !isParamOf(fu, v) {
							okMerge = true
							mergeNode = n
						}
					}
				}
			}
		}
		c.Check(okMerge, r3, "Update: Count = freshlyRead.Count + CountDelta", fu.Decl.Pos(), "delta merged into the freshly read count", "the persisted count is not computed as the freshly read count plus the caller's delta (lost updates of Count)", nil)
		if mergeNode != nil {
			offs := g.MustPrecede(calls("fs.StoreRepository.GetWithTTL"), func(n *GNode) bool { return n == mergeNode })
			c.Offences(g, offs, r3, "Update: count re-read before merging", mergeNode.Ast.Pos(), "GetWithTTL precedes the merge", "merge without re-reading")
			offs = g.MustPrecede(w.callsReaching(kL2DualLock), func(n *GNode) bool { return n == mergeNode })
			c.Offences(g, offs, r3, "Update: merge happens under the store lock", mergeNode.Ast.Pos(), "DualLock (via Retry) precedes the merge", "count merged without holding the store lock")
			offs = g.MustFollow([]*GNode{mergeNode}, callsOrDefers(kL2Unlock), isExit)
			if pre := g.MustPrecede(func(n *GNode) bool {
				for _, cs := range n.Calls {
					if cs.Key == kL2Unlock && cs.Deferred {
						return true
					}
				}
				return false
			}, func(n *GNode) bool { return n == mergeNode }); len(pre) == 0 {
				offs = nil // a deferred Unlock registered before the merge covers every later exit
			}
			c.Offences(g, offs, r3, "Update: store lock released on every exit", mergeNode.Ast.Pos(), "Unlock (deferred) on every exit", "an exit keeps the store lock")
			// the freshly read record is THIS store's: GetWithTTL does not preserve the order of the
			// names it is given (cache hits first, disk loads after), so the base of stores[i] must come
			// from a lookup of stores[i].Name alone, or be matched to the store by a Name comparison
			as := mergeNode.Ast.(*ast.AssignStmt)
			idxOf := func(e ast.Expr) string {
				if sel, ok := ast.Unparen(e).(*ast.SelectorExpr); ok {
					if ix, ok := ast.Unparen(sel.X).(*ast.IndexExpr); ok {
						return types.ExprString(ix.Index)
					}
				}
				return ""
			}
			widx := idxOf(as.Lhs[0])
			defs := localDefs(fu)
			nameFld := w.Field("sop", "StoreInfo", "Name")
			base := ast.Unparen(as.Rhs[0]).(*ast.BinaryExpr).X
			okOwn := false
			detail := "the freshly read record is not traced to a GetWithTTL call"
			var walk func(e ast.Expr, depth int)
			walk = func(e ast.Expr, depth int) {
				if depth > 4 {
					return
				}
				ast.Inspect(e, func(n ast.Node) bool {
					switch x := n.(type) {
					case *ast.CallExpr:
						if w.resolveCall(fu, x).Key == "fs.StoreRepository.GetWithTTL" {
							names := x.Args[3:]
							if len(x.Args) >= 4 && !x.Ellipsis.IsValid() && len(names) == 1 && fieldOfSelector(info, names[0]) == nameFld && idxOf(names[0]) == widx && widx != "" {
								okOwn = true
							} else {
								detail = "the lookup `" + types.ExprString(x) + "` is not a lookup of stores[" + widx + "].Name alone"
							}
							return false
						}
					case *ast.Ident:
						if o := info.Uses[x]; o != nil {
							for _, d := range defs[o] {
								walk(d, depth+1)
							}
						}
					}
					return true
				})
			}
			walk(base, 0)
			if !okOwn {
				// alternative: an explicit Name equality between the record and the store dominates the merge
				eq := g.condNodes(func(e ast.Expr) bool {
					be, ok := e.(*ast.BinaryExpr)
					return ok && (be.Op == token.EQL || be.Op == token.NEQ) && fieldOfSelector(info, be.X) == nameFld && fieldOfSelector(info, be.Y) == nameFld
				})
				if len(eq) > 0 && len(g.MustPrecede(nodeSet(eq), func(n *GNode) bool { return n == mergeNode })) == 0 {
					okOwn = true
				}
			}
			c.Check(okOwn, r3, "Update: the count base of stores[i] is the record looked up for stores[i].Name", mergeNode.Ast.Pos(), "single-name lookup with the same index (or a Name equality check)",
				"the count of one store can be computed from another store's record: "+detail+" (StoreRepository.GetWithTTL returns cache hits before disk loads, not in request order)", nil)
		}
	}
}
