package main

// C30: JSON map-key stores order keys consistently, regardless of history (one clause: comparer purity).

import (
	"fmt"
	"go/ast"
	"go/token"
	"go/types"
	"sort"
	"strings"
)

func init() {
	register("C30", propMeta{
		Explanation:  "Decides one clause - that the comparison of two keys depends on those two keys only: (R1) comparer purity: the functions on the comparison path of map-key stores (IndexSpecification.Comparer, JsonDBMapKey.defaultComparer, JsonDBMapKey.proxyComparer) must not store argument-derived values into state that outlives the call (receiver fields, package variables); each such store makes the order of two keys depend on which keys were compared before; (R2) whatever comparer state exists is private to one opened store: JsonDBMapKey.indexSpecification is assigned only the address of a specification decoded into a local of the same function (never a shared / cached object), and package jsondb keeps no package-level container that could share comparer objects between stores. (R3) the comparers an index specification memoises (btree.CoerceComparer's closures, btree.Compare) order missing values consistently (shared with C29.R3). (R4) the openers of a JSON map-key store install the decoded index specification under the same conditions.",
		DoesNotCover: "That the resulting relation is a total preorder over mixed-type or missing fields is not decided (value-level).",
	}, runC30)
}

func runC30(c *Ctx) {
	w := c.W
	r1 := c.Rule("R1", "comparison functions store nothing derived from their arguments into state that outlives the call", 3)
	for _, k := range []string{"jsondb.IndexSpecification.Comparer", "jsondb.JsonDBMapKey.defaultComparer", "jsondb.JsonDBMapKey.proxyComparer"} {
		f := w.Fn(k)
		c.Analysed(f)
		info := f.Pkg.TypesInfo
		defs := localDefs(f)
		sig := f.Obj.Type().(*types.Signature)
		var params []types.Object
		for i := 0; i < sig.Params().Len(); i++ {
			params = append(params, sig.Params().At(i))
		}
		n := 0
		ast.Inspect(f.Body, func(x ast.Node) bool {
			as, ok := x.(*ast.AssignStmt)
			if !ok {
				return true
			}
			for i, l := range as.Lhs {
				obj, _ := lhsObject(info, l)
				v, isVar := obj.(*types.Var)
				if !isVar {
					continue
				}
				outlives := v.IsField() || (v.Pkg() != nil && v.Parent() == v.Pkg().Scope())
				if !outlives {
					continue
				}
				// field of a LOCAL struct value does not outlive the call: require the selector chain to be rooted at the receiver / a pointer / a package var
				if v.IsField() {
					root := l
					for {
						switch r := ast.Unparen(root).(type) {
						case *ast.SelectorExpr:
							root = r.X
							continue
						case *ast.IndexExpr:
							root = r.X
							continue
						}
						break
					}
					if id, isID := ast.Unparen(root).(*ast.Ident); isID {
						if rv, isV := info.Uses[id].(*types.Var); isV && rv != sig.Recv() && rv.Parent() != rv.Pkg().Scope() {
							if _, isPtr := rv.Type().Underlying().(*types.Pointer); !isPtr {
								continue
							}
						}
					}
				}
				var rhs ast.Expr
				if len(as.Rhs) == len(as.Lhs) {
					rhs = as.Rhs[i]
				} else if len(as.Rhs) == 1 {
					rhs = as.Rhs[0]
				}
				derived := false
				for _, p := range params {
					if rhs != nil && w.mentionsDeep(f, defs, rhs, p) {
						derived = true
					}
				}
				n++
				construct := fmt.Sprintf("%s: store to %s is not derived from the compared keys", shortKey(k), v.Name())
				c.Check(!derived, r1, construct, as.Pos(), "independent of the arguments",
					"`"+types.ExprString(l)+" = "+types.ExprString(rhs)+"` memoises something chosen from the FIRST keys compared (which fields exist / what type a field has): later comparisons of the same two keys then depend on the history of earlier comparisons, so two processes (or one process before and after a restart) can order the same store differently", nil)
			}
			return true
		})
		if n == 0 {
			c.Held(r1, shortKey(k)+": writes no state that outlives the call", f.Decl.Pos(), "pure")
		}
	}

	r2 := c.Rule("R2", "comparer state is private to one opened store", 3)
	{
		fld := w.Field("jsondb", "JsonDBMapKey", "indexSpecification")
		n := 0
		for _, f := range w.declaredFuncs("jsondb") {
			for _, ws := range w.writesOf(f, fld, true) {
				n++
				ok := false
				detail := "not the address of a local"
				if ws.Rhs != nil {
					if u, isU := ast.Unparen(ws.Rhs).(*ast.UnaryExpr); isU && u.Op == token.AND {
						if id, isID := ast.Unparen(u.X).(*ast.Ident); isID {
							if v, isV := ws.In.Pkg.TypesInfo.Uses[id].(*types.Var); isV && v.Pkg() != nil && v.Parent() != v.Pkg().Scope() && !v.IsField() {
								ok = true
							}
						}
					} else if isNilLit(ws.In.Pkg.TypesInfo, ws.Rhs) {
						ok = true
					} else if call, isCall := ast.Unparen(ws.Rhs).(*ast.CallExpr); isCall && w.resolveCall(ws.In, call).Key == "jsondb.NewIndexSpecification" {
						ok = true
					} else {
						detail = "`" + types.ExprString(ws.Rhs) + "`"
					}
				}
				c.Check(ok, r2, fmt.Sprintf("%s: indexSpecification #%d is a freshly decoded, unshared object", shortKey(rootOf(ws.In).Key), n), ws.Pos, "address of a local decoded in this call",
					"the store's comparer object is obtained from "+detail+": a specification object shared between stores carries its memoised per-field comparers from one store to another (one store's first keys decide the other's order)", nil)
			}
		}
		c.Check(n >= 2, r2, "assignments of JsonDBMapKey.indexSpecification inventoried", token.NoPos, fmt.Sprintf("%d", n), "fewer than the two known assignment sites", nil)
		// package-level containers in jsondb
		var shared []string
		scope := w.Pkg("jsondb").Types.Scope()
		for _, name := range scope.Names() {
			v, ok := scope.Lookup(name).(*types.Var)
			if !ok {
				continue
			}
			t := v.Type().String()
			switch v.Type().Underlying().(type) {
			case *types.Map, *types.Slice, *types.Pointer:
				shared = append(shared, name+" "+t)
			default:
				if strings.Contains(t, "sync.Map") || strings.Contains(t, "IndexSpecification") || strings.Contains(t, "JsonDBMapKey") {
					shared = append(shared, name+" "+t)
				}
			}
		}
		sort.Strings(shared)
		c.Check(len(shared) == 0, r2, "package jsondb keeps no package-level container that could share comparer objects", token.NoPos, "none", fmt.Sprintf("package-level shared state: %v", shared), nil)
	}
	r3 := c.Rule("R3", "the per-field comparers an index specification memoises (btree.CoerceComparer's closures, btree.Compare) order missing values consistently: (nil, nil) compares equal and a nil operand sorts on the same side whichever argument it is (shared with C29.R3) - otherwise the order of two keys that both lack an optional field depends on which closure a handle happened to memoise first", 4)
	fco := c.W.Fn("btree.CoerceComparer")
	c.Analysed(fco)
	nilOrderRule(c, r3, c.W.Fn("btree.Compare"))
	for _, l := range c.W.allLits(fco) {
		nilOrderRule(c, r3, l)
	}

	r4 := c.Rule("R4", "every way of opening a JSON map-key store derives the comparer from the persisted index specification in the same way: the openers (NewJsonBtreeMapKey, OpenJsonBtreeMapKey, OpenJsonBtreeMapKeyCursor) assign j.indexSpecification under the same conditions - otherwise two processes order one store differently", 3)
	{
		specF := c.W.Field("jsondb", "JsonDBMapKey", "indexSpecification")
		type site struct {
			fn    string
			conds []string
			pos   token.Pos
		}
		var sites []site
		for _, fn := range c.W.declaredFuncs("jsondb") {
			g := c.W.G(fn)
			info := fn.Pkg.TypesInfo
			for _, n := range g.Nodes {
				as, ok := n.Ast.(*ast.AssignStmt)
				if !ok || len(as.Lhs) != 1 || fieldOfSelector(info, as.Lhs[0]) != specF {
					continue
				}
				if len(as.Rhs) == 1 && isNilLit(info, as.Rhs[0]) {
					continue
				}
				c.Analysed(fn)
				// the decoded specification variable (`&is` on the right-hand side)
				var specVar types.Object
				if len(as.Rhs) == 1 {
					if u, ok := ast.Unparen(as.Rhs[0]).(*ast.UnaryExpr); ok {
						if id, ok := ast.Unparen(u.X).(*ast.Ident); ok {
							specVar = info.Uses[id]
						}
					}
				}
				// gating conditions on that variable: conds one of whose edges cuts every path to the assignment
				var cs []string
				for _, cn := range g.Nodes {
					if !cn.IsCond || cn.Ast == nil {
						continue
					}
					e, _ := cn.Ast.(ast.Expr)
					if e == nil {
						continue
					}
					for _, br := range []int{1, 2} {
						if len(g.ReachableWithout(edgeCut([]*GNode{cn}, br), func(x *GNode) bool { return x == n })) == 0 {
							t := types.ExprString(e)
							if br == 2 {
								t = "!(" + t + ")"
							}
							// conditions on the function's own inputs differ by design (names of parameters); keep the ones about the decoded specification and the decode result
							if specVar != nil && mentionsObj(info, e, specVar) {
								cs = append(cs, t)
							}
						}
					}
				}
				sort.Strings(cs)
				sites = append(sites, site{shortKey(fn.Key), cs, as.Pos()})
			}
		}
		c.Check(len(sites) >= 3, r4, "index-specification assignment sites inventoried", token.NoPos, fmt.Sprintf("%d sites", len(sites)), fmt.Sprintf("only %d sites", len(sites)), nil)
		if len(sites) > 0 {
			ref := strings.Join(sites[0].conds, " && ")
			for _, st := range sites {
				got := strings.Join(st.conds, " && ")
				c.Check(got == ref, r4, st.fn+": the specification is installed under the same conditions as in "+sites[0].fn, st.pos, "["+got+"]",
					fmt.Sprintf("%s installs the decoded specification under [%s] while %s does so under [%s]: a store opened through one path uses the specification's comparer, through the other the default one - the same pair of keys compares differently, scans come out unsorted and Find misses stored keys", st.fn, got, sites[0].fn, ref), nil)
			}
		}
	}

}
