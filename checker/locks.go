package main

// P-LOCK: must-held lockset per CFG node, with one-to-three levels of caller-held propagation.
//
// Lock objects are identified by the resolved object of the receiver expression of a
// Lock/RLock/Unlock/RUnlock call on a sync.Mutex / sync.RWMutex: a package-level variable
// (globalReplicationDetailsLocker) or a struct field (c.locker - instances are not distinguished,
// which is sound for a must-analysis of accesses to state of the same struct / package).
// Kind: 0 not held, 1 held shared (RLock), 2 held exclusively (Lock).

import (
	"go/ast"
	"go/types"
	"sort"
)

type lockset map[types.Object]int

func (a lockset) clone() lockset {
	b := lockset{}
	for k, v := range a {
		b[k] = v
	}
	return b
}

func meet(a, b lockset) lockset {
	out := lockset{}
	for k, v := range a {
		if w, ok := b[k]; ok {
			if w < v {
				v = w
			}
			if v > 0 {
				out[k] = v
			}
		}
	}
	return out
}

func sameLockset(a, b lockset) bool {
	if len(a) != len(b) {
		return false
	}
	for k, v := range a {
		if b[k] != v {
			return false
		}
	}
	return true
}

// lockOp decodes a call site as a mutex operation: (lock object, new kind, isOp). kind -1 = release.
func lockOp(info *types.Info, cs *CallSite) (types.Object, int, bool) {
	var kind int
	switch cs.Key {
	case "sync.Mutex.Lock", "sync.RWMutex.Lock":
		kind = 2
	case "sync.RWMutex.RLock":
		kind = 1
	case "sync.Mutex.Unlock", "sync.RWMutex.Unlock", "sync.RWMutex.RUnlock":
		kind = -1
	default:
		return nil, 0, false
	}
	sel, ok := cs.Call.Fun.(*ast.SelectorExpr)
	if !ok {
		return nil, 0, false
	}
	var obj types.Object
	switch x := ast.Unparen(sel.X).(type) {
	case *ast.Ident:
		obj = info.Uses[x]
	case *ast.SelectorExpr:
		if s := info.Selections[x]; s != nil {
			obj = originOf(s.Obj())
		} else {
			obj = info.Uses[x.Sel] // pkg.Var
		}
	case *ast.UnaryExpr:
		if id, ok := ast.Unparen(x.X).(*ast.Ident); ok {
			obj = info.Uses[id]
		}
	}
	if obj == nil {
		return nil, 0, false
	}
	return obj, kind, true
}

type lockInfo struct {
	w       *World
	atNode  map[*Func]map[int]lockset // locks held on ENTRY to each node (must), assuming none held at function entry
	entry   map[*Func]lockset         // locks held by all callers at all call sites (must), bounded depth
	callers map[*Func][]*CallSite
}

func newLockInfo(w *World) *lockInfo {
	li := &lockInfo{w: w, atNode: map[*Func]map[int]lockset{}, entry: map[*Func]lockset{}, callers: map[*Func][]*CallSite{}}
	for _, f := range w.allDeclared() {
		for _, fn := range append([]*Func{f}, w.allLits(f)...) {
			for _, cs := range w.Sites(fn) {
				if cf := w.CalleeFunc(cs); cf != nil {
					li.callers[cf] = append(li.callers[cf], cs)
				}
			}
		}
	}
	return li
}

// local computes the must-held locks on entry to every node of f (none held at entry).
func (li *lockInfo) local(f *Func) map[int]lockset {
	if m, ok := li.atNode[f]; ok {
		return m
	}
	g := li.w.G(f)
	info := f.Pkg.TypesInfo
	in := map[int]lockset{}
	visited := map[int]bool{}
	in[g.Entry] = lockset{}
	visited[g.Entry] = true
	work := []int{g.Entry}
	transfer := func(n *GNode, s lockset) lockset {
		out := s.clone()
		for _, cs := range n.Calls {
			if cs.Deferred || cs.Go {
				continue
			}
			if obj, kind, ok := lockOp(info, cs); ok {
				if kind < 0 {
					delete(out, obj)
				} else {
					out[obj] = kind
				}
			}
		}
		return out
	}
	for len(work) > 0 {
		id := work[0]
		work = work[1:]
		n := g.Nodes[id]
		out := transfer(n, in[id])
		for _, e := range n.Succs {
			if !visited[e.To] {
				visited[e.To] = true
				in[e.To] = out.clone()
				work = append(work, e.To)
				continue
			}
			m := meet(in[e.To], out)
			if !sameLockset(m, in[e.To]) {
				in[e.To] = m
				work = append(work, e.To)
			}
		}
	}
	li.atNode[f] = in
	return in
}

// heldAtCall: locks held when call site cs executes (local state at its node plus the function's entry locks).
func (li *lockInfo) heldAtNode(f *Func, n *GNode, depth int) lockset {
	s := li.local(f)[n.ID].clone()
	// operations earlier in the same node (a node may hold several calls) are ignored: conservative
	for k, v := range li.entryHeld(f, depth) {
		if s[k] < v {
			s[k] = v
		}
	}
	return s
}

func (li *lockInfo) nodeOfCall(f *Func, cs *CallSite) *GNode {
	g := li.w.G(f)
	for _, n := range g.Nodes {
		for _, x := range n.Calls {
			if x == cs {
				return n
			}
		}
	}
	return nil
}

// entryHeld: locks every caller holds at every call site of f (function literals: the locks held where the
// literal is invoked are not tracked - a literal passed to `go` or a task runner starts with none).
func (li *lockInfo) entryHeld(f *Func, depth int) lockset {
	if depth <= 0 {
		return lockset{}
	}
	if f.Lit != nil {
		// immediately invoked or deferred literals inherit the state at their creation node only when
		// they are called in place; keep it simple and sound: none
		return lockset{}
	}
	if f.Obj != nil && f.Obj.Exported() {
		return lockset{} // callable from anywhere
	}
	cs := li.callers[f]
	if len(cs) == 0 {
		return lockset{}
	}
	var acc lockset
	for i, c := range cs {
		n := li.nodeOfCall(c.In, c)
		var h lockset
		if n == nil || c.Go {
			h = lockset{}
		} else {
			h = li.heldAtNode(c.In, n, depth-1)
		}
		if i == 0 {
			acc = h
		} else {
			acc = meet(acc, h)
		}
	}
	return acc
}

type varAccess struct {
	f     *Func
	n     *GNode
	write bool
	held  lockset
}

// accessesOf lists the accesses to package-level variable v in the given functions (reads and writes,
// including writes through the variable when it is a pointer / struct: `v.X = ...`).
func (li *lockInfo) accessesOf(v *types.Var, funcs []*Func) []varAccess {
	var out []varAccess
	for _, root := range funcs {
		for _, f := range append([]*Func{root}, li.w.allLits(root)...) {
			g := li.w.G(f)
			info := f.Pkg.TypesInfo
			for _, n := range g.Nodes {
				if n.Ast == nil {
					continue
				}
				read, write := false, false
				ast.Inspect(n.Ast, func(x ast.Node) bool {
					switch s := x.(type) {
					case *ast.FuncLit:
						return false
					case *ast.AssignStmt:
						for _, l := range s.Lhs {
							if rootIdentIs(info, l, v) {
								write = true
							}
						}
					case *ast.IncDecStmt:
						if rootIdentIs(info, s.X, v) {
							write = true
						}
					case *ast.Ident:
						if info.Uses[s] == types.Object(v) {
							read = true
						}
					}
					return true
				})
				if write {
					out = append(out, varAccess{f, n, true, li.heldAtNode(f, n, 3)})
				} else if read {
					out = append(out, varAccess{f, n, false, li.heldAtNode(f, n, 3)})
				}
			}
		}
	}
	sort.SliceStable(out, func(i, j int) bool {
		if out[i].f.Key != out[j].f.Key {
			return out[i].f.Key < out[j].f.Key
		}
		return out[i].n.ID < out[j].n.ID
	})
	return out
}

func rootIdentIs(info *types.Info, e ast.Expr, v *types.Var) bool {
	for {
		switch x := ast.Unparen(e).(type) {
		case *ast.SelectorExpr:
			if _, isPkg := info.Uses[identOf(x.X)].(*types.PkgName); isPkg {
				return info.Uses[x.Sel] == types.Object(v)
			}
			e = x.X
			continue
		case *ast.IndexExpr:
			e = x.X
			continue
		case *ast.StarExpr:
			e = x.X
			continue
		case *ast.Ident:
			return info.Uses[x] == types.Object(v)
		}
		return false
	}
}

func identOf(e ast.Expr) *ast.Ident {
	id, _ := ast.Unparen(e).(*ast.Ident)
	return id
}
