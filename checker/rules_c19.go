package main

// C19: persisted stores hold exactly what was written, under every storage option (structural part).

import (
	"fmt"
	"go/ast"
	"go/token"
	"go/types"
	"reflect"
	"sort"
	"strings"
)

func init() {
	register("C19", propMeta{
		Explanation:  "Decides codec agreement and value placement, not equality with a model: (R1) the node codec is symmetric and complete: the private structs in Node.MarshalJSON and Node.UnmarshalJSON declare the same fields, types and JSON tags, these cover every exported field of Node, every decoded field is copied back into the node, Item's JSON tags are unique and its only untagged field is the unexported fetch marker; (R2) decode failures on the read path are returned (shared with C10.R5); (R3) value placement follows the store options: commitTrackedItemsValues is a no-op exactly when values live in the node segment or are actively persisted; manage detaches an item's value (Value = nil, ValueNeedsFetch = true) only after that value was marshalled successfully into the blob it returns; (R4) the in-memory value of the current item is dropped (unfetchCurrentValue) only when it is known to be a copy fetched from the value store - the valueWasFetched marker, set only by the fetching read paths - because an added-then-updated value may exist inline only; (R5) a value read falls back to the blob store when the value cache misses or fails, returns the blob store's error, and assigns item.Value only after a successful decode. (R6) ValueNeedsFetch is cleared only behind a `Value != nil` test of the same item, after an assignment of its Value, or while removing the item. (R7) the rollback list of tracked value blobs takes an item's current id before the id is reset to the tracked one. (R8) in itemActionTracker.Add and Update (closures included) the error of every BlobStore.Add is tested and every return reached on its failure edge returns that very error variable, so a value blob that could not be written is never committed as if it had been.",
		DoesNotCover: "Equality of contents with an in-memory model over operation sequences, restart behaviour and slot-length dependent restructuring are not decided.",
	}, runC19)
}

type fieldRow struct{ name, typ, tag string }

func structRows(info *types.Info, st *ast.StructType) []fieldRow {
	var rows []fieldRow
	for _, f := range st.Fields.List {
		tag := ""
		if f.Tag != nil {
			tag = reflect.StructTag(strings.Trim(f.Tag.Value, "`")).Get("json")
		}
		t := ""
		if tv, ok := info.Types[f.Type]; ok {
			t = tv.Type.String()
		}
		for _, n := range f.Names {
			rows = append(rows, fieldRow{n.Name, t, tag})
		}
	}
	sort.Slice(rows, func(i, j int) bool { return rows[i].name < rows[j].name })
	return rows
}

func localStruct(f *Func, name string) *ast.StructType {
	var out *ast.StructType
	ast.Inspect(f.Body, func(x ast.Node) bool {
		if ts, ok := x.(*ast.TypeSpec); ok && ts.Name.Name == name {
			if st, ok := ts.Type.(*ast.StructType); ok {
				out = st
			}
		}
		return true
	})
	return out
}

func runC19(c *Ctx) {
	w := c.W
	r1 := c.Rule("R1", "Node's JSON codec is symmetric and complete; Item's tags are unique", 5)
	{
		fm, fu := w.Fn("btree.Node.MarshalJSON"), w.Fn("btree.Node.UnmarshalJSON")
		c.Analysed(fm)
		c.Analysed(fu)
		sm, su := localStruct(fm, "nodeData"), localStruct(fu, "nodeData")
		if sm == nil || su == nil {
			c.Violated(r1, "Node codec: private wire structs found", fm.Decl.Pos(), "MarshalJSON/UnmarshalJSON no longer declare a local `nodeData` struct (rule needs re-anchoring)", nil)
		} else {
			rm, ru := structRows(fm.Pkg.TypesInfo, sm), structRows(fu.Pkg.TypesInfo, su)
			c.Check(reflect.DeepEqual(rm, ru), r1, "Node codec: encoder and decoder declare the same fields, types and tags", fm.Decl.Pos(), fmt.Sprintf("%d fields", len(rm)), fmt.Sprintf("encoder %v vs decoder %v", rm, ru), nil)
			// coverage of Node's exported fields
			nodeT := w.Object("btree", "Node").Type().Underlying().(*types.Struct)
			var missing []string
			for i := 0; i < nodeT.NumFields(); i++ {
				fl := nodeT.Field(i)
				if !fl.Exported() {
					continue
				}
				found := false
				for _, r := range rm {
					if r.name == fl.Name() {
						found = true
					}
				}
				if !found {
					missing = append(missing, fl.Name())
				}
			}
			c.Check(len(missing) == 0, r1, "Node codec: every exported field of Node is on the wire", fm.Decl.Pos(), "all covered", fmt.Sprintf("not encoded: %v", missing), nil)
			// encoder fills every wire field from the same-named node field; decoder copies every wire field back
			info := fm.Pkg.TypesInfo
			filled := map[string]bool{}
			ast.Inspect(fm.Body, func(x ast.Node) bool {
				if cl, ok := x.(*ast.CompositeLit); ok {
					for _, el := range cl.Elts {
						if kv, ok := el.(*ast.KeyValueExpr); ok {
							if id, ok := kv.Key.(*ast.Ident); ok {
								if fv := fieldOfSelectorDeep(info, kv.Value); fv != nil && fv.Name() == id.Name {
									filled[id.Name] = true
								}
							}
						}
					}
				}
				return true
			})
			var unfilled []string
			for _, r := range rm {
				if !filled[r.name] {
					unfilled = append(unfilled, r.name)
				}
			}
			c.Check(len(unfilled) == 0, r1, "Node codec: the encoder fills every wire field from the same-named node field", fm.Decl.Pos(), "all filled", fmt.Sprintf("not filled from the node: %v", unfilled), nil)
			ui := fu.Pkg.TypesInfo
			back := map[string]bool{}
			ast.Inspect(fu.Body, func(x ast.Node) bool {
				if as, ok := x.(*ast.AssignStmt); ok {
					for i, l := range as.Lhs {
						if fv := fieldOfSelector(ui, l); fv != nil && i < len(as.Rhs) {
							if sv := fieldOfSelectorDeep(ui, as.Rhs[i]); sv != nil && sv.Name() == fv.Name() {
								back[fv.Name()] = true
							}
						}
					}
				}
				return true
			})
			var lost []string
			for _, r := range ru {
				if !back[r.name] {
					lost = append(lost, r.name)
				}
			}
			c.Check(len(lost) == 0, r1, "Node codec: the decoder copies every wire field back into the node", fu.Decl.Pos(), "all copied", fmt.Sprintf("decoded but never assigned to the node: %v", lost), nil)
		}
		itemT := w.Object("btree", "Item").Type().Underlying().(*types.Struct)
		tags := map[string]string{}
		okTags := true
		var untagged []string
		for i := 0; i < itemT.NumFields(); i++ {
			tag := jsonTagName(itemT.Tag(i))
			if tag == "" {
				untagged = append(untagged, itemT.Field(i).Name())
				continue
			}
			if prev, dup := tags[tag]; dup {
				okTags = false
				untagged = append(untagged, "duplicate tag "+tag+" on "+prev)
			}
			tags[tag] = itemT.Field(i).Name()
		}
		c.Check(okTags && len(untagged) == 1 && untagged[0] == "valueWasFetched", r1, "Item: JSON tags are unique and only the unexported fetch marker is untagged", token.NoPos, fmt.Sprintf("%d tagged fields", len(tags)), fmt.Sprintf("untagged/duplicate: %v", untagged), nil)
	}

	r2 := c.Rule("R2", "decode failures on the read path are returned (shared with C10.R5)", 2)
	decodeErrorsRule(c, r2)

	r3 := c.Rule("R3", "value placement follows the store options; a value is detached only after it was marshalled", 2)
	{
		f := w.Fn("common.itemActionTracker.commitTrackedItemsValues")
		g := w.G(f)
		c.Analysed(f)
		info := f.Pkg.TypesInfo
		inNode := w.Field("sop", "StoreInfo", "IsValueDataInNodeSegment")
		active := w.Field("sop", "StoreInfo", "IsValueDataActivelyPersisted")
		cn := g.condNodes(func(e ast.Expr) bool { fv := fieldOfSelector(info, e); return fv == inNode || fv == active })
		ok := len(cn) == 2
		// no OTHER condition may skip the value write: every cond node from which a nil return is reachable
		// without passing manage / blobStore.Add must be one of the two option tests (or a len()/loop test)
		for _, x := range g.Nodes {
			if !x.IsCond || x.Ast == nil || x.RangeHead != nil {
				continue
			}
			if fv := fieldOfSelector(info, x.Ast.(ast.Expr)); fv != nil && fv != inNode && fv != active && fv.Pkg() != nil && fv.Pkg().Name() == "sop" {
				firstLoop := token.NoPos
				for _, h := range g.Nodes {
					if h.RangeHead != nil && (firstLoop == token.NoPos || h.RangeHead.Pos() < firstLoop) {
						firstLoop = h.RangeHead.Pos()
					}
				}
				if firstLoop != token.NoPos && x.Ast.Pos() < firstLoop {
					ok = false
				}
			}
		}
		if ok {
			// true edges return nil immediately; the blob write is reachable only via both false edges
			for _, x := range cn {
				r := g.Reach(branchStarts([]*GNode{x}, 1), func(n *GNode) bool { return n.IsCond }, nil)
				for _, y := range g.Nodes {
					if r.Seen[y.ID] && (calls(kBlobAdd)(y) || calls("common.itemActionTracker.manage")(y)) {
						ok = false
					}
				}
			}
			ok = ok && len(g.notOnlyVia(cn, 2, calls(kBlobAdd))) == 0
		}
		c.Check(ok, r3, "commitTrackedItemsValues: no-op exactly for in-node and actively persisted values", f.Decl.Pos(), "early return on either option; blobs written otherwise", "values are (not) written at commit for the wrong storage option", nil)
		fm := w.Fn("common.itemActionTracker.manage")
		gm := w.G(fm)
		c.Analysed(fm)
		mi := fm.Pkg.TypesInfo
		valF := w.Field("btree", "Item", "Value")
		detach := func(n *GNode) bool {
			as, isAs := n.Ast.(*ast.AssignStmt)
			return isAs && len(as.Lhs) == 1 && len(as.Rhs) == 1 && fieldOfSelector(mi, as.Lhs[0]) == valF && isNilLit(mi, as.Rhs[0])
		}
		nd := len(gm.Find(detach))
		okD := nd == 1
		for _, nc := range gm.callNodes("encoding.Marshal") {
			fail, _, tested := gm.ErrBranches(nc.n, nc.cs)
			if !tested {
				okD = false
				continue
			}
			r := gm.Reach(fail, nil, nil)
			for _, x := range gm.Find(detach) {
				if r.Seen[x.ID] {
					okD = false
				}
			}
		}
		okD = okD && len(gm.MustPrecede(calls("encoding.Marshal"), detach)) == 0
		c.Check(okD, r3, "manage: an item's value is detached only after it was marshalled successfully", fm.Decl.Pos(), "Value = nil follows a successful Marshal", "an item's in-memory value can be dropped without (or despite a failed) serialisation into its blob", nil)
	}

	r4 := c.Rule("R4", "the current item's in-memory value is dropped only when it is a fetched copy", 3)
	{
		f := w.Fn("btree.Btree.unfetchCurrentValue")
		g := w.G(f)
		c.Analysed(f)
		info := f.Pkg.TypesInfo
		marker := w.Field("btree", "Item", "valueWasFetched")
		valF := w.Field("btree", "Item", "Value")
		drop := func(n *GNode) bool {
			as, isAs := n.Ast.(*ast.AssignStmt)
			return isAs && len(as.Lhs) == 1 && len(as.Rhs) == 1 && fieldOfSelector(info, as.Lhs[0]) == valF && isNilLit(info, as.Rhs[0])
		}
		mk := g.condNodes(func(e ast.Expr) bool { return fieldOfSelector(info, e) == marker })
		ok := len(g.Find(drop)) == 1 && len(mk) == 1 && len(g.notOnlyVia(mk, 1, drop)) == 0
		c.Check(ok, r4, "unfetchCurrentValue: Value is dropped only under valueWasFetched", f.Decl.Pos(), "guarded by the fetch marker",
			"the current item's value can be dropped although it was not fetched from the value store: a value that exists only inline (added then updated in one transaction of an actively persisted store) is lost and later reads return the older blob", nil)
		// who sets the marker true
		var setters []string
		for _, fn := range w.declaredFuncs("btree") {
			for _, ws := range w.writesOf(fn, marker, true) {
				if ws.Rhs != nil && isBoolLit(fn.Pkg.TypesInfo, ws.Rhs, true) {
					setters = append(setters, fn.Key)
				}
			}
		}
		sort.Strings(setters)
		setters = dedup(setters)
		readers := []string{"btree.Btree.GetCurrentItem", "btree.Btree.GetCurrentItemNoLock", "btree.Btree.GetCurrentValue", "btree.Btree.GetCurrentValueNoLock", "btree.Btree.RLockCurrentItem"}
		okS := len(setters) >= 1
		for _, st := range setters {
			if !contains(readers, st) {
				okS = false
			}
		}
		c.Check(okS, r4, "valueWasFetched is set only by the value-reading entry points", token.NoPos, fmt.Sprintf("%v", shortKeys(setters)), fmt.Sprintf("set by %v; only the read API %v may mark a value as a fetched copy", shortKeys(setters), shortKeys(readers)), nil)
		// only unfetchCurrentValue drops values in package btree (besides the update replacing it)
		var droppers []string
		for _, fn := range w.declaredFuncs("btree") {
			for _, ws := range w.writesOf(fn, valF, true) {
				if ws.Rhs != nil && isNilLit(fn.Pkg.TypesInfo, ws.Rhs) {
					droppers = append(droppers, fn.Key)
				}
			}
		}
		sort.Strings(droppers)
		droppers = dedup(droppers)
		c.Check(sameSet(droppers, "btree.Btree.unfetchCurrentValue"), r4, "package btree: the only function that drops an item's value is unfetchCurrentValue", token.NoPos, fmt.Sprintf("%v", shortKeys(droppers)), fmt.Sprintf("values dropped in %v", shortKeys(droppers)), nil)
	}

	r6 := c.Rule("R6", "ValueNeedsFetch is cleared (the slot declares that it holds its value itself) only where the value is in memory - behind a `Value != nil` test of the same item or after an assignment of its Value - or where the item is being removed", 6)
	{
		vnf := w.Field("btree", "Item", "ValueNeedsFetch")
		valF := w.Field("btree", "Item", "Value")
		nSites := 0
		for _, fn := range append(w.declaredFuncs("common"), w.declaredFuncs("btree")...) {
			info := fn.Pkg.TypesInfo
			for _, ws := range w.writesOf(fn, vnf, false) {
				if ws.Rhs == nil || !isBoolLit(info, ws.Rhs, false) {
					continue
				}
				as, _ := ws.Stmt.(*ast.AssignStmt)
				if as == nil {
					continue
				}
				nSites++
				g := w.G(fn)
				var base string
				for _, l := range as.Lhs {
					if sel, ok := ast.Unparen(l).(*ast.SelectorExpr); ok && fieldOfSelector(info, sel) == vnf {
						base = types.ExprString(sel.X)
					}
				}
				var wn *GNode
				for _, n := range g.Nodes {
					if n.Ast == ast.Node(as) {
						wn = n
					}
				}
				construct := fmt.Sprintf("%s: ValueNeedsFetch of %s cleared #%d only with the value at hand", shortKey(fn.Key), base, ordinalOfWrite(w, fn, vnf, ws))
				if wn == nil {
					c.Violated(r6, construct, ws.Pos, "assignment not found in the control-flow graph", nil)
					continue
				}
				// (c) removal context
				removal := fn.Obj != nil && fn.Obj.Name() == "Remove"
				ast.Inspect(fn.Body, func(x ast.Node) bool {
					cc, ok := x.(*ast.CaseClause)
					if !ok || cc.Pos() > as.Pos() || cc.End() < as.End() {
						return true
					}
					for _, e := range cc.List {
						if id, ok := ast.Unparen(e).(*ast.Ident); ok && id.Name == "removeAction" {
							removal = true
						}
					}
					return true
				})
				if removal {
					c.Held(r6, construct, ws.Pos, "removal: the item and its value go away")
					continue
				}
				// (a) behind `base.Value != nil`
				guards := g.condNodes(func(e ast.Expr) bool {
					be, ok := ast.Unparen(e).(*ast.BinaryExpr)
					if !ok || be.Op != token.NEQ || !isNilLit(info, be.Y) {
						return false
					}
					sel, ok := ast.Unparen(be.X).(*ast.SelectorExpr)
					return ok && fieldOfSelector(info, sel) == valF && types.ExprString(sel.X) == base
				})
				if len(guards) > 0 && len(g.notOnlyVia(guards, 1, func(n *GNode) bool { return n == wn })) == 0 {
					c.Held(r6, construct, ws.Pos, "only reachable through `"+base+".Value != nil`")
					continue
				}
				// (b) after an assignment of base.Value
				setVal := func(n *GNode) bool {
					a2, ok := n.Ast.(*ast.AssignStmt)
					if !ok {
						return false
					}
					for i, l := range a2.Lhs {
						if sel, ok := ast.Unparen(l).(*ast.SelectorExpr); ok && fieldOfSelector(info, sel) == valF && types.ExprString(sel.X) == base {
							if i < len(a2.Rhs) && isNilLit(info, a2.Rhs[i]) {
								return false
							}
							return true
						}
					}
					return false
				}
				offs := g.MustPrecede(setVal, func(n *GNode) bool { return n == wn })
				c.Check(len(g.Find(setVal)) > 0 && len(offs) == 0, r6, construct, ws.Pos, "every path to the write assigns "+base+".Value first",
					"the slot is marked as holding its value although no value is known to be in memory there: an item whose value lives in the value store and was not fetched (a key-only update) ends up with Value == nil, ValueNeedsFetch == false - readers get the zero value and the stored value is queued for deletion", nil)
			}
		}
		c.Check(nSites >= 6, r6, "ValueNeedsFetch = false sites inventoried", token.NoPos, fmt.Sprintf("%d sites", nSites), fmt.Sprintf("only %d sites found, expected at least 6", nSites), nil)
	}
	r7 := c.Rule("R7", "what a rollback deletes is what this transaction wrote: getForRollbackTrackedItemsValues puts an item's CURRENT id (the temporary one an update swapped in) on the list before it resets the id to the tracked (committed) one - the other order names the committed blob", 2)
	rollbackListOrderRule(c, r7)

	r8 := c.Rule("R8", "an actively persisted value that could not be written is reported: in itemActionTracker.Add / Update (closures included) the error of every BlobStore.Add is tested and every return reached on its failure edge returns THAT error (not another variable of the same name)", 2)
	{
		n := 0
		var fns []*Func
		for _, k := range []string{"common.itemActionTracker.Add", "common.itemActionTracker.Update"} {
			f := w.Fn(k)
			fns = append(fns, f)
			var addLits func(x *Func)
			addLits = func(x *Func) {
				for _, l := range x.lits {
					fns = append(fns, l)
					addLits(l)
				}
			}
			addLits(f)
		}
		for _, f := range fns {
			g := w.G(f)
			info := f.Pkg.TypesInfo
			for _, nc := range g.callNodes("sop.BlobStore.Add") {
				n++
				c.Analysed(rootOf(f))
				construct := fmt.Sprintf("%s: the error of BlobStore.Add #%d reaches the caller", shortKey(rootOf(f).Key), ordinalOf(w, rootOf(f), nc.cs))
				fail, _, ok := g.ErrBranches(nc.n, nc.cs)
				if !ok {
					c.Violated(r8, construct, nc.cs.Call.Pos(), "the error of the value write is not bound to a variable that is tested: a failed write of the value blob goes unnoticed", nil)
					continue
				}
				ev := g.errVarOfCall(nc.n, nc.cs)
				r := g.Reach(fail, isReturn, nil)
				var bad *GNode
				for _, x := range g.Nodes {
					if !r.Seen[x.ID] || x.Ret == nil {
						continue
					}
					op := g.ErrOperand(x)
					if op == nil || !mentionsObj(info, op, ev) {
						bad = x
						break
					}
				}
				pos := nc.cs.Call.Pos()
				if bad != nil {
					pos = bad.Ret.Pos()
				}
				c.Check(bad == nil, r8, construct, pos, "every return on the failure edge returns the call's error",
					"a failed BlobStore.Add can end in a return that does not carry its error (a shadowed or different variable): Update reports success, the node slot is stored with the new value id and ValueNeedsFetch set, and the transaction commits an item whose value blob does not exist - later reads fail and the previous value is gone from the node as well", nil)
			}
		}
		c.Check(n >= 2, r8, "BlobStore.Add sites of the item action tracker inventoried", token.NoPos, fmt.Sprintf("%d sites", n), fmt.Sprintf("only %d sites (Add and Update's activelyPersist known)", n), nil)
	}
	r5 := c.Rule("R5", "value reads fall back from the cache to the blob store and assign the value only after decoding", 3)
	{
		f := w.Fn("common.itemActionTracker.Get")
		g := w.G(f)
		c.Analysed(f)
		info := f.Pkg.TypesInfo
		one := g.callNodes(kBlobGetOne)
		c.Check(len(one) >= 1, r5, "Get: blob store fallback present", f.Decl.Pos(), fmt.Sprintf("%d GetOne call(s)", len(one)), "values are never read from the blob store", nil)
		okErr := true
		for _, nc := range one {
			fail, _, tested := g.ErrBranches(nc.n, nc.cs)
			if !tested {
				okErr = false
				continue
			}
			r := g.Reach(fail, isReturn, nil)
			for _, x := range g.Nodes {
				if r.Seen[x.ID] && x.Ret != nil && g.ClassifyReturn(x) != RetNonNil {
					okErr = false
				}
			}
		}
		c.Check(okErr, r5, "Get: a blob store read error is returned", f.Decl.Pos(), "error returned", "a failed value read is swallowed", nil)
		valF := w.Field("btree", "Item", "Value")
		assign := func(n *GNode) bool {
			as, isAs := n.Ast.(*ast.AssignStmt)
			return isAs && len(as.Lhs) == 1 && fieldOfSelector(info, as.Lhs[0]) == valF
		}
		okA := len(g.Find(assign)) >= 1
		for _, nd := range g.Nodes {
			for _, cs := range nd.Calls {
				if strings.HasSuffix(cs.Key, ".Unmarshal") {
					fail, _, tested := g.ErrBranches(nd, cs)
					if !tested {
						okA = false
						continue
					}
					r := g.Reach(fail, nil, nil)
					for _, x := range g.Find(assign) {
						if r.Seen[x.ID] {
							okA = false
						}
					}
				}
			}
		}
		c.Check(okA, r5, "Get: item.Value is assigned only after a successful decode", f.Decl.Pos(), "assignment unreachable from a decode failure", "a value that failed to decode can be handed to the caller", nil)
	}
}

// fieldOfSelectorDeep: the field selected by e, looking through slicing/indexing (n.Slots[:n.Count]).
func fieldOfSelectorDeep(info *types.Info, e ast.Expr) *types.Var {
	for {
		switch x := ast.Unparen(e).(type) {
		case *ast.SliceExpr:
			e = x.X
			continue
		case *ast.IndexExpr:
			e = x.X
			continue
		}
		break
	}
	return fieldOfSelector(info, e)
}

// ordinalOfWrite: 1-based ordinal of the write among the writes of obj in f, in source order.
func ordinalOfWrite(w *World, f *Func, obj types.Object, ws WriteSite) int {
	n := 0
	for _, x := range w.writesOf(f, obj, false) {
		if x.Pos <= ws.Pos {
			n++
		}
	}
	return n
}

// rollbackListOrderRule (C19.R7 = C07.R12).
func rollbackListOrderRule(c *Ctx, r string) {
	w := c.W
	f := w.Fn("common.itemActionTracker.getForRollbackTrackedItemsValues")
	g := w.G(f)
	c.Analysed(f)
	info := f.Pkg.TypesInfo
	idF := w.Field("btree", "Item", "ID")
	// the reset: X.item.ID = <range key>
	var resets, appends []*GNode
	for _, n := range g.Nodes {
		as, ok := n.Ast.(*ast.AssignStmt)
		if !ok {
			continue
		}
		for i, l := range as.Lhs {
			if fieldOfSelector(info, l) == idF && i < len(as.Rhs) {
				resets = append(resets, n)
			}
		}
		if len(as.Rhs) == 1 && w.mentionsCall(f, as.Rhs[0], "builtin.append") {
			reads := false
			ast.Inspect(as.Rhs[0], func(x ast.Node) bool {
				if sx, ok := x.(ast.Expr); ok && fieldOfSelector(info, sx) == idF {
					reads = true
				}
				return !reads
			})
			if reads {
				appends = append(appends, n)
			}
		}
	}
	c.Check(len(appends) >= 1, r, "getForRollbackTrackedItemsValues: the item's id is put on the rollback list", f.Decl.Pos(), fmt.Sprintf("%d append(s) of item.ID", len(appends)), "no append of item.ID found", nil)
	if len(resets) == 0 {
		c.Held(r, "getForRollbackTrackedItemsValues: the id is listed before it is reset", f.Decl.Pos(), "the getter does not reset item ids")
		return
	}
	r0 := g.Reach(idsOf(resets), func(n *GNode) bool { return n.RangeHead != nil }, nil)
	var offs []Offence
	for _, a := range appends {
		isReset := false
		for _, x := range resets {
			if x == a {
				isReset = true
			}
		}
		if r0.Seen[a.ID] && !isReset {
			offs = append(offs, Offence{a, r0.Path(a.ID)})
		}
	}
	c.Offences(g, offs, r, "getForRollbackTrackedItemsValues: the id is listed before it is reset", f.Decl.Pos(), "append(item.ID) precedes item.ID = <tracked id> in every iteration",
		"the item's id is reset to the tracked (committed) id before it is put on the list: for an updated item whose value lives in its own blob the rollback of a failed or abandoned transaction deletes the COMMITTED value blob and leaks the temporary one - the key stays in the tree but its value cannot be read any more")
}
