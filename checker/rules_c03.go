package main

// C03: uncommitted and rolled-back writes are never visible to other transactions.

import (
	"fmt"
	"go/ast"
	"go/token"
	"go/types"
)

func init() {
	register("C03", propMeta{
		Explanation:  "Decides where staged data may be written and what readers resolve through: (R1) commitUpdatedNodes stages the new node versions under the handle's freshly allocated INACTIVE physical id only (blob key and L2 key), never under the active id, reserves that id in the registry before the blob is written, and never flips the active id; (R2) nodeRepositoryBackend.get resolves a node that is not in the transaction's own caches through the registry handle and fetches the blob / L1 entry of that handle's ACTIVE id, the process-wide MRU shortcut being taken only before commit time (phaseDone == 0) and the L1 cache serving an entry only when its version equals the handle's version; (R3) the undo of a staged update removes the INACTIVE id's blob and cache entry (never the active one) and clears the reservation; (R4) the pre-images that a failed commit writes back are logged before the handles are flipped in place (shared with C08.R2); (R6) handles reach the L1/L2 caches only after the registry file write succeeded (shared with C20.R2); (R5) nothing a fresh transaction resolves without an un-flipped handle is written before the commit point: the calls reachable from phase 1 that publish such state (StoreRepository.Update of the persisted Count, Registry.Add of a first root whose id is pre-published in StoreInfo.RootNodeID) are enumerated and must be empty. (R7) uncommitted in-place changes of a node stay private: the L1 node cache stores clones and hands out copies only (shared with C38.R2/R3). (R8) in an actively persisted store an updated value is written under a fresh blob id whether or not the value was read first. (R9) the count delta a writer applied in phase 1 is reversed on the right stores when it aborts: getRollbackStoresInfo returns one element per backend in backend order, because Transaction.rollback indexes the created flags with the list position (shared with C06.R5).",
		DoesNotCover: "Schedules are not explored; what readers see of item VALUE blobs written in phase 1 (they are reachable only through nodes, hence through R1/R2) and TTL-based freshness of the handle cache across processes (C20) are not decided.",
	}, runC03)
}

func runC03(c *Ctx) {
	w := c.W
	const (
		kAlloc    = "sop.Handle.AllocateID"
		kInactive = "sop.Handle.GetInActiveID"
		kActive   = "sop.Handle.GetActiveID"
		kFlip     = "sop.Handle.FlipActiveID"
		kL2Set    = "sop.L2Cache.SetStruct"
	)
	r1 := c.Rule("R1", "commitUpdatedNodes stages under the allocated inactive id only, reserving it in the registry before the blob write", 6)
	{
		f := w.Fn(kNRBcommitUpdated)
		g := w.G(f)
		c.Analysed(f)
		info := f.Pkg.TypesInfo
		defs := localDefs(f)
		keyFld := w.Field("sop", "KeyValuePair", "Key")
		n := 0
		okKey := true
		for _, x := range g.Nodes {
			as, ok := x.Ast.(*ast.AssignStmt)
			if !ok {
				continue
			}
			for i, l := range as.Lhs {
				if fieldOfSelector(info, l) != keyFld || len(as.Rhs) != len(as.Lhs) {
					continue
				}
				n++
				if !w.mentionsDeep(f, defs, as.Rhs[i], nil, kAlloc) || w.mentionsDeep(f, defs, as.Rhs[i], nil, kActive) {
					okKey = false
				}
			}
		}
		c.Check(n >= 1 && okKey, r1, "commitUpdatedNodes: blob key is the id returned by AllocateID", f.Decl.Pos(), fmt.Sprintf("%d key assignment(s), all from AllocateID", n), "a staged node blob is keyed by something other than the freshly allocated inactive id (it could overwrite the live blob)", nil)
		var usesActive []string
		for _, cs := range w.AllSites(f) {
			if cs.Key == kActive || cs.Key == kFlip {
				usesActive = append(usesActive, cs.Key+" @"+w.PosStr(cs.Call.Pos()))
			}
		}
		c.Check(len(usesActive) == 0, r1, "commitUpdatedNodes: never touches the active id", f.Decl.Pos(), "no GetActiveID / FlipActiveID", fmt.Sprintf("uses the active id while staging: %v", usesActive), nil)
		sets := g.callNodes(kL2Set)
		okSet := len(sets) >= 1
		for _, s := range sets {
			if len(s.cs.Call.Args) < 2 || !w.mentionsCall(f, s.cs.Call.Args[1], kInactive) {
				okSet = false
			}
		}
		c.Check(okSet, r1, "commitUpdatedNodes: L2 copy is keyed by the inactive id", f.Decl.Pos(), "SetStruct(formatKey(GetInActiveID()))", "the staged node is cached under a key other than the inactive id", nil)
		offs := g.MustPrecede(calls(kRegUpdNL), calls(kBlobAdd))
		c.Offences(g, offs, r1, "commitUpdatedNodes: reservation is written before the blob", f.Decl.Pos(), "registry.UpdateNoLocks precedes blobStore.Add", "a staged blob can be written without its id being reserved in the registry")
		adds := g.callNodes(kBlobAdd)
		c.Check(len(adds) == 1, r1, "commitUpdatedNodes: one blob write", f.Decl.Pos(), "one blobStore.Add", fmt.Sprintf("found %d", len(adds)), nil)
		for _, nc := range g.callNodes(kRegUpdNL) {
			_, succ, ok := g.ErrBranches(nc.n, nc.cs)
			okE := ok
			if ok {
				// the blob write is reachable only from the success edge
				okE = len(g.ReachableWithout(func(from *GNode, e Edge) bool {
					for _, s := range succ {
						if e.To == s {
							return true
						}
					}
					return false
				}, calls(kBlobAdd))) == 0
			}
			c.Check(okE, r1, "commitUpdatedNodes: blob write only after the reservation succeeded", nc.cs.Call.Pos(), "failure edge returns", "blobStore.Add reachable although the registry reservation failed", nil)
		}
	}

	r2 := c.Rule("R2", "reads resolve through the registry handle's active id; MRU shortcut only before commit time; L1 hit requires an equal version", 7)
	readPathRules(c, r2)

	r3 := c.Rule("R3", "the undo of a staged update deletes the INACTIVE id's blob and clears the reservation", 3)
	{
		f := w.Fn(kNRBrbUpdated)
		g := w.G(f)
		c.Analysed(f)
		info := f.Pkg.TypesInfo
		rm := g.callNodes(kBlobRemove)
		okR := len(rm) == 1
		var idsVar *types.Var
		if okR {
			idsVar = argIdentVar(info, rm[0].cs.Call, 1)
			okR = idsVar != nil
		}
		if okR {
			// every append into the id list takes GetInActiveID()
			n := 0
			ast.Inspect(f.Body, func(x ast.Node) bool {
				call, ok := x.(*ast.CallExpr)
				if !ok || w.resolveCall(f, call).Key != "builtin.append" || len(call.Args) < 2 || !mentionsObj(info, call.Args[0], idsVar) {
					return true
				}
				n++
				for _, a := range call.Args[1:] {
					if !w.mentionsCall(f, a, kInactive) || w.mentionsCall(f, a, kActive) {
						okR = false
					}
				}
				return true
			})
			okR = okR && n >= 1
		}
		var act []string
		for _, cs := range w.AllSites(f) {
			if cs.Key == kActive {
				act = append(act, w.PosStr(cs.Call.Pos()))
			}
		}
		c.Check(okR && len(act) == 0, r3, "rollbackUpdatedNodes: removes exactly the inactive ids' blobs", f.Decl.Pos(), "ids appended from GetInActiveID()", fmt.Sprintf("the blobs removed by the undo are not (only) the staged inactive ids (active-id uses: %v): a live node blob can be deleted", act), nil)
		clr := g.callNodes("sop.Handle.ClearInactiveID")
		c.Check(len(clr) >= 1, r3, "rollbackUpdatedNodes: clears the reservation", f.Decl.Pos(), "ClearInactiveID on each handle", "the reserved inactive id is not cleared by the undo", nil)
		wr := g.Find(calls(kRegUpdNL, kRegUpd))
		okW := len(wr) >= 1
		if gets := g.callNodes(kRegGet); len(gets) == 1 {
			hv := g.lhsVarOfCall(gets[0].n, gets[0].cs, 0)
			for _, x := range wr {
				for _, cs := range x.Calls {
					if (cs.Key == kRegUpdNL || cs.Key == kRegUpd) && (hv == nil || !mentionsObj(info, cs.Call.Args[len(cs.Call.Args)-1], hv)) {
						okW = false
					}
				}
			}
			// every non-error path to the exit writes the handles back
			offs := g.MustFollow([]*GNode{gets[0].n}, nodeSet(wr), func(n *GNode) bool { return n.Ret != nil && g.ClassifyReturn(n) != RetNonNil })
			if len(offs) > 0 {
				okW = false
			}
		} else {
			okW = false
		}
		c.Check(okW, r3, "rollbackUpdatedNodes: cleared handles are written back to the registry", f.Decl.Pos(), "registry.Update/UpdateNoLocks after ClearInactiveID", "the cleared handles are never written back", nil)
	}

	r4 := c.Rule("R4", "pre-images logged before the in-place flip (shared with C08.R2)", 4)
	rulePreImagesBeforeFlip(c, r4)

	r8 := c.Rule("R8", "an actively persisted store writes an updated value before the commit point, so it must never write it under the committed blob's id: in itemActionTracker.manage(updateAction) the re-keying of the item (item.ID = NewUUID) is reached for actively persisted stores whether or not ValueNeedsFetch is still set - reading the value first clears that flag", 2)
	activePersistRekeyRule(c, r8)
	r9 := c.Rule("R9", "the item count a writer applied before it aborted is taken back from the right stores: positional pairing of getRollbackStoresInfo with btreesBackend in Transaction.rollback (shared with C06.R5)", 3)
	positionalPairingRule(c, r9)
	r7 := c.Rule("R7", "uncommitted in-place changes of a node stay private: the host-wide L1 node cache stores clones of what it is given and hands out materialised copies only, so a transaction never works on the object the cache holds (shared with C38.R2/R3)", 3)
	l1IsolationRules(c, r7, r7)
	r6 := c.Rule("R6", "a handle becomes visible through the caches only after it is in the registry file: the file-system registry's Add / UpdateNoLocks refresh L1 and L2 only after the disk write succeeded (shared with C20.R2) - otherwise readers resolve the flipped handle of a commit whose registry write then fails", 4)
	registryCacheAfterWriteRule(c, r6)

	r5 := c.Rule("R5", "no reader-visible state is published before the commit point", 2)
	{
		p1 := w.Fn(kTxp1)
		c.Analysed(p1)
		path := w.ReachPath(p1, keyIn(kSRUpdate))
		c.Check(path == nil, r5, "phase1Commit does not persist store counts before the commit point", p1.Decl.Pos(), "StoreRepository.Update not reachable from phase 1",
			"phase 1 issues StoreRepository.Update (persisted Count/Timestamp) before the commit point: OpenBtree in a fresh transaction reads the new Count while the writer is between Phase1Commit and Phase2Commit", path)
		nr := w.Fn(kNRBcommitNewRoot)
		c.Analysed(nr)
		p1path := w.ReachPath(p1, keyIn(kNRBcommitNewRoot))
		rpath := w.ReachPath(nr, keyIn(kRegAdd))
		var full []string
		if p1path != nil && rpath != nil {
			full = append(append([]string{}, p1path...), rpath...)
		}
		c.Check(full == nil, r5, "phase1Commit does not register a first root before the commit point", nr.Decl.Pos(), "Registry.Add of a root not reachable from phase 1",
			"phase 1 registers the handle of a store's first root (commitNewRootNodes -> Registry.Add) whose logical id is pre-published in StoreInfo.RootNodeID: a fresh transaction resolves it and reads the uncommitted items before the writer's phase 2", full)
	}
}

// readPathRules (C03.R2, shared by C20.R1): how a node that is not in the transaction's own caches
// is resolved.
func readPathRules(c *Ctx, r2 string) {
	w := c.W
	const (
		kInactive = "sop.Handle.GetInActiveID"
		kActive   = "sop.Handle.GetActiveID"
	)
	{
		f := w.Fn("common.nodeRepositoryBackend.get")
		g := w.G(f)
		c.Analysed(f)
		info := f.Pkg.TypesInfo
		defs := localDefs(f)
		gets := g.callNodes(kRegGet)
		ones := g.callNodes(kBlobGetOne)
		c.Check(len(gets) == 1 && len(ones) == 1, r2, "get: one registry lookup and one blob fetch", f.Decl.Pos(), "Registry.Get / BlobStore.GetOne", fmt.Sprintf("found %d/%d", len(gets), len(ones)), nil)
		if len(gets) == 1 && len(ones) == 1 {
			hv := g.lhsVarOfCall(gets[0].n, gets[0].cs, 0)
			offs := g.MustPrecede(calls(kRegGet), calls(kBlobGetOne, "cache.L1Cache.GetNode"))
			c.Offences(g, offs, r2, "get: blob / L1 node fetch only after the registry lookup", f.Decl.Pos(), "Registry.Get precedes", "a node can be fetched without consulting the registry handle")
			idArg := ones[0].cs.Call.Args[len(ones[0].cs.Call.Args)-1]
			okID := hv != nil && w.mentionsDeep(f, defs, idArg, hv) && w.mentionsDeep(f, defs, idArg, nil, kActive) && !w.mentionsDeep(f, defs, idArg, nil, kInactive)
			c.Check(okID, r2, "get: the blob fetched is the handle's ACTIVE id", ones[0].cs.Call.Pos(), "GetActiveID() of the registry result", "the blob id does not derive from GetActiveID() of the handle just read (a staged, uncommitted blob could be read)", nil)
			for _, nc := range g.callNodes("cache.L1Cache.GetNode") {
				okH := hv != nil && len(nc.cs.Call.Args) >= 2 && mentionsObj(info, nc.cs.Call.Args[1], hv)
				c.Check(okH, r2, "get: the L1 lookup is keyed by the handle just read", nc.cs.Call.Pos(), "handle from Registry.Get", "L1 node lookup does not use the registry handle", nil)
			}
			// version stamped from the handle
			sv := g.callNodes("btree.MetaDataType.SetVersion")
			okV := len(sv) >= 1
			for _, nc := range sv {
				if hv == nil || !mentionsObj(info, nc.cs.Call.Args[0], hv) || !mentionsObj(info, nc.cs.Call.Args[0], w.Field("sop", "Handle", "Version")) {
					okV = false
				}
			}
			c.Check(okV, r2, "get: fetched nodes carry the handle's version", f.Decl.Pos(), "SetVersion(handle.Version)", "a fetched node is not stamped with the version of the handle it was resolved through (the commit-time version check compares garbage)", nil)
		}
		mru := g.callNodes("cache.L1Cache.GetNodeFromMRU")
		pd := w.Field("common", "Transaction", "phaseDone")
		guard := g.condNodes(func(e ast.Expr) bool {
			be, ok := e.(*ast.BinaryExpr)
			if !ok || be.Op != token.EQL || fieldOfSelector(info, be.X) != pd {
				return false
			}
			lit, ok := ast.Unparen(be.Y).(*ast.BasicLit)
			return ok && lit.Value == "0"
		})
		c.Check(len(mru) == 1 && len(guard) == 1, r2, "get: MRU shortcut and its phase guard present", f.Decl.Pos(), "one GetNodeFromMRU under `phaseDone == 0`", fmt.Sprintf("found %d shortcut(s), %d guard(s)", len(mru), len(guard)), nil)
		if len(mru) == 1 && len(guard) == 1 {
			offs := g.notOnlyVia(guard, 1, func(n *GNode) bool { return n == mru[0].n })
			c.Offences(g, offs, r2, "get: process-wide MRU shortcut only before commit time", mru[0].cs.Call.Pos(), "reachable only with phaseDone == 0", "during commit a node can be served from the process-wide MRU without re-reading its handle from the registry")
		}
		// L1: version-matched hits only
		fl := w.Fn("cache.L1Cache.getEntryForHandleLocked")
		gl := w.G(fl)
		c.Analysed(fl)
		li := fl.Pkg.TypesInfo
		ver := gl.condNodes(func(e ast.Expr) bool {
			be, ok := e.(*ast.BinaryExpr)
			return ok && be.Op == token.EQL && mentionsObj(li, be, w.Field("cache", "l1CacheEntry", "nodeVersion")) && mentionsObj(li, be, w.Field("sop", "Handle", "Version"))
		})
		hit := func(n *GNode) bool {
			return n.Ret != nil && len(n.Ret.Results) == 2 && isBoolLit(li, n.Ret.Results[1], true)
		}
		okL := len(ver) == 1 && len(gl.Find(hit)) >= 1 && len(gl.notOnlyVia(ver, 1, hit)) == 0 && w.mentionsCall(fl, fl.Body, kActive)
		c.Check(okL, r2, "L1 cache: an entry is a hit only under the handle's active id with an equal version", fl.Decl.Pos(), "nodeVersion == handle.Version on the entry of GetActiveID()", "the process-wide node cache can serve an entry whose version differs from the handle's (stale or uncommitted node)", nil)
	}
}

// activePersistRekeyRule (C03.R8 = C07.R10).
func activePersistRekeyRule(c *Ctx, r string) {
	w := c.W
	f := w.Fn("common.itemActionTracker.manage")
	g := w.G(f)
	c.Analysed(f)
	info := f.Pkg.TypesInfo
	idF := w.Field("btree", "Item", "ID")
	vnf := w.Field("btree", "Item", "ValueNeedsFetch")
	ap := w.Field("sop", "StoreInfo", "IsValueDataActivelyPersisted")
	rekey := g.Find(func(n *GNode) bool {
		as, ok := n.Ast.(*ast.AssignStmt)
		if !ok || len(as.Lhs) != 1 || len(as.Rhs) != 1 {
			return false
		}
		return fieldOfSelector(info, as.Lhs[0]) == idF && w.mentionsCall(f, as.Rhs[0], "sop.NewUUID")
	})
	c.Check(len(rekey) >= 1, r, "manage: an updated out-of-node value gets a new blob id", f.Decl.Pos(), fmt.Sprintf("%d re-key site(s)", len(rekey)), "no `item.ID = sop.NewUUID()` found in manage", nil)
	if len(rekey) == 0 {
		return
	}
	// reachable with ValueNeedsFetch == false?
	vnfConds := g.condNodes(func(e ast.Expr) bool { return fieldOfSelector(info, e) == vnf })
	r0 := g.Reach([]int{g.Entry}, nil, edgeCut(vnfConds, 1))
	reach := false
	for _, n := range rekey {
		if r0.Seen[n.ID] {
			reach = true
		}
	}
	mentionsAP := len(g.condNodes(func(e ast.Expr) bool {
		hit := false
		ast.Inspect(e, func(x ast.Node) bool {
			if sx, ok := x.(ast.Expr); ok && fieldOfSelector(info, sx) == ap {
				hit = true
			}
			return !hit
		})
		return hit
	})) > 0
	c.Check(reach && mentionsAP, r, "manage: the re-key does not depend on ValueNeedsFetch alone", rekey[0].Ast.Pos(), "reachable with ValueNeedsFetch false when the store is actively persisted",
		"the new blob id is assigned only while ValueNeedsFetch is set, and itemActionTracker.Get clears that flag when the value is read: read-then-update in an actively persisted store writes the new value over the COMMITTED blob before the commit point (other transactions read the uncommitted value) and a rollback then deletes that blob - the committed value of the key is lost for good", nil)
}
