package main

import (
	"fmt"
	"go/ast"
	"go/token"
	"go/types"
	"golang.org/x/tools/go/cfg"
	"sort"
	"strings"
)

func init() {
	register("C28", propMeta{
		Explanation:  "(R1) sibling check over every implementation of sop.Locker.Unlock in scope: a lock entry may be deleted only under a comparison of the STORED owner with the caller's LockID that is atomic with the deletion (compare-and-delete); deleting by key on the strength of a local flag is a violation; (R2) the lock table never drops a live lock: every deletion from the sharded map that backs `locks` other than of the operation's own key (i.e. a capacity eviction) must be excluded for unexpired lock entries; (R3) acquisition is atomic: the in-memory Lock takes ownership only through loadOrStore / compareAndSwap on an expired entry / re-entry on equal LockID, never through a plain store, and the Redis Lock acquires with SETNX carrying the TTL and grants ownership only on SETNX success or stored value == LockID; IsLocked requires stored owner == LockID and an unexpired entry.",
		DoesNotCover: "Interleavings are not explored; Redis server semantics (SETNX atomicity, TTL) are assumed.",
	}, runC28)
}

func runC28(c *Ctx) {
	w := c.W
	lockIDKey := w.Field("sop", "LockKey", "LockID")
	r1 := c.Rule("R1", "every Locker.Unlock implementation deletes only under an atomic stored-owner == LockID comparison", 2)
	// implementations: methods named Unlock taking (ctx, []*sop.LockKey)
	var impls []*Func
	for _, f := range w.allDeclared() {
		if f.Obj == nil || f.Obj.Name() != "Unlock" {
			continue
		}
		sig := f.Obj.Type().(*types.Signature)
		if sig.Recv() == nil || sig.Params().Len() != 2 || !strings.Contains(sig.Params().At(1).Type().String(), "LockKey") {
			continue
		}
		impls = append(impls, f)
	}
	sort.Slice(impls, func(i, j int) bool { return impls[i].Key < impls[j].Key })
	for _, f := range impls {
		g := w.G(f)
		c.Analysed(f)
		info := f.Pkg.TypesInfo
		// delete sites: calls that remove entries
		isDelete := func(n *GNode) bool {
			for _, cs := range n.Calls {
				k := cs.Key
				if strings.HasSuffix(k, ".compareAndDelete") || strings.HasSuffix(k, ".delete") || strings.HasSuffix(k, ".Delete") || strings.HasSuffix(k, ".Del") || k == "builtin.delete" || strings.HasSuffix(k, ".Remove") {
					return true
				}
			}
			return false
		}
		dels := g.Find(isDelete)
		if len(dels) == 0 {
			// may delegate to another Unlock
			deleg := false
			for _, cs := range w.Sites(f) {
				if strings.HasSuffix(cs.Key, ".Unlock") {
					deleg = true
				}
			}
			if deleg {
				c.Held(r1, f.Key+": delegates to another Locker", f.Decl.Pos(), "delegation")
				continue
			}
			c.Violated(r1, f.Key+": releases through a recognisable delete", f.Decl.Pos(), "no delete call found", nil)
			continue
		}
		ownerCmp := g.condNodes(func(e ast.Expr) bool {
			be, ok := e.(*ast.BinaryExpr)
			return ok && (be.Op == token.EQL || be.Op == token.NEQ) && mentionsObj(info, be, lockIDKey)
		})
		atomic := true
		for _, d := range dels {
			for _, cs := range d.Calls {
				if isDeleteKey(cs.Key) && !strings.HasSuffix(cs.Key, ".compareAndDelete") {
					atomic = false
				}
			}
		}
		guarded := len(ownerCmp) > 0
		if guarded {
			cut := func(from *GNode, e Edge) bool {
				for _, oc := range ownerCmp {
					if from == oc {
						op := oc.Ast.(*ast.BinaryExpr).Op
						if (op == token.EQL && e.Cond == 1) || (op == token.NEQ && e.Cond == 2) {
							return true
						}
					}
				}
				return false
			}
			guarded = len(g.ReachableWithout(cut, isDelete)) == 0
		}
		c.Check(guarded && atomic, r1, f.Key+": owner-checked atomic release", f.Decl.Pos(), "delete only under stored owner == LockID, with compare-and-delete",
			"the lock entry is deleted by key without comparing the stored owner with the caller's LockID atomically (only a local flag is consulted): after the TTL expired and another owner acquired the key, the old owner's Unlock frees the new holder's lock", nil)
	}
	c.Check(len(impls) >= 2, r1, "Unlock implementations found", token.NoPos, fmt.Sprintf("%d", len(impls)), "fewer than two Locker.Unlock implementations in scope", nil)

	r2 := c.Rule("R2", "the sharded map behind `locks` never evicts an unexpired lock entry", 1)
	{
		locksFld := w.Field("cache", "L2InMemoryCache", "locks")
		// methods invoked on c.locks
		used := map[string]bool{}
		for _, f := range w.declaredFuncs("cache") {
			ast.Inspect(f.Body, func(n ast.Node) bool {
				call, ok := n.(*ast.CallExpr)
				if !ok {
					return true
				}
				sel, ok := call.Fun.(*ast.SelectorExpr)
				if ok && fieldOfSelector(f.Pkg.TypesInfo, sel.X) == locksFld {
					used[w.resolveCall(f, call).Key] = true
				}
				return true
			})
		}
		var keys []string
		for k := range used {
			keys = append(keys, k)
		}
		sort.Strings(keys)
		for _, k := range keys {
			f := w.FnOpt(k)
			if f == nil {
				continue
			}
			g := w.G(f)
			info := f.Pkg.TypesInfo
			sig := f.Obj.Type().(*types.Signature)
			keyP := types.Object(sig.Params().At(0))
			n := 0
			// a liveness guard is a branch condition that compares an expiration with the clock,
			// directly or through a helper declared in package cache whose body does
			clockCmp := func(fn *Func, e ast.Node) bool {
				return w.mentionsCall(fn, e, "time.Now") && w.mentionsCall(fn, e, "time.Time.After", "time.Time.Before")
			}
			guard := g.condNodes(func(e ast.Expr) bool {
				if clockCmp(f, e) {
					return true
				}
				hit := false
				ast.Inspect(e, func(x ast.Node) bool {
					if call, ok := x.(*ast.CallExpr); ok {
						if cf := w.CalleeFunc(w.resolveCall(f, call)); cf != nil && cf.Pkg == f.Pkg && clockCmp(cf, cf.Body) {
							hit = true
						}
					}
					return true
				})
				return hit
			})
			// guardedInLoop: node s lies in a range loop and every path from the loop head to s passes a
			// liveness guard one of whose edges cannot reach s within the same iteration (the guard decides)
			guardedInLoop := func(sn *GNode) bool {
				h := enclosingRangeHead(g, sn)
				if h == nil || len(guard) == 0 {
					return false
				}
				// entering a type-switch case for types other than lockItem proves the entry is no lock
				nonLockCase := func(x *GNode) bool {
					if x.Block == nil || x.Block.Kind != cfg.KindSwitchCaseBody {
						return false
					}
					cl, ok := x.Block.Stmt.(*ast.CaseClause)
					if !ok || len(cl.List) == 0 {
						return false
					}
					for _, te := range cl.List {
						tv, ok := info.Types[te]
						if !ok || !tv.IsType() || typeBaseName(tv.Type) == "lockItem" {
							return false
						}
					}
					return true
				}
				// `li, isLock := v.(lockItem)`: the false edge of a test of isLock proves the same
				notLockEdge := func(from *GNode, e Edge) bool {
					id, ok := from.Ast.(*ast.Ident)
					if !ok || !from.IsCond || e.Cond != 2 {
						return false
					}
					okVar, _ := info.Uses[id].(*types.Var)
					if okVar == nil {
						return false
					}
					found := false
					ast.Inspect(f.Body, func(x ast.Node) bool {
						as, isAs := x.(*ast.AssignStmt)
						if !isAs || len(as.Lhs) != 2 || len(as.Rhs) != 1 {
							return true
						}
						ta, isTA := ast.Unparen(as.Rhs[0]).(*ast.TypeAssertExpr)
						l1, isID := as.Lhs[1].(*ast.Ident)
						if isTA && isID && ta.Type != nil && info.Defs[l1] == types.Object(okVar) {
							if tv, ok := info.Types[ta.Type]; ok && typeBaseName(tv.Type) == "lockItem" {
								found = true
							}
						}
						return true
					})
					return found
				}
				if g.Reach(bodyStarts(h), or(nodeSet(guard), nonLockCase), notLockEdge).Seen[sn.ID] {
					return false
				}
				stopAtHead := func(x *GNode) bool { return x == h }
				for _, gd := range guard {
					if !g.Reach([]int{gd.ID}, stopAtHead, nil).Seen[sn.ID] {
						continue // this guard is not on a path to s within the iteration
					}
					decisive := false
					for _, e := range gd.Succs {
						if !g.Reach([]int{e.To}, stopAtHead, nil).Seen[sn.ID] {
							decisive = true
						}
					}
					if !decisive {
						return false
					}
				}
				return true
			}
			for _, nd := range g.Nodes {
				for _, cs := range nd.Calls {
					if cs.Key != "builtin.delete" || len(cs.Call.Args) != 2 {
						continue
					}
					id, isID := ast.Unparen(cs.Call.Args[1]).(*ast.Ident)
					if isID && info.Uses[id] == keyP {
						continue // deleting the operation's own key
					}
					n++
					c.Analysed(f)
					victim := types.ExprString(cs.Call.Args[1])
					ok := false
					if isID {
						if v, _ := info.Uses[id].(*types.Var); v != nil {
							// either the victim is the key of the range loop the delete sits in (guard inside
							// that loop), or a local that is assigned from such a key only under the guard
							var srcs []*GNode
							for _, x := range g.Nodes {
								if x != nd && g.assigns(x, v) && enclosingRangeHead(g, x) != nil {
									srcs = append(srcs, x)
								}
							}
							if len(srcs) == 0 {
								ok = guardedInLoop(nd)
							} else {
								ok = true
								for _, sn := range srcs {
									if !guardedInLoop(sn) {
										ok = false
									}
								}
							}
						}
					}
					c.Check(ok, r2, fmt.Sprintf("%s: eviction #%d spares live lock entries", shortKey(k), n), cs.Call.Pos(), "the victim is chosen only among entries whose expiry was checked against the clock",
						"when a shard is at capacity the map evicts a sampled entry ("+victim+") without checking that it has expired; the lock table shares this map, so a held, unexpired lock can be evicted and the same key acquired by another owner", nil)
				}
			}
		}
		c.Check(used["cache.shardedMap.loadOrStore"], r2, "locks are acquired through loadOrStore", token.NoPos, "loadOrStore used on the lock table", "lock table no longer uses loadOrStore", nil)
	}

	r3 := c.Rule("R3", "atomic acquisition and honest IsLocked in both lock services", 6)
	{
		f := w.Fn("cache.L2InMemoryCache.Lock")
		g := w.G(f)
		c.Analysed(f)
		info := f.Pkg.TypesInfo
		plain := g.Find(calls("cache.shardedMap.store"))
		c.Check(len(plain) == 0, r3, "in-memory Lock: no plain store on the lock table", f.Decl.Pos(), "only loadOrStore / compareAndSwap", "Lock writes the lock table with a non-atomic store", nil)
		// IsLockOwner = true only after (a) !loaded, (b) CAS success on expired, (c) lockID equality
		own := func(n *GNode) bool {
			as, ok := n.Ast.(*ast.AssignStmt)
			if !ok || len(as.Lhs) != 1 || len(as.Rhs) != 1 || !isBoolLit(info, as.Rhs[0], true) {
				return false
			}
			fl := fieldOfSelector(info, as.Lhs[0])
			return fl != nil && fl.Name() == "IsLockOwner"
		}
		ls := g.callNodes("cache.shardedMap.loadOrStore")
		okAcq := false
		if len(ls) == 1 {
			loaded := g.lhsVarOfCall(ls[0].n, ls[0].cs, 1)
			loadedC := g.condNodes(func(e ast.Expr) bool { id, ok := e.(*ast.Ident); return ok && info.Uses[id] == loaded })
			cas := g.condNodes(func(e ast.Expr) bool { return w.mentionsCall(f, e, "cache.shardedMap.compareAndSwap") })
			expired := g.condNodes(func(e ast.Expr) bool { return w.mentionsCall(f, e, "time.Time.After") })
			same := g.condNodes(func(e ast.Expr) bool {
				be, ok := e.(*ast.BinaryExpr)
				return ok && be.Op == token.EQL && mentionsObj(info, be, lockIDKey)
			})
			cut := func(from *GNode, e Edge) bool {
				return edgeCut(loadedC, 2)(from, e) || edgeCut(cas, 1)(from, e) || edgeCut(same, 1)(from, e)
			}
			okAcq = len(loadedC) == 1 && len(cas) == 1 && len(same) >= 1 && len(expired) == 1 && len(g.ReachableWithout(cut, own)) == 0
			// CAS only on the expired edge
			if okAcq {
				okAcq = len(g.notOnlyVia(expired, 1, nodeSet(cas))) == 0
			}
			// re-entry on an equal LockID only while the entry has NOT expired: an expired entry must be
			// re-acquired through the CAS (fresh TTL), otherwise the caller is told it owns a key whose
			// table entry anyone may take over
			if okAcq {
				cut2 := func(from *GNode, e Edge) bool {
					return edgeCut(loadedC, 2)(from, e) || edgeCut(cas, 1)(from, e) || edgeCut(expired, 2)(from, e)
				}
				okAcq = len(g.ReachableWithout(cut2, own)) == 0
			}
		}
		c.Check(okAcq, r3, "in-memory Lock: ownership only via loadOrStore miss, CAS on an expired entry, or equal LockID on an unexpired entry", f.Decl.Pos(), "three justified ownership paths", "IsLockOwner can be set on a path that did not atomically acquire the key", nil)
		// failure returns false
		fi := w.Fn("cache.L2InMemoryCache.IsLocked")
		gi := w.G(fi)
		c.Analysed(fi)
		ii := fi.Pkg.TypesInfo
		trueRet := func(n *GNode) bool {
			return n.Ret != nil && len(n.Ret.Results) == 2 && isBoolLit(ii, n.Ret.Results[0], true)
		}
		neq := gi.condNodes(func(e ast.Expr) bool {
			be, ok := e.(*ast.BinaryExpr)
			return ok && be.Op == token.NEQ && mentionsObj(ii, be, lockIDKey)
		})
		exp := gi.condNodes(func(e ast.Expr) bool { return w.mentionsCall(fi, e, "time.Time.After") })
		head := (*GNode)(nil)
		for _, n := range gi.Nodes {
			if n.RangeHead != nil {
				head = n
			}
		}
		okIs := len(neq) == 1 && len(exp) == 1 && head != nil
		if okIs {
			// every iteration evaluates both tests before going to the next key
			okIs = len(gi.MustFollowFrom(bodyStarts(head), nodeSet(neq), func(n *GNode) bool { return n == head })) == 0 &&
				len(gi.MustFollowFrom(bodyStarts(head), nodeSet(exp), func(n *GNode) bool { return n == head })) == 0 &&
				len(gi.MustPrecede(func(n *GNode) bool { return n == head }, trueRet)) == 0
			// mismatch/expired edges return false
			for _, cn := range [][]*GNode{neq, exp} {
				r := gi.Reach(branchStarts(cn, 1), isReturn, nil)
				for _, x := range gi.Nodes {
					if r.Seen[x.ID] && (x == head || trueRet(x)) {
						okIs = false
					}
				}
			}
		}
		c.Check(okIs, r3, "in-memory IsLocked: every key is held by the caller and unexpired", fi.Decl.Pos(), "owner and expiry tested per key", "IsLocked can report true for a key held by another owner or expired", nil)
	}
	{
		f := w.Fn("adapters/redis.client.Lock")
		g := w.G(f)
		c.Analysed(f)
		info := f.Pkg.TypesInfo
		var setnx []*CallSite
		for _, cs := range w.Sites(f) {
			if strings.HasSuffix(cs.Key, ".SetNX") {
				setnx = append(setnx, cs)
			}
		}
		okTTL := len(setnx) == 1 && len(setnx[0].Call.Args) == 4
		if okTTL {
			sig := f.Obj.Type().(*types.Signature)
			okTTL = mentionsObj(info, setnx[0].Call.Args[3], sig.Params().At(1)) && mentionsObj(info, setnx[0].Call.Args[2], lockIDKey)
		}
		c.Check(okTTL, r3, "redis Lock: SETNX with the caller's LockID and TTL", f.Decl.Pos(), "SetNX(ctx, key, LockID, duration)", "lock is not acquired with SETNX carrying the LockID and the TTL", nil)
		own := func(n *GNode) bool {
			as, ok := n.Ast.(*ast.AssignStmt)
			if !ok || len(as.Lhs) != 1 || len(as.Rhs) != 1 || !isBoolLit(info, as.Rhs[0], true) {
				return false
			}
			fl := fieldOfSelector(info, as.Lhs[0])
			return fl != nil && fl.Name() == "IsLockOwner"
		}
		same := g.condNodes(func(e ast.Expr) bool {
			be, ok := e.(*ast.BinaryExpr)
			return ok && be.Op == token.EQL && mentionsObj(info, be, lockIDKey)
		})
		var setVar types.Object
		for _, n := range g.Nodes {
			for _, cs := range n.Calls {
				if strings.HasSuffix(cs.Key, "BoolCmd.Result") {
					if v := g.lhsVarOfCall(n, cs, 0); v != nil {
						setVar = v
					}
				}
			}
		}
		setC := g.condNodes(func(e ast.Expr) bool { id, ok := e.(*ast.Ident); return ok && setVar != nil && info.Uses[id] == setVar })
		cut := func(from *GNode, e Edge) bool { return edgeCut(same, 1)(from, e) || edgeCut(setC, 1)(from, e) }
		c.Check(len(same) == 1 && len(setC) == 1 && len(g.Find(own)) == 2 && len(g.ReachableWithout(cut, own)) == 0, r3, "redis Lock: ownership only on SETNX success or stored value == LockID", f.Decl.Pos(), "two justified ownership paths", "IsLockOwner can be set without SETNX success or owner equality", nil)
		// a foreign owner => false
		r := g.Reach(branchStarts(same, 2), isReturn, nil)
		okF := len(same) == 1
		for _, x := range g.Nodes {
			if r.Seen[x.ID] && x.Ret != nil && (len(x.Ret.Results) != 3 || !isBoolLit(info, x.Ret.Results[0], false)) {
				okF = false
			}
		}
		c.Check(okF, r3, "redis Lock: a key held by another owner fails the acquisition", f.Decl.Pos(), "returns false", "Lock can succeed although a key is held by another owner", nil)
		fi := w.Fn("adapters/redis.client.IsLocked")
		okI := false
		ast.Inspect(fi.Body, func(n ast.Node) bool {
			if be, ok := n.(*ast.BinaryExpr); ok && (be.Op == token.NEQ || be.Op == token.EQL) && mentionsObj(fi.Pkg.TypesInfo, be, lockIDKey) {
				okI = true
			}
			return true
		})
		c.Analysed(fi)
		c.Check(okI, r3, "redis IsLocked: compares the stored value with the caller's LockID", fi.Decl.Pos(), "owner comparison present", "IsLocked no longer compares the stored owner", nil)
	}
}

func isDeleteKey(k string) bool {
	return strings.HasSuffix(k, ".compareAndDelete") || strings.HasSuffix(k, ".delete") || strings.HasSuffix(k, ".Delete") || strings.HasSuffix(k, ".Del") || k == "builtin.delete" || strings.HasSuffix(k, ".Remove")
}
