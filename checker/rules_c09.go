package main

// C09: work left by a crashed transaction is recovered by later transactions.

import (
	"fmt"
	"go/ast"
	"go/token"
	"go/types"
	"sort"
	"strings"
)

func init() {
	register("C09", propMeta{
		Explanation:  "Decides the reachability of the recovery routines from the public entry point, and that recovery finishes what it starts: (R1) typestate of the maintenance guard: every early-return guard of Transaction.onIdle reads Transaction fields; at each call site of onIdle at least one writer of each such field must be able to have executed, otherwise the guard is constant and everything behind it is dead code. The field writers, the begun-state gates of their callers (`!HasBegun()` -> error) and the gate of the calling function are derived from the code; (R2) call-graph reachability: Transaction.Begin reaches onIdle, which reaches doPriorityRollbacks, processExpiredTransactionLogs and transactionLog.rollback; (R3) recovery removes what it recovered: every exit of transactionLog.rollback for a non-nil transaction id passes TransactionLog.Remove of that id; doPriorityRollbacks and priorityRollback remove the priority log only after the registry write of the pre-images succeeded (shared with C08.R3), and the pre-images were logged before the flip (shared with C08.R2); (R4) the log replay undoes every persistent commit step in every last-logged state in which the live rollback undoes it (undo table shared with C07.R1); (R5) the log reader imposes no record-size limit that the writer does not have. (R6) the count delta survives the log encoding (shared with C06.R7); (R7) in onIdle the priority rollbacks run before the expired transaction logs are replayed. (R8) = C06.R8. (R9) fs.registryOnDisk.Update, the registry write the log replay uses, refreshes the L2 and L1 handle caches after every successful disk write and evicts them after a failed one, without any condition on the payload (shared with C20.R2): otherwise the deleted mark a crashed writer staged stays cached and keeps blocking later writers although the file is clean.",
		DoesNotCover: "Ages and timers (5 minutes / 1 hour) are runtime quantities and are not decided; nor is the content of what recovery restores beyond C08's ordering rules.",
	}, runC09)
}

// hasBegunGate reports whether f rejects transactions that have not begun (`if !t.HasBegun() { return ...err }`)
// before doing anything else that matters: a cond node calling HasBegun whose not-begun edge reaches only returns.
func hasBegunGate(w *World, f *Func, wantBegun bool) bool {
	g := w.G(f)
	conds := g.condNodes(func(e ast.Expr) bool {
		return w.mentionsCall(f, e, "common.Transaction.HasBegun", "sop.Transaction.HasBegun", "sop.TwoPhaseCommitTransaction.HasBegun")
	})
	for _, cn := range conds {
		// leaf is the call itself (the `!` was expanded): true edge = begun
		rejectEdge := 2
		if !wantBegun {
			rejectEdge = 1
		}
		r := g.Reach(branchStarts([]*GNode{cn}, rejectEdge), isReturn, nil)
		onlyReturns := true
		for _, x := range g.Nodes {
			if r.Seen[x.ID] && len(x.Calls) > 0 && x.Ret == nil {
				for _, cs := range x.Calls {
					if !strings.HasPrefix(cs.Key, "fmt.") && !strings.HasPrefix(cs.Key, "log") && !strings.HasPrefix(cs.Key, "errors.") {
						onlyReturns = false
					}
				}
			}
		}
		if onlyReturns && len(g.MustPrecede(func(n *GNode) bool { return n == cn }, func(n *GNode) bool {
			for _, cs := range n.Calls {
				if strings.HasPrefix(cs.Key, "common.") && cs.Key != "common.Transaction.HasBegun" && !n.IsCond {
					return true
				}
			}
			return false
		})) == 0 {
			return true
		}
	}
	return false
}

func runC09(c *Ctx) {
	w := c.W
	r1 := c.Rule("R1", "the early-return guard of onIdle is satisfiable at every call site (some writer of each field it reads can have run before the call)", 2)
	fo := w.Fn("common.Transaction.onIdle")
	go_ := w.G(fo)
	c.Analysed(fo)
	infoO := fo.Pkg.TypesInfo
	maint := []string{"common.Transaction.processNewerPriorityLogsLocksResurrection", "common.Transaction.processPriorityRollbackOnRestart", "common.Transaction.processScheduledPriorityRollback", "common.Transaction.processExpiredLogs"}
	isMaint := calls(maint...)
	nm := len(go_.Find(isMaint))
	c.Check(nm >= 3, r1, "onIdle: maintenance calls present", fo.Decl.Pos(), fmt.Sprintf("%d", nm), fmt.Sprintf("found %d maintenance calls", nm), nil)
	// guards: cond nodes before the first maintenance call one of whose edges returns without any maintenance call
	pre := go_.Reach([]int{go_.Entry}, isMaint, nil)
	type guard struct {
		n      *GNode
		fields []*types.Var
	}
	var guards []guard
	for _, n := range go_.Nodes {
		if !pre.Seen[n.ID] || !n.IsCond || n.Ast == nil {
			continue
		}
		skips := false
		for _, e := range n.Succs {
			r := go_.Reach([]int{e.To}, nil, nil)
			any := false
			for _, x := range go_.Find(isMaint) {
				if r.Seen[x.ID] {
					any = true
				}
			}
			if !any {
				skips = true
			}
		}
		if !skips {
			continue
		}
		var flds []*types.Var
		ast.Inspect(n.Ast, func(x ast.Node) bool {
			if sel, ok := x.(*ast.SelectorExpr); ok {
				if fv := fieldOfSelector(infoO, sel); fv != nil && fv.Pkg() != nil && shortPkgPath(fv.Pkg().Path()) == "common" {
					flds = append(flds, fv)
				}
			}
			return true
		})
		guards = append(guards, guard{n, flds})
	}
	// call sites of onIdle
	var callers []*Func
	for _, f := range w.declaredFuncs("common") {
		for _, cs := range w.AllSites(f) {
			if cs.Key == fo.Key {
				callers = append(callers, f)
			}
		}
	}
	c.Check(len(callers) >= 1, r1, "onIdle: has a production call site", fo.Decl.Pos(), fmt.Sprintf("%d", len(callers)), "onIdle is never called", nil)
	// constructor initialisation: composite literals of Transaction that set the field
	setByCtor := func(fld *types.Var) bool {
		hit := false
		for _, f := range w.declaredFuncs("common") {
			ast.Inspect(f.Body, func(x ast.Node) bool {
				cl, ok := x.(*ast.CompositeLit)
				if !ok {
					return true
				}
				for _, el := range cl.Elts {
					if kv, ok := el.(*ast.KeyValueExpr); ok {
						if id, ok := kv.Key.(*ast.Ident); ok && originOf(f.Pkg.TypesInfo.Uses[id]) == types.Object(fld) {
							hit = true
						}
					}
				}
				return true
			})
		}
		return hit
	}
	for _, gd := range guards {
		for _, fld := range gd.fields {
			// writers of the field
			var writers []*Func
			for _, f := range w.declaredFuncs("common") {
				if len(w.writesOf(f, fld, true)) > 0 {
					writers = append(writers, f)
				}
			}
			sort.Slice(writers, func(i, j int) bool { return writers[i].Key < writers[j].Key })
			for _, caller := range callers {
				construct := fmt.Sprintf("onIdle guard on %s is satisfiable at its call site in %s", fld.Name(), shortKey(caller.Key))
				if setByCtor(fld) {
					c.Held(r1, construct, gd.n.Ast.Pos(), "the constructor initialises the field")
					continue
				}
				// the caller runs only on transactions that have NOT begun (it is the one that begins them)?
				callerRejectsBegun := hasBegunGate(w, caller, false)
				satisfiable := false
				var why []string
				for _, wf := range writers {
					if wf == caller {
						// the caller writes the field itself before the call
						gcl := w.G(caller)
						if len(gcl.MustPrecede(func(n *GNode) bool { return gcl.assignsObj(n, fld) }, calls(fo.Key))) == 0 {
							satisfiable = true
						}
						continue
					}
					// exported entry points through which the writer is reached, and whether each requires a begun transaction
					entries := entryPointsOf(w, wf)
					allNeedBegun := len(entries) > 0
					for _, ep := range entries {
						if !hasBegunGate(w, ep, true) {
							allNeedBegun = false
						}
					}
					why = append(why, fmt.Sprintf("%s (reached from %v, all requiring HasBegun: %v)", shortKey(wf.Key), shortKeys(funcKeys(entries)), allNeedBegun))
					if !(allNeedBegun && callerRejectsBegun) {
						satisfiable = true
					}
				}
				c.Check(satisfiable, r1, construct, gd.n.Ast.Pos(), "a writer can run before the call",
					fmt.Sprintf("%s is the only call site of onIdle and runs only on a transaction that has not begun (it rejects begun ones), while every writer of Transaction.%s requires a begun transaction: %s. The guard `%s` is therefore always true there and the maintenance behind it (priority-log rollbacks, expired transaction-log rollbacks, lock resurrection) never runs through any exported API", shortKey(caller.Key), fld.Name(), strings.Join(why, "; "), types.ExprString(gd.n.Ast.(ast.Expr))), nil)
			}
		}
	}
	c.Check(len(guards) >= 1, r1, "onIdle: early-return guards inventoried", fo.Decl.Pos(), fmt.Sprintf("%d guard(s)", len(guards)), "no guard found (rule has nothing to decide)", nil)

	r2 := c.Rule("R2", "Begin reaches the recovery routines in the call graph", 4)
	fb := w.Fn(kTxBegin)
	c.Analysed(fb)
	for _, k := range []string{fo.Key, kDoPriorityRBs, "common.transactionLog.processExpiredTransactionLogs", kTLRollback} {
		p := w.ReachPath(fb, keyIn(k))
		c.Check(p != nil, r2, "Begin reaches "+shortKey(k), fb.Decl.Pos(), strings.Join(p, " > "), "recovery routine "+shortKey(k)+" is not reachable from Begin", nil)
	}

	r3 := c.Rule("R3", "recovery removes the logs of what it recovered, and only after restoring", 3)
	{
		f := w.Fn(kTLRollback)
		g := w.G(f)
		c.Analysed(f)
		info := f.Pkg.TypesInfo
		sig := f.Obj.Type().(*types.Signature)
		tid := sig.Params().At(2)
		nilTid := g.condNodes(func(e ast.Expr) bool { return w.mentionsCall(f, e, "sop.UUID.IsNil") && mentionsObj(info, e, tid) })
		rmTid := func(n *GNode) bool {
			for _, cs := range n.Calls {
				if cs.Key == kTLogRemove && len(cs.Call.Args) == 2 && mentionsObj(info, cs.Call.Args[1], tid) {
					return true
				}
			}
			return false
		}
		// exits not via the nil-tid edge must pass Remove(tid)
		cut := func(from *GNode, e Edge) bool {
			for _, cn := range nilTid {
				if from == cn && e.Cond == 1 {
					return true
				}
			}
			return false
		}
		r := g.Reach([]int{g.Entry}, rmTid, cut)
		var offs []Offence
		for _, x := range g.Nodes {
			if r.Seen[x.ID] && x.Ret != nil && !rmTid(x) {
				offs = append(offs, Offence{x, r.Path(x.ID)})
			}
		}
		c.Offences(g, offs, r3, "transactionLog.rollback: every exit removes the dead transaction's log", f.Decl.Pos(), "TransactionLog.Remove(tid) precedes every return (nil tid excepted)", "a dead transaction's log can survive its own replay: it is replayed again on every maintenance pass")
	}
	rulePriorityRestore(c, r3)
	rulePreImagesBeforeFlip(c, r3)

	r5 := c.Rule("R5", "reader/writer agreement on the transaction log: TransactionLog.Add appends records of any size, so the recovery's reader (getLogsDetails) must not impose a record-size limit: it reads with bufio.Reader.ReadBytes/ReadString or a json.Decoder, or gives its bufio.Scanner an explicit Buffer before the first Scan", 2)
	{
		f := w.Fn("fs.TransactionLog.getLogsDetails")
		g := w.G(f)
		c.Analysed(f)
		unlimited := len(g.Find(calls("bufio.Reader.ReadBytes", "bufio.Reader.ReadString", "encoding/json.Decoder.Decode"))) > 0
		scans := g.Find(calls("bufio.Scanner.Scan"))
		okScan := true
		if len(scans) > 0 {
			okScan = len(g.MustPrecede(calls("bufio.Scanner.Buffer"), calls("bufio.Scanner.Scan"))) == 0
		}
		c.Check(unlimited || (len(scans) > 0 && okScan), r5, "getLogsDetails: records are read without a built-in size limit", f.Decl.Pos(), "ReadBytes / ReadString / json.Decoder, or Scanner.Buffer before Scan",
			"the log is read with a default bufio.Scanner (64 KiB token limit) while Add writes records of any size: the log of a transaction that touched about 1,300 nodes in one step makes GetOne fail with `token too long` on every maintenance pass, and being the oldest expired log it blocks the recovery of all younger ones", nil)
		// the writer has no limit either way: one Encode per Add
		fa := w.Fn("fs.TransactionLog.Add")
		c.Analysed(fa)
		c.Check(len(w.G(fa).Find(calls("encoding/json.Encoder.Encode"))) == 1, r5, "TransactionLog.Add: one JSON record per call", fa.Decl.Pos(), "one Encode", "writer changed shape", nil)
	}

	r7 := c.Rule("R7", "recovery steps run in the order they compose: in onIdle the priority rollbacks (which re-apply the handles as they were logged before the flip, staged marks included) run before the expired transaction logs are replayed (which clears those marks and removes the log) - the other order leaves removed-node handles marked deleted for good", 2)
	{
		prio := calls("common.Transaction.processPriorityRollbackOnRestart", "common.Transaction.processScheduledPriorityRollback")
		exp := calls("common.Transaction.processExpiredLogs")
		c.Check(len(go_.Find(prio)) >= 1 && len(go_.Find(exp)) == 1, r7, "onIdle: priority rollback and expired-log steps present", fo.Decl.Pos(), fmt.Sprintf("%d priority rollback call(s), %d expired-log call(s)", len(go_.Find(prio)), len(go_.Find(exp))), "steps missing", nil)
		r := go_.Reach(idsOf(go_.Find(exp)), nil, nil)
		var offs []Offence
		for _, x := range go_.Find(prio) {
			if r.Seen[x.ID] {
				offs = append(offs, Offence{x, r.Path(x.ID)})
			}
		}
		c.Offences(go_, offs, r7, "onIdle: no priority rollback runs after the expired transaction logs were replayed", fo.Decl.Pos(), "priority rollbacks precede processExpiredLogs",
			"a priority rollback can run after the expired-log replay in the same pass: the replay clears the staged deleted marks and removes the transaction log, then the priority rollback re-applies the staged handles and removes the priority log - nothing is left to clear the marks, and every later writer that has to remove one of those nodes fails phase 1")
	}

	r8 := c.Rule("R8", "the window between writing the store counts and logging the next step is covered by recovery (shared with C06.R8)", 2)
	storeCountWindowRule(c, r8)
	r9 := c.Rule("R9", "what recovery repairs on disk it also repairs in the caches: the replay of a dead transaction's log writes handles through fs.registryOnDisk.Update (the locked, per-handle path), which refreshes L2 and L1 after a successful disk write and evicts them after a failed one - unconditionally, the replay's payloads carry no cache duration (shared with C20.R2)", 4)
	registryUpdateRefreshRule(c, r9)

	r6 := c.Rule("R6", "the count delta the replay has to subtract survives the log encoding (shared with C06.R7)", 3)
	replayDeltaRule(c, r6)

	r4 := c.Rule("R4", "undo table: the dead-transaction log replay (transactionLog.rollback) has a `Key == step` block for every persistent commit step, the block calls the step's undo function, and the `lastCommittedFunctionLog OP K` gate of that call admits every last-logged state in which the live rollback undoes the step (shared with C07.R1)", 25)
	commitUndoRules(c, r4, "", "", "", "")
}

func funcKeys(fs []*Func) []string {
	var out []string
	for _, f := range fs {
		out = append(out, f.Key)
	}
	return out
}

// entryPointsOf returns the exported package-level functions / methods of the loaded packages from which f
// is reachable through static calls (including f itself when exported).
func entryPointsOf(w *World, target *Func) []*Func {
	callers := map[*Func][]*Func{}
	for _, f := range w.allDeclared() {
		for _, cs := range w.AllSites(f) {
			if cf := w.CalleeFunc(cs); cf != nil {
				root := cf
				for root.Parent != nil {
					root = root.Parent
				}
				callers[root] = append(callers[root], f)
			}
		}
	}
	seen := map[*Func]bool{target: true}
	queue := []*Func{target}
	var out []*Func
	for len(queue) > 0 {
		f := queue[0]
		queue = queue[1:]
		if f.Obj != nil && f.Obj.Exported() {
			out = append(out, f)
			continue
		}
		for _, p := range callers[f] {
			root := p
			for root.Parent != nil {
				root = root.Parent
			}
			if !seen[root] {
				seen[root] = true
				queue = append(queue, root)
			}
		}
	}
	sort.Slice(out, func(i, j int) bool { return out[i].Key < out[j].Key })
	return out
}

var _ = token.NoPos

func idsOf(ns []*GNode) []int {
	var out []int
	for _, n := range ns {
		out = append(out, n.ID)
	}
	return out
}
