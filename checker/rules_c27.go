package main

// C27: the passive copy stays a faithful replica and can be reinstated (structural part).

import (
	"fmt"
	"go/ast"
	"go/token"
	"go/types"
	"sort"
	"strings"
)

func init() {
	register("C27", propMeta{
		Explanation:  "Decides the discipline of the code that writes the passive side: (R1) passive-writer siblings: every function that writes under formatPassiveFolderEntity or through a tracker copy with the folder toggler inverted (registry Replicate, store-repository Replicate, the fileIO replay `replicate`) must be a no-op when replication is off OR has already failed (`!replicate || FailedToReplicate`), and must call handleFailedToReplicate on every failed passive write, so that one failure turns replication off instead of repeating against a broken drive; (R2) a passive failure never fails a commit: the replication closures of phase2Commit return nil on every path and run only after the commit point; (R3) ReinstateFailedDrives runs its steps in the order the catch-up depends on: start logging commit changes, copy stores and registry segments, fast-forward until no log is left, turn replication on, fast-forward again; (R4) the reinstating copy copies every registry segment file of every store unconditionally: in copyFilesByExtension each directory entry with the extension reaches copyFile or an error return - no entry is skipped on the strength of the target's current state (size, time), which says nothing about a partially replicated commit; and what it copies is read from the active side, i.e. before the folder toggler is flipped towards the passive side. (R5) fastForward replays the commit-change logs oldest first: ByModTime.Less's direction composed with the direction of the replay loop is ascending modification time. (R7) readStatusFromHomeFolder decides the active folder by where the newest status file is: every path from a readReplicationStatus call to the return assigns ActiveFolderToggler from a value saved before the read, so the (pre-flip) toggler that failover stores in the file cannot send a freshly started process back to the failed drive.",
		DoesNotCover: "Equality of the passive copy's contents after arbitrary histories and failover behaviour are runtime matters; what fast-forward applies is not decided.",
	}, runC27)
}

func runC27(c *Ctx) {
	w := c.W
	r1 := c.Rule("R1", "passive writers are no-ops when replication is off or has failed, and mark the failure on every failed passive write", 6)
	{
		hf := "fs.replicationTracker.handleFailedToReplicate"
		repF := w.Field("fs", "replicationTracker", "replicate")
		failF := w.Field("fs", "ReplicationTrackedDetails", "FailedToReplicate")
		// discover the passive writers: functions of package fs that call formatPassiveFolderEntity and a write,
		// or invert ActiveFolderToggler on a copy; the reinstate/copy functions are the catch-up path and are excluded by name
		exempt := map[string]string{
			"fs.StoreRepository.CopyToPassiveFolders":        "reinstatement copy: runs while FailedToReplicate is set, by design",
			"fs.replicationTracker.failover":                 "switches the active folder, not a replica write",
			"fs.replicationTracker.readStatusFromHomeFolder": "reads status files",
		}
		var writers []*Func
		for _, f := range w.declaredFuncs("fs") {
			if _, ex := exempt[f.Key]; ex {
				continue
			}
			usesPassive := false
			writes := false
			for _, cs := range w.AllSites(f) {
				if cs.Key == "fs.replicationTracker.formatPassiveFolderEntity" {
					usesPassive = true
				}
				if strings.HasPrefix(cs.Key, "fs.FileIO.") && (strings.HasSuffix(cs.Key, "WriteFile") || strings.HasSuffix(cs.Key, "MkdirAll") || strings.HasSuffix(cs.Key, "RemoveAll") || strings.HasSuffix(cs.Key, "Remove")) {
					writes = true
				}
			}
			inverts := false
			ast.Inspect(f.Body, func(x ast.Node) bool {
				if as, ok := x.(*ast.AssignStmt); ok && len(as.Lhs) == 1 && len(as.Rhs) == 1 {
					if fv := fieldOfSelector(f.Pkg.TypesInfo, as.Lhs[0]); fv != nil && fv.Name() == "ActiveFolderToggler" {
						if u, isU := ast.Unparen(as.Rhs[0]).(*ast.UnaryExpr); isU && u.Op == token.NOT {
							inverts = true
						}
					}
				}
				return true
			})
			if (usesPassive && writes) || inverts {
				writers = append(writers, f)
			}
		}
		sort.Slice(writers, func(i, j int) bool { return writers[i].Key < writers[j].Key })
		c.Check(len(writers) >= 3, r1, "passive writers inventoried", token.NoPos, fmt.Sprintf("%v", shortKeys(funcKeys(writers))), fmt.Sprintf("only %v found", shortKeys(funcKeys(writers))), nil)
		for _, f := range writers {
			g := w.G(f)
			c.Analysed(f)
			info := f.Pkg.TypesInfo
			// guard: cond nodes on replicate (false edge -> return) and FailedToReplicate (true edge -> return) before any passive write
			passiveWrite := func(n *GNode) bool {
				for _, cs := range n.Calls {
					if strings.HasPrefix(cs.Key, "fs.FileIO.") && (strings.HasSuffix(cs.Key, "WriteFile") || strings.HasSuffix(cs.Key, "MkdirAll") || strings.HasSuffix(cs.Key, "RemoveAll")) {
						return true
					}
					if cs.Key == "fs.registryMap.add" || cs.Key == "fs.registryMap.set" || cs.Key == "fs.registryMap.remove" {
						return true
					}
				}
				return false
			}
			repC := g.condNodes(func(e ast.Expr) bool { return fieldOfSelector(info, e) == repF })
			failC := g.condNodes(func(e ast.Expr) bool { return fieldOfSelector(info, e) == failF })
			cut := func(from *GNode, e Edge) bool { return edgeCut(repC, 1)(from, e) || edgeCut(failC, 2)(from, e) }
			// passive writes reachable only via replicate==true AND FailedToReplicate==false
			okRep := len(repC) >= 1 && len(g.ReachableWithout(edgeCut(repC, 1), passiveWrite)) == 0
			okFail := len(failC) >= 1 && len(g.ReachableWithout(edgeCut(failC, 2), passiveWrite)) == 0
			_ = cut
			c.Check(okRep && okFail, r1, f.Key+": no passive write when replication is off or has already failed", f.Decl.Pos(), "guarded by replicate && !FailedToReplicate",
				fmt.Sprintf("passive writes are attempted although replication is off / already failed (replicate guard: %v, FailedToReplicate guard: %v): after the passive drive failed, every later operation keeps hitting it", okRep, okFail), nil)
			// each failed passive write marks the failure
			n := 0
			okMark := true
			for _, nd := range g.Find(passiveWrite) {
				for _, cs := range nd.Calls {
					fail, _, tested := g.ErrBranches(nd, cs)
					if !tested {
						continue
					}
					n++
					if len(g.MustFollowFrom(fail, calls(hf), isExit)) != 0 {
						okMark = false
					}
				}
			}
			c.Check(okMark && n >= 1, r1, f.Key+": a failed passive write turns replication off", f.Decl.Pos(), fmt.Sprintf("%d tested passive write(s), each failure edge calls handleFailedToReplicate", n),
				"a failed passive write is returned to the caller without marking replication as failed: the error fails an operation whose ACTIVE side already succeeded (store creation/removal), and the next operation writes to the broken passive drive again", nil)
		}
	}

	r2 := c.Rule("R2", "replication closures in phase2Commit cannot fail the commit and run after the commit point", 3)
	{
		f := w.Fn(kTxp2)
		g := w.G(f)
		c.Analysed(f)
		n := 0
		for _, lit := range w.allLits(f) {
			rep := false
			for _, cs := range w.Sites(lit) {
				if strings.HasSuffix(cs.Key, ".Replicate") || strings.HasSuffix(cs.Key, ".LogCommitChanges") {
					rep = true
				}
			}
			if !rep {
				continue
			}
			n++
			gl := w.G(lit)
			ok := true
			for _, x := range gl.Nodes {
				if x.Ret != nil && gl.ClassifyReturn(x) != RetNil {
					ok = false
				}
			}
			c.Check(ok, r2, fmt.Sprintf("phase2Commit: replication closure %s returns nil on every path", lit.Key), lit.Lit.Pos(), "errors are logged, nil returned", "a passive-side error can propagate out of the task runner", nil)
		}
		c.Check(n >= 3, r2, "phase2Commit: replication closures inventoried", f.Decl.Pos(), fmt.Sprintf("%d", n), fmt.Sprintf("only %d found", n), nil)
		// they are spawned only after the commit point
		var cp *GNode
		for _, nc := range g.callNodes(kRegUpdNL) {
			if len(nc.cs.Call.Args) >= 2 && isBoolLit(f.Pkg.TypesInfo, nc.cs.Call.Args[1], true) {
				cp = nc.n
			}
		}
		okAfter := cp != nil
		if okAfter {
			_, _, _ = g.ErrBranches(cp, cp.Calls[len(cp.Calls)-1])
			for _, x := range g.Nodes {
				for _, cs := range x.Calls {
					if strings.HasSuffix(cs.Key, "TaskRunner.Go") && len(cs.Call.Args) == 1 {
						if lit, isLit := ast.Unparen(cs.Call.Args[0]).(*ast.FuncLit); isLit {
							if lf := w.byLit[lit]; lf != nil && w.Reaches(lf, func(y *CallSite) bool { return strings.HasSuffix(y.Key, ".Replicate") }) {
								// must not be reachable from the failure edge of the commit point
								for _, cc := range cp.Calls {
									if cc.Key == kRegUpdNL {
										if fail, _, ok := g.ErrBranches(cp, cc); ok && g.Reach(fail, nil, nil).Seen[x.ID] {
											okAfter = false
										}
									}
								}
							}
						}
					}
				}
			}
		}
		c.Check(okAfter, r2, "phase2Commit: replication starts only after the commit point succeeded", f.Decl.Pos(), "unreachable from the commit point's failure edge", "the passive side can receive a commit that failed on the active side", nil)
	}

	r3 := c.Rule("R3", "ReinstateFailedDrives: log commit changes -> copy -> fast-forward to exhaustion -> turn on -> fast-forward", 4)
	{
		f := w.Fn("fs.replicationTracker.ReinstateFailedDrives")
		g := w.G(f)
		c.Analysed(f)
		seq := []string{"fs.replicationTracker.startLoggingCommitChanges", "fs.replicationTracker.copyStores", "fs.replicationTracker.fastForward", "fs.replicationTracker.turnOnReplication"}
		for i := 0; i+1 < len(seq); i++ {
			offs := g.MustPrecede(calls(seq[i]), calls(seq[i+1]))
			c.Offences(g, offs, r3, "Reinstate: "+shortKey(seq[i])+" precedes "+shortKey(seq[i+1]), f.Decl.Pos(), "ordered", shortKey(seq[i+1])+" can run before "+shortKey(seq[i])+" (commits made meanwhile are missed by the catch-up)")
		}
		ffs := g.callNodes("fs.replicationTracker.fastForward")
		okTwo := len(ffs) == 2
		if okTwo {
			// the second one follows turnOnReplication, and success is returned only from its 'no file found' edge
			on := g.callNodes("fs.replicationTracker.turnOnReplication")
			okTwo = len(on) == 1 && g.Reach(g.after(on[0].n), nil, nil).Seen[ffs[1].n.ID] && !g.Reach(g.after(on[0].n), nil, nil).Seen[ffs[0].n.ID]
			// turnOnReplication is reached only when the first loop found no more files
			okTwo = okTwo && len(g.MustPrecede(func(n *GNode) bool { return n == ffs[0].n }, func(n *GNode) bool { return n == on[0].n })) == 0
			offs := g.MustPrecede(func(n *GNode) bool { return n == ffs[1].n }, func(n *GNode) bool { return n.Ret != nil && g.ClassifyReturn(n) == RetNil })
			okTwo = okTwo && len(offs) == 0
		}
		c.Check(okTwo, r3, "Reinstate: fast-forward runs to exhaustion before and again after replication is turned on", f.Decl.Pos(), "two fast-forward loops around turnOnReplication; success only after the second", "commit logs written while the copy ran (or between the last fast-forward and turning replication on) are never applied to the passive side", nil)
	}

	r4 := c.Rule("R4", "the reinstating copy copies every registry segment unconditionally", 3)
	{
		f := w.Fn("fs.copyFilesByExtension")
		g := w.G(f)
		c.Analysed(f)
		info := f.Pkg.TypesInfo
		var loop *GNode
		for _, n := range g.Nodes {
			if n.RangeHead != nil {
				loop = n
			}
		}
		ext := g.condNodes(func(e ast.Expr) bool { return w.mentionsCall(f, e, "strings.HasSuffix") })
		isDir := g.condNodes(func(e ast.Expr) bool {
			call, ok := e.(*ast.CallExpr)
			return ok && strings.HasSuffix(w.resolveCall(f, call).Key, ".IsDir")
		})
		_ = info
		ok := loop != nil && len(ext) == 1 && len(isDir) <= 1
		if ok {
			// from the "has the extension" edge every path back to the loop head passes copyFile (or returns)
			offs := g.MustFollowFrom(branchStarts(ext, 1), calls("fs.copyFile"), func(n *GNode) bool { return n == loop })
			ok = len(offs) == 0
			// and no condition other than IsDir / the extension test / the error test of copyFile decides inside the loop
			for _, n := range g.Nodes {
				if n.IsCond && n.Ast != nil && n.RangeHead == nil && enclosingRangeHead(g, n) == loop {
					isKnown := false
					for _, k := range append(append([]*GNode{}, ext...), isDir...) {
						if k == n {
							isKnown = true
						}
					}
					if v, _, isNilTest := g.condNilTest(n); isNilTest && v != nil && isErrorType(v.Type()) {
						isKnown = true
					}
					if !isKnown {
						ok = false
					}
				}
			}
		}
		c.Check(ok, r4, "copyFilesByExtension: every file with the extension is copied", f.Decl.Pos(), "extension match -> copyFile, no other skip condition", "a registry segment can be skipped by the reinstating copy (e.g. because the stale passive file 'looks' up to date): handles written to the active side while replication was off never reach the passive side", nil)
		fc := w.Fn("fs.StoreRepository.CopyToPassiveFolders")
		gc := w.G(fc)
		c.Analysed(fc)
		// the loop that copies: the range loop containing the copyFilesByExtension call
		var sl *GNode
		for _, nc := range gc.callNodes("fs.copyFilesByExtension") {
			sl = enclosingRangeHead(gc, nc.n)
		}
		okAll := sl != nil
		if okAll {
			// each store in the list reaches copyFilesByExtension unless it vanished (no info on the ACTIVE side:
			// `len(store) == 0`, or a comma-ok miss in the map of infos read before the flip) or an error is returned
			fi := fc.Pkg.TypesInfo
			skipLen := gc.condNodes(func(e ast.Expr) bool {
				be, isBE := e.(*ast.BinaryExpr)
				return isBE && be.Op == token.EQL && w.mentionsCall(fc, be.X, "builtin.len")
			})
			okVars := map[types.Object]bool{}
			ast.Inspect(fc.Body, func(x ast.Node) bool {
				if as, isAs := x.(*ast.AssignStmt); isAs && len(as.Lhs) == 2 && len(as.Rhs) == 1 {
					if ix, isIx := ast.Unparen(as.Rhs[0]).(*ast.IndexExpr); isIx {
						if _, isMap := fi.Types[ix.X].Type.Underlying().(*types.Map); isMap {
							if id, isID := as.Lhs[1].(*ast.Ident); isID && fi.Defs[id] != nil {
								okVars[fi.Defs[id]] = true
							}
						}
					}
				}
				return true
			})
			skipOk := gc.condNodes(func(e ast.Expr) bool { id, isID := e.(*ast.Ident); return isID && okVars[fi.Uses[id]] })
			cut := func(from *GNode, e Edge) bool { return edgeCut(skipLen, 1)(from, e) || edgeCut(skipOk, 2)(from, e) }
			r := gc.Reach(bodyStarts(sl), calls("fs.copyFilesByExtension"), cut)
			okAll = !r.Seen[sl.ID]
		}
		c.Check(okAll, r4, "CopyToPassiveFolders: the registry segments of every listed store are copied", fc.Decl.Pos(), "every iteration reaches copyFilesByExtension (vanished stores excepted)", "a store's registry segments can be left out of the reinstating copy", nil)
		// what is copied is read from the ACTIVE side: no read of the repository (Get / GetAll / GetWithTTL) while the
		// folder toggler is flipped towards the passive side
		{
			ci := fc.Pkg.TypesInfo
			var flip *GNode
			for _, n := range gc.Nodes {
				if as, isAs := n.Ast.(*ast.AssignStmt); isAs && len(as.Lhs) == 1 && len(as.Rhs) == 1 {
					if fv := fieldOfSelector(ci, as.Lhs[0]); fv != nil && fv.Name() == "ActiveFolderToggler" {
						if u, isU := ast.Unparen(as.Rhs[0]).(*ast.UnaryExpr); isU && u.Op == token.NOT {
							flip = n
						}
					}
				}
			}
			okSrc := flip != nil
			var bad []string
			if okSrc {
				r := gc.Reach(gc.after(flip), nil, nil)
				for _, x := range gc.Nodes {
					if !r.Seen[x.ID] {
						continue
					}
					for _, cs := range x.Calls {
						if cs.Key == "fs.StoreRepository.Get" || cs.Key == "fs.StoreRepository.GetWithTTL" || cs.Key == "fs.StoreRepository.GetAll" || cs.Key == "fs.StoreRepository.getFromCache" {
							okSrc = false
							bad = append(bad, shortKey(cs.Key)+" @"+w.PosStr(cs.Call.Pos()))
						}
					}
				}
			}
			c.Check(okSrc, r4, "CopyToPassiveFolders: store infos are read from the active side (before the folder toggler is flipped)", fc.Decl.Pos(), "no repository read while the toggler points at the passive side",
				fmt.Sprintf("the repository is read after the toggler was flipped to the passive side (%v): the store info is looked up on the drive being reinstated, is not found on a replaced/empty drive, and the store's info and registry segments are skipped - the reinstated copy silently lacks stores", bad), nil)
		}
		c.Check(w.Reaches(w.Fn("fs.replicationTracker.copyStores"), keyIn("fs.StoreRepository.CopyToPassiveFolders")), r4, "copyStores reaches CopyToPassiveFolders", token.NoPos, "reachable", "the reinstatement no longer copies the stores", nil)
	}

	r5 := c.Rule("R5", "fastForward replays the commit-change logs oldest first: passive writes overwrite without a version check, so the newest log must be applied last; the order is the listing helper's sort direction composed with the direction of the replay loop", 3)
	{
		// direction of the sort: ByModTime.Less
		fl := w.Fn("fs.ByModTime.Less")
		c.Analysed(fl)
		linfo := fl.Pkg.TypesInfo
		sig := fl.Obj.Type().(*types.Signature)
		pi, pj := sig.Params().At(0), sig.Params().At(1)
		dir := 0 // +1 ascending (oldest first), -1 descending
		if len(fl.Body.List) == 1 {
			if rs, ok := fl.Body.List[0].(*ast.ReturnStmt); ok && len(rs.Results) == 1 {
				if call, ok := ast.Unparen(rs.Results[0]).(*ast.CallExpr); ok && len(call.Args) == 1 {
					if sel, ok := ast.Unparen(call.Fun).(*ast.SelectorExpr); ok {
						recvI, recvJ := mentionsObj(linfo, sel.X, pi), mentionsObj(linfo, sel.X, pj)
						argI, argJ := mentionsObj(linfo, call.Args[0], pi), mentionsObj(linfo, call.Args[0], pj)
						switch {
						case sel.Sel.Name == "Before" && recvI && argJ && !recvJ && !argI, sel.Sel.Name == "After" && recvJ && argI && !recvI && !argJ:
							dir = 1
						case sel.Sel.Name == "After" && recvI && argJ && !recvJ && !argI, sel.Sel.Name == "Before" && recvJ && argI && !recvI && !argJ:
							dir = -1
						}
					}
				}
			}
		}
		c.Check(dir != 0, r5, "ByModTime.Less: sort direction recognised", fl.Decl.Pos(), map[int]string{1: "ascending modification time", -1: "descending modification time", 0: ""}[dir], "Less is not a single Before/After comparison of the two elements' ModTime", nil)
		// the helper sorts with sort.Sort(ByModTime(...)), possibly reversed
		fh := w.Fn("fs.getFilesSortedDescByModifiedTime")
		c.Analysed(fh)
		sorted := 0
		for _, cs := range w.Sites(fh) {
			if cs.Key == "sort.Sort" && len(cs.Call.Args) == 1 {
				sorted++
				if w.mentionsCall(fh, cs.Call.Args[0], "sort.Reverse") {
					dir = -dir
				}
			}
		}
		c.Check(sorted == 1, r5, "listing helper sorts once with ByModTime", fh.Decl.Pos(), "one sort.Sort call", fmt.Sprintf("found %d sort.Sort calls", sorted), nil)
		// direction of the replay loop in fastForward: the loop whose body reads files[i] / the range value
		ff := w.Fn("fs.replicationTracker.fastForward")
		c.Analysed(ff)
		finfo := ff.Pkg.TypesInfo
		var files types.Object
		gff := w.G(ff)
		for _, nc := range gff.callNodes("fs.getFilesSortedDescByModifiedTime") {
			if v := gff.lhsVarOfCall(nc.n, nc.cs, 0); v != nil {
				files = v
			}
		}
		loopDir := 0
		var loopPos token.Pos
		if files != nil {
			ast.Inspect(ff.Body, func(x ast.Node) bool {
				switch lp := x.(type) {
				case *ast.RangeStmt:
					if mentionsObj(finfo, lp.X, files) && loopDir == 0 {
						loopDir, loopPos = 1, lp.Pos()
					}
				case *ast.ForStmt:
					uses := false
					ast.Inspect(lp.Body, func(y ast.Node) bool {
						if ix, ok := y.(*ast.IndexExpr); ok && mentionsObj(finfo, ix.X, files) {
							uses = true
						}
						return true
					})
					if uses && loopDir == 0 {
						if inc, ok := lp.Post.(*ast.IncDecStmt); ok {
							loopPos = lp.Pos()
							if inc.Tok == token.INC {
								loopDir = 1
							} else {
								loopDir = -1
							}
						}
					}
				}
				return true
			})
		}
		if loopPos == token.NoPos {
			loopPos = ff.Decl.Pos()
		}
		c.Check(loopDir != 0 && dir*loopDir == 1, r5, "fastForward: commit-change logs are replayed oldest first", loopPos, "sort direction x loop direction = ascending modification time",
			fmt.Sprintf("the logs are replayed newest first (sort direction %+d, loop direction %+d): the passive side ends up with the OLDEST logged commit's handles and store info, replication is reported healthy and a later failover serves the stale state", dir, loopDir), nil)
	}

	r6 := c.Rule("R6", "the replication status is published whenever any of its fields changes: syncWithL2Cache skips the push only when ReplicationTrackedDetails.isEqual says the cached copy equals the global one, so isEqual must compare every field of the struct (LogCommitChanges tells the other processes to log their commits while a drive is reinstated)", 2)
	{
		fe := w.Fn("fs.ReplicationTrackedDetails.isEqual")
		c.Analysed(fe)
		st, _ := w.Object("fs", "ReplicationTrackedDetails").Type().Underlying().(*types.Struct)
		if st == nil {
			panic(undecided{"fs.ReplicationTrackedDetails is not a struct"})
		}
		einfo := fe.Pkg.TypesInfo
		var missing []string
		for i := 0; i < st.NumFields(); i++ {
			fld := st.Field(i)
			// compared: a `==` (or !=) whose two sides both select this field
			found := false
			ast.Inspect(fe.Body, func(x ast.Node) bool {
				be, ok := x.(*ast.BinaryExpr)
				if ok && (be.Op == token.EQL || be.Op == token.NEQ) && fieldOfSelector(einfo, be.X) == fld && fieldOfSelector(einfo, be.Y) == fld {
					found = true
				}
				// whole-struct comparison `a == b`
				if ok && (be.Op == token.EQL || be.Op == token.NEQ) {
					if tx := einfo.TypeOf(be.X); tx != nil && types.Identical(tx.Underlying(), st) {
						found = true
					}
				}
				return true
			})
			if !found {
				missing = append(missing, fld.Name())
			}
		}
		c.Check(len(missing) == 0, r6, "ReplicationTrackedDetails.isEqual compares every field", fe.Decl.Pos(), fmt.Sprintf("%d fields compared", st.NumFields()),
			fmt.Sprintf("isEqual ignores %v: a status that differs only there is treated as already published, so startLoggingCommitChanges' push is skipped, the other processes never see LogCommitChanges=true and the commits they make while the passive drive is copied are missing from the reinstated copy", missing), nil)
		fs2 := w.Fn("fs.replicationTracker.syncWithL2Cache")
		c.Analysed(fs2)
		c.Check(w.Reaches(fs2, keyIn("fs.ReplicationTrackedDetails.isEqual")), r6, "syncWithL2Cache decides the push with isEqual", fs2.Decl.Pos(), "calls isEqual", "syncWithL2Cache no longer uses isEqual (rule has nothing to decide)", nil)
	}

	r7 := c.Rule("R7", "a process started after a failover uses the folder failed over to: readStatusFromHomeFolder decides the active folder by WHERE the (newest) status file is and never lets the toggler value stored in the file override that - failover writes the file before it flips the toggler - so every path from a readReplicationStatus call to the return assigns ActiveFolderToggler from a value saved before the read", 2)
	{
		fr := w.Fn("fs.replicationTracker.readStatusFromHomeFolder")
		g := w.G(fr)
		c.Analysed(fr)
		info := fr.Pkg.TypesInfo
		tog := w.Field("fs", "ReplicationTrackedDetails", "ActiveFolderToggler")
		reads := g.callNodes("fs.replicationTracker.readReplicationStatus")
		c.Check(len(reads) >= 2, r7, "readStatusFromHomeFolder: status reads inventoried", fr.Decl.Pos(), fmt.Sprintf("%d reads", len(reads)), fmt.Sprintf("%d readReplicationStatus calls (2 known: passive-only and newest-file)", len(reads)), nil)
		// an assignment of the toggler whose right-hand side does not read the (just overwritten) field
		override := func(n *GNode) bool {
			as, ok := n.Ast.(*ast.AssignStmt)
			if !ok || len(as.Lhs) != len(as.Rhs) {
				return false
			}
			for i, l := range as.Lhs {
				if fieldOfSelector(info, l) != tog {
					continue
				}
				mentions := false
				ast.Inspect(as.Rhs[i], func(x ast.Node) bool {
					if e, ok := x.(ast.Expr); ok && fieldOfSelector(info, e) == tog {
						mentions = true
					}
					return true
				})
				if !mentions {
					return true
				}
			}
			return false
		}
		for _, rd := range reads {
			offs := g.MustFollow([]*GNode{rd.n}, override, func(n *GNode) bool { return n.Exit })
			c.Offences(g, offs, r7, fmt.Sprintf("readStatusFromHomeFolder: readReplicationStatus #%d is followed by the location-decided toggler", ordinalOf(w, fr, rd.cs)), rd.n.Ast.Pos(), "toggler restored from the value chosen by location",
				"the toggler stored in the status file survives the read: failover() writes replstat.txt into the passive folder BEFORE it flips ActiveFolderToggler, so the file in the newly active folder names the failed folder - a process started after the failover (cold L2 cache) comes up on the drive that failed and does not see the commits made since")
		}
	}
}
