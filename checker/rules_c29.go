package main

import (
	"fmt"
	"go/ast"
	"go/constant"
	"go/token"
	"go/types"
	"sort"
	"strings"
)

func init() {
	register("C29", propMeta{
		Explanation:  "Every type-switch case of btree.Compare and every closure returned by btree.CoerceComparer is reduced to its shape and checked: both operands are asserted to the case's own type (first parameter -> x, second -> y); scalar cases return exactly one whitelisted total order applied to (x, y) in that argument order (cmp.Compare, bytes.Compare on the full byte ranges, sop.UUID.Compare = bytes.Compare, time.Time.Compare); slice cases have the lexicographic shape (element comparison, by a whitelisted order or the recursive Compare, over indexes below min(len x, len y), first non-zero result returned, then cmp.Compare(len x, len y)). The order axioms (reflexive, antisymmetric, transitive, consistent with the natural order) follow because each whitelisted function is a total order on its type (cmp.Compare orders NaN below all numbers and treats NaN==NaN, -0==+0) and total orders are closed under lexicographic product; that argument is fixed, the instances are re-checked on every run. (R2) the case sets of Compare, CoerceComparer and IsPrimitive coincide (except []any, which IsPrimitive omits). (R3) nil operands: following the fallback comparison's nil tests with both operands nil reaches only `return 0` among constant returns, and with exactly one operand nil the two argument orders return opposite signs.",
		DoesNotCover: "Operands of different dynamic types (excluded by the property), user-supplied Comparer implementations, and the default branch's string fallback.",
	}, runC29)
}

type caseShape struct {
	typ      types.Type
	problems []string
	kind     string
}

var scalarOrders = map[string]bool{"cmp.Compare": true, "bytes.Compare": true, "sop.UUID.Compare": true, "time.Time.Compare": true}

// analyseComparerBody checks one case body (statements) against the shapes of DESIGN C29.R1.
func analyseComparerBody(w *World, f *Func, stmts []ast.Stmt, xp, yp types.Object, ct types.Type) caseShape {
	info := f.Pkg.TypesInfo
	sh := caseShape{typ: ct}
	bad := func(format string, a ...any) { sh.problems = append(sh.problems, fmt.Sprintf(format, a...)) }
	var x1, y1 types.Object
	// type assertions
	for _, s := range stmts {
		as, ok := s.(*ast.AssignStmt)
		if !ok || len(as.Rhs) != 1 {
			continue
		}
		ta, ok := ast.Unparen(as.Rhs[0]).(*ast.TypeAssertExpr)
		if !ok {
			continue
		}
		src, _ := ast.Unparen(ta.X).(*ast.Ident)
		tt := info.Types[ta.Type].Type
		if src == nil || tt == nil {
			continue
		}
		if !types.Identical(tt, ct) {
			bad("operand asserted to %s in the case for %s", tt, ct)
		}
		lhs, _ := as.Lhs[0].(*ast.Ident)
		if lhs == nil {
			continue
		}
		switch info.Uses[src] {
		case xp:
			x1 = info.Defs[lhs]
		case yp:
			y1 = info.Defs[lhs]
		}
	}
	if x1 == nil || y1 == nil {
		bad("both operands must be asserted from the function's two parameters")
		return sh
	}
	derives := func(e ast.Expr, o types.Object) bool { return mentionsObj(info, e, o) }
	// resolve simple local definitions: name -> rhs
	defs := map[types.Object][]ast.Expr{}
	var collect func(n ast.Node)
	collect = func(n ast.Node) {
		ast.Inspect(n, func(x ast.Node) bool {
			if as, ok := x.(*ast.AssignStmt); ok && len(as.Lhs) == len(as.Rhs) {
				for i, l := range as.Lhs {
					if id, ok := l.(*ast.Ident); ok {
						o := info.Defs[id]
						if o == nil {
							o = info.Uses[id]
						}
						if o != nil {
							defs[o] = append(defs[o], as.Rhs[i])
						}
					}
				}
			}
			return true
		})
	}
	for _, s := range stmts {
		collect(s)
	}
	isLenOf := func(e ast.Expr, o types.Object) bool {
		// e is len(o) or a variable whose only definition is len(o)
		if call, ok := ast.Unparen(e).(*ast.CallExpr); ok {
			if id, ok := call.Fun.(*ast.Ident); ok && id.Name == "len" && len(call.Args) == 1 {
				if a, ok := ast.Unparen(call.Args[0]).(*ast.Ident); ok && info.Uses[a] == o {
					return true
				}
			}
			return false
		}
		if id, ok := ast.Unparen(e).(*ast.Ident); ok {
			ds := defs[info.Uses[id]]
			if len(ds) == 1 {
				if call, ok := ast.Unparen(ds[0]).(*ast.CallExpr); ok {
					if fid, ok := call.Fun.(*ast.Ident); ok && fid.Name == "len" && len(call.Args) == 1 {
						if a, ok := ast.Unparen(call.Args[0]).(*ast.Ident); ok && info.Uses[a] == o {
							return true
						}
					}
				}
			}
		}
		return false
	}
	orderedCall := func(call *ast.CallExpr, elementwise bool) (string, bool) {
		cs := w.resolveCall(f, call)
		key := cs.Key
		if !scalarOrders[key] && !(elementwise && key == "btree.Compare") {
			return key, false
		}
		var a, b ast.Expr
		if sel, ok := call.Fun.(*ast.SelectorExpr); ok && len(call.Args) == 1 && (key == "sop.UUID.Compare" || key == "time.Time.Compare") {
			a, b = sel.X, call.Args[0]
		} else if len(call.Args) == 2 {
			a, b = call.Args[0], call.Args[1]
		} else {
			return key, false
		}
		if !derives(a, x1) || derives(a, y1) || !derives(b, y1) || derives(b, x1) {
			return key, false
		}
		// the operands must be the asserted values themselves (or an element / the full range of
		// them, or a width-preserving conversion): a projection such as x.UnixNano(), x.String() or
		// x.Unix() is in general neither injective nor monotone, so ordering by it does not agree
		// with the type's natural order
		var plain func(e ast.Expr, o types.Object) bool
		plain = func(e ast.Expr, o types.Object) bool {
			switch x := ast.Unparen(e).(type) {
			case *ast.Ident:
				return info.Uses[x] == o
			case *ast.IndexExpr:
				return plain(x.X, o)
			case *ast.SliceExpr:
				return x.Low == nil && x.High == nil && x.Max == nil && plain(x.X, o)
			case *ast.CallExpr:
				if tv, ok := info.Types[x.Fun]; ok && tv.IsType() && len(x.Args) == 1 {
					from, to := info.Types[x.Args[0]].Type, tv.Type
					if from != nil && types.Identical(from.Underlying(), to.Underlying()) {
						return plain(x.Args[0], o)
					}
				}
			}
			return false
		}
		if !plain(a, x1) || !plain(b, y1) {
			return key + " applied to a projection of the operands", false
		}
		if elementwise {
			// x1[i], y1[i] with the same index expression
			ia, ok1 := ast.Unparen(a).(*ast.IndexExpr)
			ib, ok2 := ast.Unparen(b).(*ast.IndexExpr)
			if !ok1 || !ok2 || types.ExprString(ia.Index) != types.ExprString(ib.Index) {
				return key, false
			}
		} else if key == "bytes.Compare" {
			// full ranges only: x1 / x1[:]
			for _, e := range []ast.Expr{a, b} {
				if se, ok := ast.Unparen(e).(*ast.SliceExpr); ok && (se.Low != nil || se.High != nil) {
					return key, false
				}
			}
		}
		return key, true
	}
	var rets []*ast.ReturnStmt
	var loops []*ast.ForStmt
	for _, s := range stmts {
		ast.Inspect(s, func(n ast.Node) bool {
			switch x := n.(type) {
			case *ast.FuncLit:
				return false
			case *ast.ReturnStmt:
				rets = append(rets, x)
			case *ast.ForStmt:
				loops = append(loops, x)
			case *ast.RangeStmt:
				bad("unexpected range loop")
			}
			return true
		})
	}
	_, isSlice := ct.Underlying().(*types.Slice)
	bt, isBasic := ct.Underlying().(*types.Slice)
	_ = bt
	_ = isBasic
	if len(loops) == 0 {
		sh.kind = "scalar"
		if len(rets) != 1 || len(rets[0].Results) != 1 {
			bad("scalar case must consist of exactly one return")
			return sh
		}
		call, ok := ast.Unparen(rets[0].Results[0]).(*ast.CallExpr)
		if !ok {
			bad("result is not a call to a whitelisted total order")
			return sh
		}
		if key, ok := orderedCall(call, false); !ok {
			bad("result `%s` is not a whitelisted total order applied to (x, y) in that order (callee %s)", types.ExprString(call), key)
		}
		return sh
	}
	sh.kind = "lexicographic"
	if !isSlice {
		bad("loop in a non-slice case")
	}
	if len(loops) != 1 {
		bad("expected one element loop")
		return sh
	}
	lp := loops[0]
	// loop: i := 0; i < minLen; i++
	okInit := false
	if as, ok := lp.Init.(*ast.AssignStmt); ok && len(as.Rhs) == 1 {
		if lit, ok := as.Rhs[0].(*ast.BasicLit); ok && lit.Value == "0" {
			okInit = true
		}
	}
	if !okInit {
		bad("element loop does not start at index 0")
	}
	if inc, ok := lp.Post.(*ast.IncDecStmt); !ok || inc.Tok != token.INC {
		bad("element loop does not step by one")
	}
	cond, ok := lp.Cond.(*ast.BinaryExpr)
	if !ok || cond.Op != token.LSS {
		bad("element loop bound is not `i < min(len x, len y)`")
	} else {
		// bound: variable with definitions {lenX, lenY under lenY < bound} or builtin min(lenX,lenY)
		okBound := false
		if call, ok := ast.Unparen(cond.Y).(*ast.CallExpr); ok {
			if id, ok := call.Fun.(*ast.Ident); ok && id.Name == "min" && len(call.Args) == 2 &&
				((isLenOf(call.Args[0], x1) && isLenOf(call.Args[1], y1)) || (isLenOf(call.Args[0], y1) && isLenOf(call.Args[1], x1))) {
				okBound = true
			}
		}
		if id, ok := ast.Unparen(cond.Y).(*ast.Ident); ok {
			ds := defs[info.Uses[id]]
			hasX, hasY := false, false
			for _, d := range ds {
				if isLenOf(d, x1) {
					hasX = true
				}
				if isLenOf(d, y1) {
					hasY = true
				}
			}
			// the conditional narrowing `if lenY < minLen { minLen = lenY }` (or symmetric)
			narrowed := false
			for _, s := range stmts {
				if is, ok := s.(*ast.IfStmt); ok {
					if be, ok := is.Cond.(*ast.BinaryExpr); ok && (be.Op == token.LSS || be.Op == token.GTR) {
						l, r := be.X, be.Y
						if be.Op == token.GTR {
							l, r = r, l
						}
						// l < r where r is the bound var and l is the other length, body assigns bound = l
						if rid, ok := ast.Unparen(r).(*ast.Ident); ok && info.Uses[rid] == info.Uses[id] && len(is.Body.List) == 1 {
							if as, ok := is.Body.List[0].(*ast.AssignStmt); ok && len(as.Lhs) == 1 && len(as.Rhs) == 1 &&
								types.ExprString(as.Lhs[0]) == id.Name && types.ExprString(as.Rhs[0]) == types.ExprString(l) {
								narrowed = true
							}
						}
					}
				}
			}
			okBound = hasX && hasY && len(ds) == 2 && narrowed
		}
		if !okBound {
			bad("element loop bound is not min(len x, len y)")
		}
	}
	// returns: inside loop `return c` with c := order(x1[i], y1[i]) guarded by c != 0; final return cmp.Compare(lenX, lenY)
	inLoop, final := 0, 0
	for _, r := range rets {
		if len(r.Results) != 1 {
			bad("unexpected return arity")
			continue
		}
		if r.Pos() >= lp.Body.Pos() && r.End() <= lp.Body.End() {
			inLoop++
			id, ok := ast.Unparen(r.Results[0]).(*ast.Ident)
			if !ok {
				bad("in-loop return is not the element comparison result")
				continue
			}
			ds := defs[info.Uses[id]]
			if len(ds) != 1 {
				bad("element comparison result has several definitions")
				continue
			}
			call, ok := ast.Unparen(ds[0]).(*ast.CallExpr)
			if !ok {
				bad("element comparison is not a call")
				continue
			}
			if key, ok := orderedCall(call, true); !ok {
				bad("element comparison `%s` is not a whitelisted order on (x[i], y[i]) (callee %s)", types.ExprString(call), key)
			}
			// guard c != 0
			guarded := false
			ast.Inspect(lp.Body, func(n ast.Node) bool {
				if is, ok := n.(*ast.IfStmt); ok && r.Pos() >= is.Body.Pos() && r.End() <= is.Body.End() {
					if be, ok := is.Cond.(*ast.BinaryExpr); ok && be.Op == token.NEQ && types.ExprString(be.X) == id.Name {
						if lit, ok := be.Y.(*ast.BasicLit); ok && lit.Value == "0" {
							guarded = true
						}
					}
				}
				return true
			})
			if !guarded {
				bad("in-loop return is not guarded by `c != 0`")
			}
		} else {
			final++
			if r.Pos() < lp.End() {
				bad("a return precedes the element loop")
			}
			call, ok := ast.Unparen(r.Results[0]).(*ast.CallExpr)
			if !ok || w.resolveCall(f, call).Key != "cmp.Compare" || len(call.Args) != 2 || !isLenOf(call.Args[0], x1) || !isLenOf(call.Args[1], y1) {
				bad("final result is not cmp.Compare(len x, len y)")
			}
		}
	}
	if inLoop != 1 || final != 1 {
		bad("expected one in-loop return and one final return, found %d/%d", inLoop, final)
	}
	return sh
}

func runC29(c *Ctx) {
	w := c.W
	r1 := c.Rule("R1", "each case of Compare / closure of CoerceComparer is a whitelisted total order on (x, y), or the lexicographic product shape for slices", 44)
	fc := w.Fn("btree.Compare")
	fco := w.Fn("btree.CoerceComparer")
	c.Analysed(fc)
	c.Analysed(fco)
	caseTypes := func(f *Func) (map[string]*ast.CaseClause, *ast.TypeSwitchStmt) {
		out := map[string]*ast.CaseClause{}
		var ts *ast.TypeSwitchStmt
		for _, s := range f.Body.List {
			if t, ok := s.(*ast.TypeSwitchStmt); ok {
				ts = t
			}
		}
		if ts == nil {
			panic(undecided{f.Key + " has no top-level type switch"})
		}
		for _, cl := range ts.Body.List {
			cc := cl.(*ast.CaseClause)
			for _, e := range cc.List {
				out[f.Pkg.TypesInfo.Types[e].Type.String()] = cc
			}
		}
		return out, ts
	}
	cmpCases, _ := caseTypes(fc)
	coCases, _ := caseTypes(fco)
	sig := fc.Obj.Type().(*types.Signature)
	xp, yp := types.Object(sig.Params().At(0)), types.Object(sig.Params().At(1))
	names := func(m map[string]*ast.CaseClause) []string {
		var out []string
		for k := range m {
			out = append(out, k)
		}
		sort.Strings(out)
		return out
	}
	for _, tn := range names(cmpCases) {
		cc := cmpCases[tn]
		if len(cc.List) != 1 {
			c.Violated(r1, "Compare case "+tn+": single-type case", cc.Pos(), "a case lists several types: the operands' static type is not the case type", nil)
			continue
		}
		sh := analyseComparerBody(w, fc, cc.Body, xp, yp, fc.Pkg.TypesInfo.Types[cc.List[0]].Type)
		c.Check(len(sh.problems) == 0, r1, "Compare case "+tn+" is a total order on (x, y)", cc.Pos(), sh.kind, strings.Join(sh.problems, "; "), nil)
	}
	for _, tn := range names(coCases) {
		cc := coCases[tn]
		if len(cc.List) != 1 || len(cc.Body) != 1 {
			c.Violated(r1, "CoerceComparer case "+tn+": returns one closure", cc.Pos(), "unexpected case shape", nil)
			continue
		}
		rs, ok := cc.Body[0].(*ast.ReturnStmt)
		var lit *ast.FuncLit
		if ok && len(rs.Results) == 1 {
			lit, _ = rs.Results[0].(*ast.FuncLit)
		}
		if lit == nil {
			c.Violated(r1, "CoerceComparer case "+tn+": returns one closure", cc.Pos(), "case does not return a function literal", nil)
			continue
		}
		lf := w.byLit[lit]
		info := lf.Pkg.TypesInfo
		var ps []types.Object
		for _, fl := range lit.Type.Params.List {
			for _, nm := range fl.Names {
				ps = append(ps, info.Defs[nm])
			}
		}
		if len(ps) != 2 {
			c.Violated(r1, "CoerceComparer case "+tn+": binary closure", cc.Pos(), "closure does not take two operands", nil)
			continue
		}
		sh := analyseComparerBody(w, lf, lit.Body.List, ps[0], ps[1], fco.Pkg.TypesInfo.Types[cc.List[0]].Type)
		c.Check(len(sh.problems) == 0, r1, "CoerceComparer case "+tn+" is a total order on (x, y)", cc.Pos(), sh.kind, strings.Join(sh.problems, "; "), nil)
	}
	// sop.UUID.Compare is bytes.Compare over the full ids
	{
		fu := w.Fn("sop.UUID.Compare")
		c.Analysed(fu)
		ok := false
		if len(fu.Body.List) == 1 {
			if rs, isR := fu.Body.List[0].(*ast.ReturnStmt); isR && len(rs.Results) == 1 {
				if call, isC := rs.Results[0].(*ast.CallExpr); isC && w.resolveCall(fu, call).Key == "bytes.Compare" && len(call.Args) == 2 {
					recv := fu.Pkg.TypesInfo.Defs[fu.Decl.Recv.List[0].Names[0]]
					par := fu.Obj.Type().(*types.Signature).Params().At(0)
					full := func(e ast.Expr) bool {
						se, ok := ast.Unparen(e).(*ast.SliceExpr)
						return ok && se.Low == nil && se.High == nil
					}
					ok = mentionsObj(fu.Pkg.TypesInfo, call.Args[0], recv) && mentionsObj(fu.Pkg.TypesInfo, call.Args[1], par) && full(call.Args[0]) && full(call.Args[1])
				}
			}
		}
		c.Check(ok, r1, "sop.UUID.Compare is bytes.Compare(id[:], other[:])", fu.Decl.Pos(), "bytes.Compare over both full ids", "UUID.Compare is no longer the byte-wise total order on (id, other)", nil)
	}

	r2 := c.Rule("R2", "case sets of Compare, CoerceComparer and IsPrimitive coincide (IsPrimitive omits []any)", 2)
	a, b := names(cmpCases), names(coCases)
	c.Check(strings.Join(a, ",") == strings.Join(b, ","), r2, "Compare and CoerceComparer handle the same types", fco.Decl.Pos(), fmt.Sprintf("%d types", len(a)), fmt.Sprintf("case sets differ: Compare=%v CoerceComparer=%v", a, b), nil)
	fp := w.Fn("btree.IsPrimitive")
	c.Analysed(fp)
	prim := map[string]bool{}
	ast.Inspect(fp.Body, func(n ast.Node) bool {
		if cc, ok := n.(*ast.CaseClause); ok {
			for _, e := range cc.List {
				if t := fp.Pkg.TypesInfo.Types[e].Type; t != nil {
					prim[t.String()] = true
				}
			}
		}
		return true
	})
	var miss []string
	for _, tn := range a {
		if tn != "[]any" && tn != "[]interface{}" && !prim[tn] {
			miss = append(miss, "IsPrimitive lacks "+tn)
		}
	}
	for tn := range prim {
		if _, ok := cmpCases[tn]; !ok {
			miss = append(miss, "Compare lacks "+tn)
		}
	}
	sort.Strings(miss)
	c.Check(len(miss) == 0, r2, "IsPrimitive agrees with Compare's case set", fp.Decl.Pos(), fmt.Sprintf("%d primitive types", len(prim)), strings.Join(miss, "; "), nil)

	r3 := c.Rule("R3", "nil operands are ordered consistently: following the nil tests of the fallback comparison with both operands nil reaches only `return 0` among constant returns (reflexivity), and with exactly one operand nil the two sides return opposite signs (antisymmetry); paths are followed with the outcome of every `x == nil` / `y != nil` test fixed by the assumed input", 4)
	nilOrderRule(c, r3, w.Fn("btree.Compare"))
	for _, l := range w.allLits(fco) {
		nilOrderRule(c, r3, l)
	}
	nilOrderRule(c, r3, fco)
}

// nilOrderRule (C29.R3, shared by C30): abstract execution of a two-operand comparison function for the
// inputs (nil,nil), (nil,v), (v,nil), starting at its first nil test.
func nilOrderRule(c *Ctx, r3 string, f *Func) {
	w := c.W
	info := f.Pkg.TypesInfo
	var px, py *types.Var
	var ft *ast.FuncType
	if f.Lit != nil {
		ft = f.Lit.Type
	} else if f.Decl != nil {
		ft = f.Decl.Type
	}
	if ft == nil || ft.Params == nil {
		return
	}
	var ps []*types.Var
	for _, fld := range ft.Params.List {
		for _, nm := range fld.Names {
			if v, ok := info.Defs[nm].(*types.Var); ok {
				ps = append(ps, v)
			}
		}
	}
	if len(ps) != 2 {
		return
	}
	px, py = ps[0], ps[1]
	if _, isIface := px.Type().Underlying().(*types.Interface); !isIface {
		return
	}
	g := w.G(f)
	// nil tests: (node, which operand, true when the test is `== nil`)
	type nilTest struct {
		op int
		eq bool
	}
	tests := map[int]nilTest{}
	for _, n := range g.Nodes {
		if !n.IsCond || n.Ast == nil {
			continue
		}
		be, ok := n.Ast.(*ast.BinaryExpr)
		if !ok || (be.Op != token.EQL && be.Op != token.NEQ) {
			continue
		}
		var other ast.Expr
		if isNilLit(info, be.Y) {
			other = be.X
		} else if isNilLit(info, be.X) {
			other = be.Y
		} else {
			continue
		}
		id, ok := ast.Unparen(other).(*ast.Ident)
		if !ok {
			continue
		}
		switch info.Uses[id] {
		case types.Object(px):
			tests[n.ID] = nilTest{0, be.Op == token.EQL}
		case types.Object(py):
			tests[n.ID] = nilTest{1, be.Op == token.EQL}
		}
	}
	if len(tests) == 0 {
		return
	}
	// entry-most nil tests
	var starts []int
	for id := range tests {
		first := true
		for other := range tests {
			if other != id && g.Reach([]int{other}, nil, nil).Seen[id] && !g.Reach([]int{id}, nil, nil).Seen[other] {
				first = false
			}
		}
		if first {
			starts = append(starts, id)
		}
	}
	sort.Ints(starts)
	constRets := func(xNil, yNil bool) (map[int64]bool, token.Pos) {
		out := map[int64]bool{}
		var pos token.Pos
		seen := map[int]bool{}
		queue := append([]int{}, starts...)
		for len(queue) > 0 {
			id := queue[0]
			queue = queue[1:]
			if seen[id] {
				continue
			}
			seen[id] = true
			n := g.Nodes[id]
			if n.Ret != nil && len(n.Ret.Results) == 1 {
				if tv := info.Types[n.Ret.Results[0]]; tv.Value != nil {
					if v, ok := constant.Int64Val(constant.ToInt(tv.Value)); ok {
						out[v] = true
						if v != 0 || pos == token.NoPos {
							pos = n.Ret.Pos()
						}
					}
				}
				continue
			}
			t, isTest := tests[id]
			for _, e := range n.Succs {
				if isTest && e.Cond != 0 {
					isNil := xNil
					if t.op == 1 {
						isNil = yNil
					}
					outcome := isNil == t.eq
					if (e.Cond == 1) != outcome {
						continue
					}
				}
				queue = append(queue, e.To)
			}
		}
		return out, pos
	}
	name := shortKey(f.Key)
	both, pos := constRets(true, true)
	okRefl := true
	for v := range both {
		if v != 0 {
			okRefl = false
		}
	}
	if pos == token.NoPos {
		pos = g.Nodes[starts[0]].Ast.Pos()
	}
	c.Check(okRefl, r3, name+": two nil operands compare equal", pos, "only `return 0` is reachable for (nil, nil)",
		fmt.Sprintf("with both operands nil the comparison can return %v: compare(k, k) != 0 for a missing value, so a key is not equal to itself and two keys that both lack the field are each `less` than the other - lookups of stored keys fail and the order depends on which comparison happened first", keysOf(both)), nil)
	xn, p1 := constRets(true, false)
	yn, _ := constRets(false, true)
	okAnti := true
	for a := range xn {
		for b := range yn {
			if a != 0 && b != 0 && (a > 0) == (b > 0) {
				okAnti = false
			}
		}
	}
	if p1 == token.NoPos {
		p1 = pos
	}
	c.Check(okAnti, r3, name+": a nil operand sorts on one side whichever argument it is", p1, fmt.Sprintf("(nil,v) -> %v, (v,nil) -> %v", keysOf(xn), keysOf(yn)),
		fmt.Sprintf("(nil, v) can return %v and (v, nil) can return %v: the same sign both ways round", keysOf(xn), keysOf(yn)), nil)
}

func keysOf(m map[int64]bool) []int64 {
	var out []int64
	for k := range m {
		out = append(out, k)
	}
	sort.Slice(out, func(i, j int) bool { return out[i] < out[j] })
	return out
}
