package main

import (
	"fmt"
	"go/ast"
	"go/constant"
	"go/token"
	"go/types"
	"sort"
	"strings"
)

func init() {
	register("C14", propMeta{
		Explanation:  "(R1) every context-taking method of btree.BtreeInterface is declared on the transaction wrapper (not merely promoted from the embedded interface) and its delegate call is reachable only when transaction.HasBegun() is true, and, for the methods whose Btree implementation reaches the item-action tracker's or node repository's mutators in the call graph (the mutating set is derived, not listed), only when GetMode() == ForWriting; (R2) the lifecycle state machine of common.Transaction is extracted by abstract interpretation of Begin/Phase1Commit/Phase2Commit/Rollback over all 24 pre-states (phaseDone x committed x mode) and checked against the lifecycle table: Begin only from the initial state, commits only between Begin and the end, a finished transaction reaches no commit/rollback internals and keeps its state, every exit of Phase2Commit/Rollback that did work leaves the transaction finished, committed is set only on a nil return, writer internals only in ForWriting mode, phaseDone monotone; (R3) only those four methods write phaseDone/committed; (R4) the pre-commit storage mutation in NewBtree (StoreRepository.Add) is guarded by a writer-mode check; (R5) nothing can fail after the commit point, so a committed transaction is never handed to rollback (shared with C01.R3). (R6) a failed Commit ends the transaction: every failure edge of SinglePhaseTransaction.Commit passes t.Rollback (shared with C16.R2).",
		DoesNotCover: "Operations of the SinglePhaseTransaction wrapper other than what C16 covers, Close, and the behaviour of store operations themselves.",
		Technique:    "static analysis: wrapper exhaustiveness over the interface's method set, CFG guard dominance, call-graph derivation of the mutating set, and abstract interpretation of the lifecycle methods over a finite state domain (exhaustive: 96 pre-state/method pairs)",
	}, runC14)
}

// ---- tiny abstract interpreter -----------------------------------------------------------

type lcState struct {
	phaseDone int64
	committed bool
	mode      int64
}

func (s lcState) String() string {
	return fmt.Sprintf("phaseDone=%d committed=%v mode=%d", s.phaseDone, s.committed, s.mode)
}

type lcExit struct {
	state lcState
	ret   RetClass
	calls map[string]bool
	line  int
}

type lcInterp struct {
	w                         *World
	fPhase, fCommitted, fMode *types.Var
}

// eval evaluates e to a constant under state s; ok=false if it depends on anything else.
func (li *lcInterp) eval(f *Func, e ast.Expr, s lcState, depth int) (constant.Value, bool) {
	info := f.Pkg.TypesInfo
	switch x := ast.Unparen(e).(type) {
	case *ast.BasicLit:
		if tv, ok := info.Types[x]; ok && tv.Value != nil {
			return tv.Value, true
		}
	case *ast.Ident:
		if c, ok := info.Uses[x].(*types.Const); ok {
			return c.Val(), true
		}
	case *ast.SelectorExpr:
		if fld := fieldOfSelector(info, x); fld != nil {
			switch fld {
			case li.fPhase:
				return constant.MakeInt64(s.phaseDone), true
			case li.fCommitted:
				return constant.MakeBool(s.committed), true
			case li.fMode:
				return constant.MakeInt64(s.mode), true
			}
			return nil, false
		}
		if c, ok := info.Uses[x.Sel].(*types.Const); ok {
			return c.Val(), true
		}
	case *ast.UnaryExpr:
		if x.Op == token.NOT {
			if v, ok := li.eval(f, x.X, s, depth); ok {
				return constant.MakeBool(!constant.BoolVal(v)), true
			}
		}
		if x.Op == token.SUB {
			if v, ok := li.eval(f, x.X, s, depth); ok {
				return constant.UnaryOp(token.SUB, v, 0), true
			}
		}
	case *ast.BinaryExpr:
		l, lok := li.eval(f, x.X, s, depth)
		r, rok := li.eval(f, x.Y, s, depth)
		switch x.Op {
		case token.LAND:
			if lok && !constant.BoolVal(l) {
				return constant.MakeBool(false), true
			}
			if rok && !constant.BoolVal(r) {
				return constant.MakeBool(false), true
			}
			if lok && rok {
				return constant.MakeBool(true), true
			}
			return nil, false
		case token.LOR:
			if lok && constant.BoolVal(l) {
				return constant.MakeBool(true), true
			}
			if rok && constant.BoolVal(r) {
				return constant.MakeBool(true), true
			}
			if lok && rok {
				return constant.MakeBool(false), true
			}
			return nil, false
		case token.EQL, token.NEQ, token.LSS, token.LEQ, token.GTR, token.GEQ:
			if lok && rok && l.Kind() == r.Kind() {
				return constant.MakeBool(constant.Compare(l, x.Op, r)), true
			}
			if lok && rok {
				return constant.MakeBool(constant.Compare(constant.ToInt(l), x.Op, constant.ToInt(r))), true
			}
		}
	case *ast.CallExpr:
		// one-line getter on the same receiver: inline
		if depth < 2 {
			cs := li.w.resolveCall(f, x)
			if cf := li.w.CalleeFunc(cs); cf != nil && cf.Decl != nil && len(cf.Body.List) == 1 && len(x.Args) == 0 {
				if rs, ok := cf.Body.List[0].(*ast.ReturnStmt); ok && len(rs.Results) == 1 {
					return li.eval(cf, rs.Results[0], s, depth+1)
				}
			}
		}
	}
	return nil, false
}

// apply executes the assignments of node n on the tracked fields.
func (li *lcInterp) apply(f *Func, n *GNode, s lcState) (lcState, bool) {
	as, ok := n.Ast.(*ast.AssignStmt)
	if !ok {
		return s, true
	}
	info := f.Pkg.TypesInfo
	for i, l := range as.Lhs {
		fld := fieldOfSelector(info, l)
		if fld != li.fPhase && fld != li.fCommitted && fld != li.fMode {
			continue
		}
		if len(as.Rhs) != len(as.Lhs) {
			return s, false
		}
		v, ok := li.eval(f, as.Rhs[i], s, 0)
		if !ok {
			return s, false
		}
		switch fld {
		case li.fPhase:
			k, _ := constant.Int64Val(constant.ToInt(v))
			s.phaseDone = k
		case li.fCommitted:
			s.committed = constant.BoolVal(v)
		case li.fMode:
			k, _ := constant.Int64Val(constant.ToInt(v))
			s.mode = k
		}
	}
	return s, true
}

type lcKey struct {
	id    int
	s     lcState
	calls string
}

// run explores method f from pre-state s0 and returns its exits; track lists the call keys to record.
func (li *lcInterp) run(f *Func, s0 lcState, track map[string]bool) ([]lcExit, error) {
	g := li.w.G(f)
	var exits []lcExit
	seen := map[lcKey]bool{}
	type item struct {
		id    int
		s     lcState
		calls []string
	}
	stack := []item{{g.Entry, s0, nil}}
	for len(stack) > 0 {
		it := stack[len(stack)-1]
		stack = stack[:len(stack)-1]
		key := lcKey{it.id, it.s, strings.Join(it.calls, ",")}
		if seen[key] {
			continue
		}
		seen[key] = true
		n := g.Nodes[it.id]
		cl := it.calls
		for _, cs := range n.Calls {
			if track[cs.Key] && !contains(cl, cs.Key) {
				cl = append(append([]string{}, cl...), cs.Key)
				sort.Strings(cl)
			}
		}
		s := it.s
		if n.Ast != nil {
			var ok bool
			s, ok = li.apply(f, n, s)
			if !ok {
				return nil, fmt.Errorf("%s: assignment to a lifecycle field with a non-constant value at line %d", f.Key, g.line(n))
			}
		}
		if n.Ret != nil {
			m := map[string]bool{}
			for _, k := range cl {
				m[k] = true
			}
			exits = append(exits, lcExit{state: s, ret: g.ClassifyReturn(n), calls: m, line: g.line(n)})
			continue
		}
		if n.Exit {
			continue
		}
		if n.IsCond && n.Ast != nil {
			if v, ok := li.eval(f, n.Ast.(ast.Expr), s, 0); ok {
				want := 2
				if constant.BoolVal(v) {
					want = 1
				}
				for _, e := range n.Succs {
					if e.Cond == want {
						stack = append(stack, item{e.To, s, cl})
					}
				}
				continue
			}
		}
		for _, e := range n.Succs {
			stack = append(stack, item{e.To, s, cl})
		}
	}
	return exits, nil
}

func contains(xs []string, x string) bool {
	for _, y := range xs {
		if y == x {
			return true
		}
	}
	return false
}

func runC14(c *Ctx) {
	w := c.W
	// ---------------- R1 ----------------
	r1 := c.Rule("R1", "every context-taking BtreeInterface method is declared on btreeWithTransaction; delegate only if HasBegun(); mutating methods (derived from the call graph) only if GetMode()==ForWriting", 40)
	iface, _ := w.Object("btree", "BtreeInterface").Type().Underlying().(*types.Interface)
	if iface == nil {
		panic(undecided{"btree.BtreeInterface is not an interface"})
	}
	mutKeys := keyIn("btree.ItemActionTracker.Add", "btree.ItemActionTracker.Update", "btree.ItemActionTracker.Remove",
		"btree.NodeRepository.Add", "btree.NodeRepository.Update", "btree.NodeRepository.Remove")
	nMut := 0
	for i := 0; i < iface.NumMethods(); i++ {
		m := iface.Method(i)
		sig := m.Type().(*types.Signature)
		takesCtx := sig.Params().Len() > 0 && sig.Params().At(0).Type().String() == "context.Context"
		impl := w.FnOpt("btree.Btree." + m.Name())
		wrap := w.FnOpt("btree.btreeWithTransaction." + m.Name())
		if !takesCtx {
			continue
		}
		if impl == nil {
			panic(undecided{"btree.Btree." + m.Name() + " not found"})
		}
		mutating := w.Reaches(impl, mutKeys)
		if mutating {
			nMut++
		}
		if wrap == nil {
			c.Violated(r1, "btreeWithTransaction."+m.Name()+": declared on the wrapper", m.Pos(), "the method is only promoted from the embedded BtreeInterface: it runs without any transaction-state check (usable before Begin and after the transaction ended)", nil)
			continue
		}
		c.Held(r1, "btreeWithTransaction."+m.Name()+": declared on the wrapper", wrap.Decl.Pos(), "declared")
		g := w.G(wrap)
		c.Analysed(wrap)
		delegate := calls("btree.BtreeInterface." + m.Name())
		nd := len(g.Find(delegate))
		if nd == 0 {
			c.Violated(r1, "btreeWithTransaction."+m.Name()+": delegates to the wrapped B-tree", wrap.Decl.Pos(), "no delegate call found", nil)
			continue
		}
		begun := g.condNodes(func(e ast.Expr) bool { return w.mentionsCall(wrap, e, "sop.TwoPhaseCommitTransaction.HasBegun") })
		offs := g.notOnlyVia(begun, 1, delegate)
		c.Offences(g, offs, r1, "btreeWithTransaction."+m.Name()+": delegate only when HasBegun()", wrap.Decl.Pos(), "delegate call reachable only through the HasBegun()==true edge", "the wrapped B-tree can be called without HasBegun() being true")
		if mutating {
			modeConds := g.condNodes(func(e ast.Expr) bool {
				be, ok := e.(*ast.BinaryExpr)
				return ok && be.Op == token.NEQ && w.mentionsCall(wrap, be, "sop.TwoPhaseCommitTransaction.GetMode") && mentionsObj(wrap.Pkg.TypesInfo, be, w.Object("sop", "ForWriting"))
			})
			modeEq := g.condNodes(func(e ast.Expr) bool {
				be, ok := e.(*ast.BinaryExpr)
				return ok && be.Op == token.EQL && w.mentionsCall(wrap, be, "sop.TwoPhaseCommitTransaction.GetMode") && mentionsObj(wrap.Pkg.TypesInfo, be, w.Object("sop", "ForWriting"))
			})
			cutNE := edgeCut(modeConds, 2)
			cutEQ := edgeCut(modeEq, 1)
			offs := g.ReachableWithout(func(from *GNode, e Edge) bool { return cutNE(from, e) || cutEQ(from, e) }, delegate)
			if len(modeConds)+len(modeEq) == 0 {
				offs = []Offence{{g.Find(delegate)[0], nil}}
			}
			c.Offences(g, offs, r1, "btreeWithTransaction."+m.Name()+": mutating delegate only in ForWriting mode", wrap.Decl.Pos(), "delegate reachable only when GetMode() == ForWriting", "a read-only / no-check transaction can reach a mutating B-tree operation")
		}
	}
	c.Check(nMut >= 10, r1, "derived mutating set", iface.Method(0).Pos(), fmt.Sprintf("%d mutating methods derived from the call graph", nMut), fmt.Sprintf("only %d mutating methods derived (call graph lost the tracker/repository mutators?)", nMut), nil)

	// ---------------- R2 ----------------
	r2 := c.Rule("R2", "lifecycle state machine of common.Transaction, exhaustive over 24 pre-states x 4 methods", 96)
	li := &lcInterp{w: w, fPhase: w.Field("common", "Transaction", "phaseDone"), fCommitted: w.Field("common", "Transaction", "committed"), fMode: w.Field("common", "Transaction", "mode")}
	modeVal := func(name string) int64 {
		cst := w.Object("sop", name).(*types.Const)
		v, _ := constant.Int64Val(constant.ToInt(cst.Val()))
		return v
	}
	modes := map[string]int64{"NoCheck": modeVal("NoCheck"), "ForWriting": modeVal("ForWriting"), "ForReading": modeVal("ForReading")}
	track := map[string]bool{kTxp1: true, kTxp2: true, kTxrb: true, kTxReaderCommit: true, "common.Transaction.onIdle": true, kPriorityRB: true}
	methods := []string{kTxBegin, kTxP1, kTxP2, kTxRB}
	for _, mk := range methods {
		f := w.Fn(mk)
		c.Analysed(f)
		for _, pd := range []int64{-1, 0, 1, 2} {
			for _, com := range []bool{false, true} {
				for _, mn := range []string{"NoCheck", "ForWriting", "ForReading"} {
					s0 := lcState{pd, com, modes[mn]}
					construct := fmt.Sprintf("%s from phaseDone=%d committed=%v mode=%s", shortKey(mk), pd, com, mn)
					if com && pd != 2 {
						// unreachable pre-state (committed implies finished); still evaluated: must not crash the spec
					}
					exits, err := li.run(f, s0, track)
					if err != nil {
						c.Violated(r2, construct, f.Decl.Pos(), err.Error(), nil)
						continue
					}
					if len(exits) == 0 {
						c.Violated(r2, construct, f.Decl.Pos(), "no exit found (method does not return?)", nil)
						continue
					}
					var bad []string
					for _, ex := range exits {
						internals := ex.calls[kTxp1] || ex.calls[kTxp2] || ex.calls[kTxrb] || ex.calls[kTxReaderCommit]
						at := fmt.Sprintf("exit L%d (%s, returns %s)", ex.line, ex.state, ex.ret)
						// monotonicity
						if ex.state.phaseDone < s0.phaseDone {
							bad = append(bad, at+": phaseDone decreased")
						}
						if s0.committed && !ex.state.committed {
							bad = append(bad, at+": committed reset")
						}
						if ex.state.mode != s0.mode {
							bad = append(bad, at+": mode changed")
						}
						if !s0.committed && ex.state.committed && ex.ret != RetNil {
							bad = append(bad, at+": committed set on a non-nil return")
						}
						if (ex.calls[kTxp1] || ex.calls[kTxp2]) && s0.mode != modes["ForWriting"] {
							bad = append(bad, at+": writer commit internals reached in a non-writer mode")
						}
						if ex.calls[kTxReaderCommit] && s0.mode != modes["ForReading"] {
							bad = append(bad, at+": reader validation reached in a non-reader mode")
						}
						// finished transactions: no internals, state unchanged
						if s0.phaseDone == 2 {
							if internals {
								bad = append(bad, at+": a finished transaction reaches commit/rollback internals again")
							}
							if ex.state != s0 {
								bad = append(bad, at+": a finished transaction changes state")
							}
						}
						switch mk {
						case kTxBegin:
							if s0.phaseDone != -1 {
								if ex.ret != RetNonNil {
									bad = append(bad, at+": Begin does not fail on a begun/finished transaction")
								}
								if ex.state != s0 {
									bad = append(bad, at+": failed Begin changes state")
								}
							} else if ex.ret == RetNil && ex.state.phaseDone != 0 {
								bad = append(bad, at+": successful Begin does not enter the begun state")
							}
							if internals {
								bad = append(bad, at+": Begin reaches commit/rollback internals")
							}
						case kTxP1:
							if s0.phaseDone == -1 {
								if ex.ret != RetNonNil || internals || ex.state != s0 {
									bad = append(bad, at+": Phase1Commit before Begin must fail without effect")
								}
							}
							if s0.phaseDone == 2 && !s0.committed && ex.ret != RetNonNil {
								bad = append(bad, at+": Phase1Commit on a rolled-back transaction must fail")
							}
							if (s0.phaseDone == 0 || s0.phaseDone == 1) && ex.state.phaseDone < 1 {
								bad = append(bad, at+": Phase1Commit leaves phaseDone below 1")
							}
							if ex.calls[kTxrb] && ex.state.phaseDone != 2 {
								bad = append(bad, at+": rollback ran but the transaction is not marked finished")
							}
							if ex.calls[kTxrb] && ex.ret != RetNonNil {
								bad = append(bad, at+": rollback ran but Phase1Commit does not return an error")
							}
							if (s0.phaseDone == 0 || s0.phaseDone == 1) && s0.mode == modes["ForWriting"] && !ex.calls[kTxp1] {
								bad = append(bad, at+": writer Phase1Commit exits without running phase1Commit")
							}
							if (s0.phaseDone == 0 || s0.phaseDone == 1) && s0.mode == modes["ForReading"] && !ex.calls[kTxReaderCommit] {
								bad = append(bad, at+": reader Phase1Commit exits without validation")
							}
						case kTxP2:
							if s0.phaseDone == -1 || s0.phaseDone == 0 {
								if ex.ret != RetNonNil || internals || ex.state != s0 {
									bad = append(bad, at+": Phase2Commit without a preceding Phase1Commit must fail without effect")
								}
							}
							if s0.phaseDone == 2 && !s0.committed && ex.ret != RetNonNil {
								bad = append(bad, at+": Phase2Commit on a rolled-back transaction must fail")
							}
							if s0.phaseDone == 1 {
								if ex.state.phaseDone != 2 {
									bad = append(bad, at+": Phase2Commit exits leaving the transaction unfinished (HasBegun stays true; it could be committed again)")
								}
								if s0.mode == modes["ForWriting"] && !ex.calls[kTxp2] {
									bad = append(bad, at+": writer Phase2Commit exits without running phase2Commit")
								}
								if ex.ret == RetNil && !ex.state.committed {
									bad = append(bad, at+": nil return without committed=true")
								}
								if ex.ret != RetNil && ex.state.committed && !s0.committed {
									bad = append(bad, at+": error return with committed=true")
								}
								if ex.ret != RetNil && s0.mode == modes["ForWriting"] && !ex.calls[kTxrb] {
									bad = append(bad, at+": failed Phase2Commit without rollback")
								}
							}
						case kTxRB:
							if s0.phaseDone == 2 && s0.committed && ex.ret != RetNonNil {
								bad = append(bad, at+": a committed transaction can be rolled back without an error")
							}
							if s0.phaseDone == -1 && (ex.ret != RetNonNil || internals || ex.state != s0) {
								bad = append(bad, at+": Rollback before Begin must fail without effect")
							}
							if s0.phaseDone == 0 || s0.phaseDone == 1 {
								if !ex.calls[kTxrb] {
									bad = append(bad, at+": Rollback exits without running rollback")
								}
								if ex.state.phaseDone != 2 {
									bad = append(bad, at+": Rollback exits leaving the transaction unfinished")
								}
								if ex.state.committed && !s0.committed {
									bad = append(bad, at+": Rollback sets committed")
								}
							}
						}
					}
					if len(bad) > 0 {
						sort.Strings(bad)
						c.Violated(r2, construct, f.Decl.Pos(), strings.Join(dedup(bad), "; "), nil)
					} else {
						c.Held(r2, construct, f.Decl.Pos(), fmt.Sprintf("%d exits conform to the lifecycle table", len(exits)))
					}
				}
			}
		}
	}

	// ---------------- R3 ----------------
	r3 := c.Rule("R3", "only Begin/Phase1Commit/Phase2Commit/Rollback write phaseDone and committed", 2)
	allowed := map[string]bool{kTxBegin: true, kTxP1: true, kTxP2: true, kTxRB: true}
	for _, fld := range []*types.Var{li.fPhase, li.fCommitted} {
		var bad, all []string
		for _, f := range fieldWriters(w, fld) {
			all = append(all, f.Key)
			if !allowed[f.Key] {
				bad = append(bad, f.Key)
			}
		}
		c.Check(len(bad) == 0 && len(all) > 0, r3, "writers of Transaction."+fld.Name(), fld.Pos(), fmt.Sprintf("writers: %v", all), fmt.Sprintf("lifecycle field written outside the lifecycle methods: %v", bad), nil)
	}

	// ---------------- R4 ----------------
	r4 := c.Rule("R4", "NewBtree's pre-commit storage mutation (StoreRepository.Add) is reachable only in a writer transaction", 1)
	{
		f := w.Fn("common.NewBtree")
		g := w.G(f)
		c.Analysed(f)
		info := f.Pkg.TypesInfo
		modeGuard := g.condNodes(func(e ast.Expr) bool {
			be, ok := e.(*ast.BinaryExpr)
			if !ok || (be.Op != token.NEQ && be.Op != token.EQL) {
				return false
			}
			return mentionsObj(info, be, w.Object("sop", "ForWriting")) &&
				(w.mentionsCall(f, be, "sop.Transaction.GetMode") || w.mentionsCall(f, be, "common.Transaction.GetMode") || w.mentionsCall(f, be, "sop.TwoPhaseCommitTransaction.GetMode") || mentionsObj(info, be, li.fMode))
		})
		cut := func(from *GNode, e Edge) bool {
			for _, mg := range modeGuard {
				if from == mg {
					op := mg.Ast.(*ast.BinaryExpr).Op
					if (op == token.NEQ && e.Cond == 2) || (op == token.EQL && e.Cond == 1) {
						return true
					}
				}
			}
			return false
		}
		offs := g.ReachableWithout(cut, calls(kSRAdd))
		c.Offences(g, offs, r4, "NewBtree: StoreRepository.Add only in ForWriting mode", f.Decl.Pos(), "store creation is behind a writer-mode check", "a read-only or no-check transaction that names a missing store creates it on disk (data changed by a non-writer)")
	}
	r5 := c.Rule("R5", "a committed transaction cannot be rolled back: after the commit point phase2Commit cannot return an error (which would make Phase2Commit run the rollback against committed data), and Phase2Commit sets committed only on the nil path (shared with C01.R3)", 3)
	ruleNothingFailsAfterCommitPoint(c, r5)

	r6 := c.Rule("R6", "a failed Commit ends the transaction: in SinglePhaseTransaction.Commit every failure edge - SOP's own Phase1Commit included, which for readers returns an error without having ended the transaction - passes t.Rollback, which rolls back SOP's transaction and every participant (shared with C16.R2)", 9)
	driverRules(c, "", r6)

}

func dedup(xs []string) []string {
	var out []string
	for i, x := range xs {
		if i == 0 || x != xs[i-1] {
			out = append(out, x)
		}
	}
	return out
}
