package main

import (
	"fmt"
	"go/ast"
	"go/token"
	"go/types"
)

const (
	kNRBcommitNewRoot  = "common.nodeRepositoryBackend.commitNewRootNodes"
	kNRBcommitUpdated  = "common.nodeRepositoryBackend.commitUpdatedNodes"
	kNRBcommitRemoved  = "common.nodeRepositoryBackend.commitRemovedNodes"
	kNRBcommitAdded    = "common.nodeRepositoryBackend.commitAddedNodes"
	kNRBfetchedIntact  = "common.nodeRepositoryBackend.areFetchedItemsIntact"
	kNRBactivate       = "common.nodeRepositoryBackend.activateInactiveNodes"
	kNRBtouch          = "common.nodeRepositoryBackend.touchNodes"
	kTxLockTracked     = "common.Transaction.lockTrackedItems"
	kTxCheckTracked    = "common.Transaction.checkTrackedItems"
	kTxNodesKeysLocked = "common.Transaction.nodesKeysNilOrLocked"
	kTxCommitValues    = "common.Transaction.commitTrackedItemsValues"
	kTxCommitStores    = "common.Transaction.commitStores"
	kTxHasTracked      = "common.Transaction.hasTrackedItems"
	kTxTimedOut        = "common.Transaction.timedOut"
	kTxReaderCommit    = "common.Transaction.commitForReaderTransaction"
	kTxRefetch         = "common.Transaction.refetchAndMergeModifications"
	kL2Lock            = "sop.Locker.Lock"
	kL2DualLock        = "sop.Locker.DualLock"
	kL2IsLocked        = "sop.Locker.IsLocked"
	kL2Unlock          = "sop.Locker.Unlock"
	kGetVersion        = "btree.MetaDataType.GetVersion"
)

func init() {
	register("C02", propMeta{
		Explanation:  "Decides that every validation step the optimistic protocol relies on lies on every path to a successful phase 1, for every path of the functions involved: (R1) in phase1Commit, with the retry flag tracked path-sensitively, the final success return is reachable only after item locks, node-key Lock+IsLocked, commitNewRootNodes, areFetchedItemsIntact, commitUpdatedNodes, commitRemovedNodes, commitAddedNodes, commitStores, checkTrackedItems and nodesKeysNilOrLocked, each validator's boolean result feeding the retry flag; (R2) commitUpdatedNodes / commitRemovedNodes / areFetchedItemsIntact compare the registry handle's Version with the node's version for every fetched handle and return false on mismatch before any registry write; (R3) a read-only commit returns nil only when areFetchedItemsIntact said true; (R4) the merge replay rejects items whose version moved and fails when a replayed action fails; (R5) item locks are fetch-set-fetch with ownership granted only on LockID equality, and checkTrackedItems reports a foreign incompatible lock. (R6) no dirty reads through the node cache: the host-wide L1 cache stores clones and hands out materialised copies only. (R7) the item RemoveCurrentItem registers with the item action tracker is the item that was at the cursor when the call began (no re-assignment after the cursor moved to the leaf successor). (R8) itemActionTracker.Update applies its version bump to the incoming item - the object the caller writes back into the node slot - never to the copy tracked before, so a read-modify-write always leaves a newer item version for the refetch-and-merge check of concurrent transactions.",
		DoesNotCover: "Serializability of concrete histories (a schedule-quantified property) is not decided; nor whether the version numbers themselves are maintained correctly by other writers (see C37), nor transactions in NoCheck mode (excluded by the property's definition of no-check).",
	}, runC02)
}

// nilReturnsAfterStart returns the literal-nil return nodes that are not guarded by an early
// `if !t.hasTrackedItems()`-style exit: those reachable from the given start nodes.
func (g *Graph) retNodes(class RetClass) []*GNode {
	var out []*GNode
	for _, n := range g.Nodes {
		if n.Ret != nil && g.ClassifyReturn(n) == class {
			out = append(out, n)
		}
	}
	return out
}

func nodeSet(ns []*GNode) NPred {
	m := map[*GNode]bool{}
	for _, n := range ns {
		m[n] = true
	}
	return func(n *GNode) bool { return m[n] }
}

// rangeHeads returns the range-loop head nodes enclosing n, innermost first.
func (g *Graph) rangeHeads(n *GNode) []*GNode {
	var out []*GNode
	if n.Ast == nil {
		return nil
	}
	for _, h := range g.Nodes {
		if h.RangeHead == nil {
			continue
		}
		b := h.RangeHead.Body
		if b.Pos() <= n.Ast.Pos() && n.Ast.End() <= b.End() {
			out = append(out, h)
		}
	}
	// innermost first = latest start
	for i := 0; i < len(out); i++ {
		for j := i + 1; j < len(out); j++ {
			if out[j].RangeHead.Pos() > out[i].RangeHead.Pos() {
				out[i], out[j] = out[j], out[i]
			}
		}
	}
	return out
}

func bodyStarts(h *GNode) []int {
	var out []int
	for _, e := range h.Succs {
		if e.Cond == 1 {
			out = append(out, e.To)
		}
	}
	return out
}

// versionLoopRule: see DESIGN C02.R2.
func versionLoopRule(c *Ctx, rule string, fkey string, firstResultIsBool bool) {
	w := c.W
	f := w.Fn(fkey)
	g := w.G(f)
	c.Analysed(f)
	info := f.Pkg.TypesInfo
	verField := w.Field("sop", "Handle", "Version")
	short := f.Obj.Name()
	conds := g.condNodes(func(e ast.Expr) bool {
		be, ok := ast.Unparen(e).(*ast.BinaryExpr)
		if !ok || be.Op != token.NEQ {
			return false
		}
		l := fieldOfSelector(info, be.X) == verField && w.mentionsCall(f, be.Y, kGetVersion)
		r := fieldOfSelector(info, be.Y) == verField && w.mentionsCall(f, be.X, kGetVersion)
		return l || r
	})
	if len(conds) != 1 {
		c.Violated(rule, short+": version comparison present", f.Decl.Pos(), fmt.Sprintf("expected exactly one branch on `handle.Version != node.GetVersion()`, found %d", len(conds)), nil)
		return
	}
	cond := conds[0]
	c.Held(rule, short+": version comparison present", cond.Ast.Pos(), "branch on handle.Version != node.GetVersion()")
	// mismatch edge: no registry write reachable, every return reached has result[0] == false
	starts := branchStarts(conds, 1)
	r := g.Reach(starts, nil, nil)
	regWrite := calls(kRegUpdNL, kRegUpd, kRegAdd, kRegRemove, kBlobAdd)
	var offs []Offence
	for _, n := range g.Nodes {
		if !r.Seen[n.ID] {
			continue
		}
		if regWrite(n) {
			offs = append(offs, Offence{n, r.Path(n.ID)})
		}
		if n.Ret != nil {
			if e := retResult(n, 0); e == nil || !isBoolLit(info, e, false) {
				offs = append(offs, Offence{n, r.Path(n.ID)})
			}
		}
	}
	c.Offences(g, offs, rule, short+": version mismatch returns false without writing", cond.Ast.Pos(), "from the mismatch edge only `return false, ...` is reachable and no registry/blob write", "after a version mismatch the function can write or return something other than false")
	// loop nest coverage
	heads := g.rangeHeads(cond)
	if len(heads) < 2 {
		c.Violated(rule, short+": version comparison inside the handles loop nest", cond.Ast.Pos(), "comparison is not nested in two range loops (stores x handles)", nil)
		return
	}
	inner, outer := heads[0], heads[1]
	offs = g.MustFollowFrom(bodyStarts(inner), func(n *GNode) bool { return n == cond }, func(n *GNode) bool { return n == inner })
	c.Offences(g, offs, rule, short+": every handle is compared", cond.Ast.Pos(), "each iteration over the fetched handles evaluates the version comparison (or leaves the function)", "an iteration can continue to the next handle without comparing versions")
	offs = g.MustFollowFrom(bodyStarts(outer), func(n *GNode) bool { return n == inner }, func(n *GNode) bool { return n == outer })
	c.Offences(g, offs, rule, short+": every store's handles are visited", cond.Ast.Pos(), "each iteration over stores enters the handles loop", "an outer iteration can skip the handles loop")
	// the outer loop ranges over the result of registry.Get
	getCalls := g.callNodes(kRegGet)
	okRange := false
	if len(getCalls) >= 1 {
		hv := g.lhsVarOfCall(getCalls[0].n, getCalls[0].cs, 0)
		if hv != nil {
			if id, ok := ast.Unparen(outer.RangeHead.X).(*ast.Ident); ok && info.Uses[id] == hv {
				okRange = true
			}
		}
	}
	c.Check(okRange, rule, short+": loop ranges over the handles fetched from the registry", outer.RangeHead.Pos(), "outer loop ranges over the registry.Get result", "the compared handles are not the slice returned by registry.Get in this function", nil)
	// outer head dominates writes and `true` returns (except the empty-input early return)
	emptyGuards := g.condNodes(func(e ast.Expr) bool {
		be, ok := ast.Unparen(e).(*ast.BinaryExpr)
		if !ok || be.Op != token.EQL {
			return false
		}
		call, ok := ast.Unparen(be.X).(*ast.CallExpr)
		if !ok || len(call.Args) != 1 {
			return false
		}
		if w.resolveCall(f, call).Key != "builtin.len" {
			return false
		}
		id, ok := ast.Unparen(call.Args[0]).(*ast.Ident)
		if !ok {
			return false
		}
		v, _ := info.Uses[id].(*types.Var)
		if v == nil {
			return false
		}
		// a parameter of f
		sig := f.Obj.Type().(*types.Signature)
		for i := 0; i < sig.Params().Len(); i++ {
			if sig.Params().At(i) == v {
				lit, ok := ast.Unparen(be.Y).(*ast.BasicLit)
				return ok && lit.Value == "0"
			}
		}
		return false
	})
	trueRet := func(n *GNode) bool {
		if n.Ret == nil {
			return false
		}
		e := retResult(n, 0)
		return e != nil && isBoolLit(info, e, true)
	}
	target := or(regWrite, trueRet)
	cut := edgeCut(emptyGuards, 1)
	rr := g.Reach([]int{g.Entry}, func(n *GNode) bool { return n == outer }, cut)
	offs = nil
	for _, n := range g.Nodes {
		if rr.Seen[n.ID] && target(n) {
			offs = append(offs, Offence{n, rr.Path(n.ID)})
		}
	}
	c.Offences(g, offs, rule, short+": success and writes only after the comparison loop", f.Decl.Pos(), "`return true` and registry/blob writes are reachable only through the handles loop (empty input excepted)", "a success return or a write bypasses the version comparison loop")
}

func runC02(c *Ctx) {
	w := c.W
	// ---- R1 ----
	r1 := c.Rule("R1", "phase1Commit: the success return is reachable only after every lock and validation step, with the retry flag tracked path-sensitively; each validator's boolean result is assigned to the retry flag", 18)
	f := w.Fn(kTxp1)
	g := w.G(f)
	c.Analysed(f)
	// the retry flag: LHS[0] of the commitUpdatedNodes call
	cu := g.callNodes(kNRBcommitUpdated)
	if len(cu) != 1 {
		c.Violated(r1, "phase1Commit: commitUpdatedNodes call", f.Decl.Pos(), fmt.Sprintf("expected one call, found %d", len(cu)), nil)
		return
	}
	flag := g.lhsVarOfCall(cu[0].n, cu[0].cs, 0)
	if flag == nil {
		c.Violated(r1, "phase1Commit: commitUpdatedNodes result feeds the retry flag", cu[0].cs.Call.Pos(), "the boolean result of commitUpdatedNodes is not assigned to a variable", nil)
		return
	}
	// flag must be the loop condition variable: some cond node `!flag` heads a for loop
	// (conditions are expanded into short-circuit leaves with `!` folded into the edge
	// polarity, so `for !flag` appears as a leaf `flag` whose FALSE edge enters the body)
	loopConds := g.condNodes(func(e ast.Expr) bool {
		id, ok := e.(*ast.Ident)
		return ok && f.Pkg.TypesInfo.Uses[id] == flag
	})
	isLoopCond := false
	for _, lc := range loopConds {
		if lc.Block != nil && lc.Block.Kind.String() == "ForLoop" {
			isLoopCond = true
		}
	}
	c.Check(isLoopCond, r1, "phase1Commit: retry loop is controlled by the validators' flag", cu[0].cs.Call.Pos(), "the variable receiving commitUpdatedNodes' result is the `for !flag` loop condition", "the retry loop is not controlled by the flag that receives the validators' results", nil)
	for _, v := range []string{kNRBcommitNewRoot, kNRBfetchedIntact, kNRBcommitUpdated, kNRBcommitRemoved} {
		cn := g.callNodes(v)
		ok := len(cn) == 1 && g.lhsVarOfCall(cn[0].n, cn[0].cs, 0) == flag
		pos := f.Decl.Pos()
		if len(cn) > 0 {
			pos = cn[0].cs.Call.Pos()
		}
		c.Check(ok, r1, "phase1Commit: result of "+shortKey(v)+" feeds the retry flag", pos, "boolean result assigned to the retry flag", "the validator's boolean result is not assigned to the retry flag (conflict would not force a retry)", nil)
	}
	// success exits: nil returns not guarded by the nothing-to-commit early exit
	early := g.condNodes(func(e ast.Expr) bool { return w.mentionsCall(f, e, kTxHasTracked) })
	earlyCut := edgeCut(early, 2) // hasTrackedItems() == false
	rAll := g.Reach([]int{g.Entry}, nil, earlyCut)
	var success []*GNode
	for _, n := range g.retNodes(RetNil) {
		if rAll.Seen[n.ID] {
			success = append(success, n)
		}
	}
	c.Check(len(success) == 1, r1, "phase1Commit: one success exit", f.Decl.Pos(), "exactly one nil return besides the nothing-to-commit early exit", fmt.Sprintf("found %d nil returns besides the early exit", len(success)), nil)
	isSuccess := nodeSet(success)
	bt := g.trackBools(flag)
	must := []string{kTxLockTracked, kL2Lock, kL2IsLocked, kTxCommitValues, kNRBcommitNewRoot, kNRBfetchedIntact, kNRBcommitUpdated, kNRBcommitRemoved, kNRBcommitAdded, kTxCommitStores, kNRBactivate, kNRBtouch, kTxCheckTracked, kTxNodesKeysLocked}
	for _, m := range must {
		stop := calls(m)
		// paths through the early exit are excluded by stopping at its guard's true edge
		r := bt.Reach([]int{g.Entry}, bt.initial(), stop)
		var offs []Offence
		for _, s := range success {
			if r.Node(s.ID) {
				offs = append(offs, Offence{s, r.Path(s.ID)})
			}
		}
		c.Offences(g, offs, r1, "phase1Commit: success passes "+shortKey(m), f.Decl.Pos(), "every feasible path to the success return calls "+shortKey(m), "success return reachable without "+shortKey(m))
	}
	// validation happens under the node locks: Lock and IsLocked precede each validator
	for _, v := range []string{kNRBfetchedIntact, kNRBcommitUpdated, kNRBcommitRemoved, kNRBcommitAdded} {
		offs := g.MustPrecede(calls(kL2Lock), calls(v))
		c.Offences(g, offs, r1, "phase1Commit: node keys locked before "+shortKey(v), f.Decl.Pos(), "l2Cache.Lock precedes the call on every path", "validator reachable without taking the node-key locks")
	}
	// failure edges of the item-lock / post-loop checks lead to error returns only
	for _, v := range []string{kTxLockTracked, kTxCheckTracked} {
		for _, nc := range g.callNodes(v) {
			fail, _, ok := g.ErrBranches(nc.n, nc.cs)
			if !ok {
				c.Violated(r1, fmt.Sprintf("phase1Commit: error of %s #%d is tested", shortKey(v), ordinalOf(w, f, nc.cs)), nc.cs.Call.Pos(), "error result not tested", nil)
				continue
			}
			r := g.Reach(fail, nil, nil)
			var offs []Offence
			for _, s := range success {
				if r.Seen[s.ID] {
					offs = append(offs, Offence{s, r.Path(s.ID)})
				}
			}
			c.Offences(g, offs, r1, fmt.Sprintf("phase1Commit: failed %s #%d cannot reach success", shortKey(v), ordinalOf(w, f, nc.cs)), nc.cs.Call.Pos(), "the failure edge never reaches the success return", "success return reachable after the check failed")
		}
	}
	// nodesKeysNilOrLocked: `!ok || err != nil` branch must re-lock (DualLock) or return non-nil
	for _, nc := range g.callNodes(kTxNodesKeysLocked) {
		okv := g.lhsVarOfCall(nc.n, nc.cs, 0)
		if okv == nil {
			c.Violated(r1, "phase1Commit: nodesKeysNilOrLocked result is tested", nc.cs.Call.Pos(), "result not bound", nil)
			continue
		}
		notOk := g.condNodes(func(e ast.Expr) bool {
			id, isID := e.(*ast.Ident)
			return isID && f.Pkg.TypesInfo.Uses[id] == okv
		})
		starts := branchStarts(notOk, 2)
		offs := g.MustFollowFrom(starts, calls(kL2DualLock), isSuccess)
		c.Offences(g, offs, r1, "phase1Commit: lost node locks are re-acquired or the commit fails", nc.cs.Call.Pos(), "from the `!ok` edge the success return is reachable only through DualLock", "success return reachable after the node locks were found lost, without re-locking")
		c.Check(len(notOk) >= 1, r1, "phase1Commit: nodesKeysNilOrLocked result is tested", nc.cs.Call.Pos(), "`!ok` is branched on", "the boolean result is never tested", nil)
	}

	// ---- R2 ----
	r2 := c.Rule("R2", "commitUpdatedNodes / commitRemovedNodes / areFetchedItemsIntact: for every fetched handle, Version != node version returns false before any write", 18)
	versionLoopRule(c, r2, kNRBcommitUpdated, true)
	versionLoopRule(c, r2, kNRBcommitRemoved, true)
	versionLoopRule(c, r2, kNRBfetchedIntact, true)

	// ---- R3 ----
	r3 := c.Rule("R3", "read-only commit: Phase1Commit routes ForReading to commitForReaderTransaction, which returns nil only when areFetchedItemsIntact returned true (or there is nothing tracked)", 4)
	{
		f := w.Fn(kTxReaderCommit)
		g := w.G(f)
		c.Analysed(f)
		info := f.Pkg.TypesInfo
		fi := g.callNodes(kNRBfetchedIntact)
		if len(fi) != 1 {
			c.Violated(r3, "commitForReaderTransaction: areFetchedItemsIntact call", f.Decl.Pos(), fmt.Sprintf("expected one call, found %d", len(fi)), nil)
		} else {
			okv := g.lhsVarOfCall(fi[0].n, fi[0].cs, 0)
			okConds := g.condNodes(func(e ast.Expr) bool {
				id, isID := e.(*ast.Ident)
				return isID && okv != nil && info.Uses[id] == okv
			})
			earlyNone := g.condNodes(func(e ast.Expr) bool { return w.mentionsCall(f, e, kTxHasTracked) })
			earlyMode := g.condNodes(func(e ast.Expr) bool {
				return mentionsObj(info, e, w.Field("common", "Transaction", "mode")) && mentionsObj(info, e, w.Object("sop", "ForWriting"))
			})
			cut := func(from *GNode, e Edge) bool {
				return edgeCut(okConds, 1)(from, e) || edgeCut(earlyNone, 2)(from, e) || edgeCut(earlyMode, 1)(from, e)
			}
			offs := g.ReachableWithout(cut, func(n *GNode) bool { return n.Ret != nil && g.ClassifyReturn(n) != RetNonNil })
			c.Offences(g, offs, r3, "commitForReaderTransaction: nil only when fetched items are intact", fi[0].cs.Call.Pos(), "every possibly-nil return is behind the `ok` edge of areFetchedItemsIntact or the nothing-tracked/writer early exits", "a nil (or unknown) return is reachable without areFetchedItemsIntact having returned true")
			// the validation is re-run after every refetch: from refetch success the only way to nil return is via the check again
			for _, nc := range g.callNodes(kTxRefetch) {
				offs := g.MustFollow([]*GNode{nc.n}, calls(kNRBfetchedIntact), func(n *GNode) bool { return n.Ret != nil && g.ClassifyReturn(n) == RetNil })
				c.Offences(g, offs, r3, "commitForReaderTransaction: refetch is followed by re-validation", nc.cs.Call.Pos(), "after refetchAndMergeModifications a nil return requires another areFetchedItemsIntact", "nil return reachable after refetch without re-validation")
			}
		}
		// routing in Phase1Commit
		fp := w.Fn(kTxP1)
		gp := w.G(fp)
		c.Analysed(fp)
		modeFld := w.Field("common", "Transaction", "mode")
		forReading := w.Object("sop", "ForReading")
		rc := gp.condNodes(func(e ast.Expr) bool {
			be, ok := ast.Unparen(e).(*ast.BinaryExpr)
			return ok && be.Op == token.EQL && mentionsObj(fp.Pkg.TypesInfo, be, modeFld) && mentionsObj(fp.Pkg.TypesInfo, be, forReading)
		})
		okRoute := false
		if len(rc) == 1 {
			// on the true edge the next return returns the reader commit's result
			r := gp.Reach(branchStarts(rc, 1), isReturn, nil)
			okRoute = true
			cnt := 0
			for _, n := range gp.Nodes {
				if r.Seen[n.ID] && n.Ret != nil {
					cnt++
					if !w.mentionsCall(fp, n.Ret, kTxReaderCommit) {
						okRoute = false
					}
				}
			}
			okRoute = okRoute && cnt >= 1
		}
		c.Check(okRoute, r3, "Phase1Commit: ForReading returns commitForReaderTransaction's verdict", fp.Decl.Pos(), "mode == ForReading branch returns t.commitForReaderTransaction(ctx)", "read-only transactions are not validated by commitForReaderTransaction", nil)
		// and that branch precedes phase1Commit / is not bypassed: phase1Commit unreachable on true edge
		if len(rc) == 1 {
			r := gp.Reach(branchStarts(rc, 1), nil, nil)
			var offs []Offence
			for _, n := range gp.Nodes {
				if r.Seen[n.ID] && calls(kTxp1)(n) {
					offs = append(offs, Offence{n, r.Path(n.ID)})
				}
			}
			c.Offences(gp, offs, r3, "Phase1Commit: readers never run the writer commit", fp.Decl.Pos(), "phase1Commit is unreachable on the ForReading edge", "phase1Commit reachable for a reader")
		}
	}

	// ---- R4 ---- merge replay
	r4 := c.Rule("R4", "refetchAndMergeClosure: for non-add actions the item's version is compared with versionInDB before the replay, and every replayed B-tree call's failure fails the merge", 7)
	mergeRules(c, r4)

	// ---- R5 ---- item locks
	r5 := c.Rule("R5", "itemActionTracker.lock: fetch-set-fetch; isLockOwner only on LockID equality after the verifying read; a foreign incompatible lock is a conflict error in lock and in checkTrackedItems", 8)
	itemLockRules(c, r5)

	r6 := c.Rule("R6", "no dirty reads through the node cache: the host-wide L1 cache stores clones and hands out materialised copies only, so one transaction's uncommitted node edits cannot be read by another (shared with C38.R2/R3)", 3)
	l1IsolationRules(c, r6, r6)

	r7 := c.Rule("R7", "what the commit-time merge replays is what the caller did: the item RemoveCurrentItem registers with ItemActionTracker.Remove is the item that was at the cursor when the call began - every definition of the registered variable reads the current item's slot before the cursor is moved to the leaf successor (moveToNext); a definition after that registers the successor's removal instead", 2)
	{
		f := w.Fn("btree.Btree.RemoveCurrentItem")
		g := w.G(f)
		c.Analysed(f)
		info := f.Pkg.TypesInfo
		tracked := map[types.Object]bool{}
		nReg := 0
		for _, nc := range g.callNodes("btree.ItemActionTracker.Remove") {
			nReg++
			for _, a := range nc.cs.Call.Args {
				ast.Inspect(a, func(x ast.Node) bool {
					if id, ok := x.(*ast.Ident); ok {
						if v, ok := info.Uses[id].(*types.Var); ok && !v.IsField() && v.Parent() != v.Pkg().Scope() && id.Name != "ctx" {
							tracked[v] = true
						}
					}
					return true
				})
			}
		}
		c.Check(nReg >= 1 && len(tracked) >= 1, r7, "RemoveCurrentItem: registers the removal with the item action tracker", f.Decl.Pos(), fmt.Sprintf("%d registration(s)", nReg), "no ItemActionTracker.Remove call with a local item found", nil)
		moved := g.Find(calls("btree.Node.moveToNext", "btree.Node.moveToPrevious"))
		r := g.Reach(idsOf(moved), nil, nil)
		var offs []Offence
		for _, n := range g.Nodes {
			if !r.Seen[n.ID] {
				continue
			}
			isMove := false
			for _, m := range moved {
				if m == n {
					isMove = true
				}
			}
			if isMove {
				continue
			}
			for v := range tracked {
				if g.assignsObj(n, v) {
					offs = append(offs, Offence{n, r.Path(n.ID)})
				}
			}
		}
		c.Offences(g, offs, r7, "RemoveCurrentItem: the registered item is not re-assigned after the cursor moved", f.Decl.Pos(), "the registered variable is defined from the slot at the cursor before moveToNext only",
			"the variable handed to ItemActionTracker.Remove is assigned again after the cursor was moved to the leaf successor: removing an item that sits in an inner node records the SUCCESSOR's removal (and locks the successor's id); the first commit attempt writes the nodes as they are, but after a conflict the refetch-and-merge replays the tracker - the item really removed comes back and the successor disappears, with Commit returning nil")
	}

	r8 := c.Rule("R8", "an update leaves a newer item version behind, which is what makes a concurrent reader's commit fail its refetch-and-merge check: in itemActionTracker.Update the version bump is applied to the incoming item (the object the caller writes back into the node slot and the tracker keeps), not to the copy tracked before", 2)
	{
		f := w.Fn("common.itemActionTracker.Update")
		c.Analysed(f)
		info := f.Pkg.TypesInfo
		ver := w.Field("btree", "Item", "Version")
		itemP := f.Obj.Type().(*types.Signature).Params().At(1)
		n := 0
		var bad []string
		var pos token.Pos
		ast.Inspect(f.Body, func(x ast.Node) bool {
			inc, ok := x.(*ast.IncDecStmt)
			if !ok || inc.Tok != token.INC || fieldOfSelector(info, inc.X) != ver {
				return true
			}
			n++
			sel := ast.Unparen(inc.X).(*ast.SelectorExpr)
			id, isID := ast.Unparen(sel.X).(*ast.Ident)
			if !isID || info.Uses[id] != types.Object(itemP) {
				bad = append(bad, types.ExprString(inc.X))
				pos = inc.Pos()
			}
			return true
		})
		if pos == token.NoPos {
			pos = f.Decl.Pos()
		}
		c.Check(n >= 1, r8, "Update: the item's version is bumped", f.Decl.Pos(), fmt.Sprintf("%d bump site(s)", n), "no Version++ in itemActionTracker.Update", nil)
		c.Check(len(bad) == 0, r8, "Update: the bump is applied to the incoming item", pos, "item.Version++",
			fmt.Sprintf("the version bump targets %v: the callers hand Update a COPY of the node slot and write that copy back afterwards, so a bump on the previously tracked object is overwritten - a read-modify-write commits with an unchanged item version, and a transaction that read the old value passes its refetch-and-merge check and overwrites it (lost update)", bad), nil)
	}

}

func shortKey(k string) string {
	for i := len(k) - 1; i >= 0; i-- {
		if k[i] == '.' {
			return k[i+1:]
		}
	}
	return k
}
