package main

// C12: creating and removing stores is transactional and complete.

import (
	"fmt"
	"go/ast"
	"go/token"
	"go/types"
	"sort"
	"strings"
)

func init() {
	register("C12", propMeta{
		Explanation:  "Decides the structure store creation/removal relies on: (R1) common.NewBtree logs the createStore step before StoreRepository.Add, marks the backend as created (created=true) only on the success edge of that Add, and every other construction passes false; the live rollback removes exactly the backends marked created, under committedState >= createStore; (R2) remove-only-what-you-created: every StoreRepository.Remove call in package common is one of the three justified sites - the live rollback (guarded by the created flag), the replay of a dead transaction's createStore log record, and NewBtree's cleanup after a failed Add, which must be conditioned on a re-read of the store showing that nothing readable exists or that the store found carries this transaction's pre-assigned root node id (never unconditional: the Add also fails when a concurrent creator won); (R3) in fs.StoreRepository.Add and Remove the whole read-modify-write of the store list (GetAll, the duplicate-name test, the list write) happens after the store-list lock was acquired and the lock is released by a deferred Unlock; Add rejects a name already in the list before writing anything; (R4) removing a store reaches the recursive folder removal and drops the name from the list: infs.RemoveBtree reaches fs.StoreRepository.Remove, which calls removeStore for every name, evicts the cached StoreInfo and rewrites the list. R1 also requires that nothing but committedState comparisons, the created flag and the loop over the backends gates the removal of created stores in the live rollback. (R5) in the replay of a dead transaction's log, a createStore record that names a store always reaches StoreRepository.Remove: nothing but the test for the record's payload stands between the key test and the removal.",
		DoesNotCover: "That a recreated store starts empty with the new options (runtime contents), concurrent creation across processes with a failing lock service, and the Cassandra StoreRepository sibling are not decided.",
	}, runC12)
}

func runC12(c *Ctx) {
	w := c.W
	r1 := c.Rule("R1", "NewBtree: createStore logged before StoreRepository.Add; created=true only after Add succeeded; rollback removes exactly the created backends", 6)
	fn := w.Fn("common.NewBtree")
	gn := w.G(fn)
	c.Analysed(fn)
	infoN := fn.Pkg.TypesInfo
	createStore := w.Object("common", "createStore")
	logCreate := func(n *GNode) bool {
		for _, cs := range n.Calls {
			if cs.Key == kLoggerLog && len(cs.Call.Args) >= 2 && mentionsObj(infoN, cs.Call.Args[1], createStore) {
				return true
			}
		}
		return false
	}
	adds := gn.callNodes(kSRAdd)
	c.Check(len(adds) == 1, r1, "NewBtree: one StoreRepository.Add", fn.Decl.Pos(), "one", fmt.Sprintf("found %d", len(adds)), nil)
	offs := gn.MustPrecede(logCreate, calls(kSRAdd))
	c.Offences(gn, offs, r1, "NewBtree: createStore is logged before the store is added", fn.Decl.Pos(), "logger.log(createStore) precedes StoreRepository.Add", "a store can be created in the repository without a log record that lets rollback/recovery remove it")
	// constructions
	ctor := "common.newBtreeWithTransaction"
	var trueCalls, otherCalls []*GNode
	for _, nc := range gn.callNodes(ctor) {
		last := nc.cs.Call.Args[len(nc.cs.Call.Args)-1]
		if isBoolLit(infoN, last, true) {
			trueCalls = append(trueCalls, nc.n)
		} else if isBoolLit(infoN, last, false) {
			otherCalls = append(otherCalls, nc.n)
		} else {
			c.Violated(r1, "NewBtree: created flag is a literal", nc.cs.Call.Pos(), "the created argument is not a boolean literal", nil)
		}
	}
	c.Check(len(trueCalls) == 1 && len(otherCalls) >= 1, r1, "NewBtree: constructions with created=true / false", fn.Decl.Pos(), fmt.Sprintf("%d / %d", len(trueCalls), len(otherCalls)), fmt.Sprintf("found %d / %d", len(trueCalls), len(otherCalls)), nil)
	if len(adds) == 1 {
		fail, succ, ok := gn.ErrBranches(adds[0].n, adds[0].cs)
		c.Check(ok, r1, "NewBtree: result of StoreRepository.Add is tested", adds[0].cs.Call.Pos(), "tested", "error not tested", nil)
		if ok {
			okT := true
			for _, tc := range trueCalls {
				cut := func(from *GNode, e Edge) bool {
					for _, s := range succ {
						if e.To == s && from == adds[0].n {
							return false
						}
					}
					return false
				}
				_ = cut
				// reachable from the failure edge => violation; not reachable without passing Add => ok
				if gn.Reach(fail, nil, nil).Seen[tc.ID] || len(gn.MustPrecede(calls(kSRAdd), func(n *GNode) bool { return n == tc })) != 0 {
					okT = false
				}
			}
			c.Check(okT, r1, "NewBtree: created=true only after StoreRepository.Add succeeded", fn.Decl.Pos(), "reachable only through Add's success edge", "a backend can be marked created although the store was not added by this transaction (rollback would remove someone else's store)", nil)
			for _, oc := range otherCalls {
				if !gn.Reach([]int{gn.Entry}, calls(kSRAdd), nil).Seen[oc.ID] {
					c.Violated(r1, "NewBtree: existing stores are opened with created=false", oc.Ast.Pos(), "a created=false construction lies behind StoreRepository.Add", nil)
				}
			}
		}
	}
	// rollback: removal guarded by created and by >= createStore
	fr := w.Fn(kTxrb)
	gr := w.G(fr)
	c.Analysed(fr)
	infoR := fr.Pkg.TypesInfo
	created := w.Field("common", "btreeBackend", "created")
	crC := gr.condNodes(func(e ast.Expr) bool { return fieldOfSelector(infoR, e) == created })
	rm := calls(kSRRemove)
	state := w.Field("common", "transactionLog", "committedState")
	stC := gr.condNodes(func(e ast.Expr) bool {
		be, ok := e.(*ast.BinaryExpr)
		return ok && be.Op == token.GEQ && fieldOfSelector(infoR, be.X) == state && mentionsObj(infoR, be.Y, createStore)
	})
	okRB := len(gr.Find(rm)) == 1 && len(crC) >= 1 && len(stC) == 1 && len(gr.notOnlyVia(stC, 1, rm)) == 0
	if okRB {
		// the created test that guards the removal: the one from whose true edge Remove is reached within the iteration
		okRB = false
		for _, cn := range crC {
			if len(gr.notOnlyVia([]*GNode{cn}, 1, rm)) == 0 {
				okRB = true
			}
		}
	}
	c.Check(okRB, r1, "rollback: removes exactly the stores this transaction created", fr.Decl.Pos(), "StoreRepository.Remove only under committedState >= createStore and backend.created", "the live rollback can remove a store this transaction did not create, or never removes the one it created", nil)
	// ... and under nothing else: every condition that gates the removal is a committedState comparison,
	// the created test, or the loop over the backends
	for _, rn := range gr.Find(rm) {
		var extra []string
		var at *GNode
		for _, cn := range gr.Nodes {
			if !cn.IsCond || cn.Ast == nil || cn.RangeHead != nil {
				continue
			}
			gates := false
			for _, br := range []int{1, 2} {
				if len(gr.ReachableWithout(edgeCut([]*GNode{cn}, br), func(n *GNode) bool { return n == rn })) == 0 {
					gates = true
				}
			}
			if !gates {
				continue
			}
			e, _ := cn.Ast.(ast.Expr)
			okCond := false
			if e != nil {
				ast.Inspect(e, func(x ast.Node) bool {
					if sx, ok := x.(ast.Expr); ok {
						if fv := fieldOfSelector(infoR, sx); fv == state || fv == created {
							okCond = true
						}
					}
					return true
				})
				if _, isIdx := e.(*ast.BinaryExpr); !okCond && isIdx {
					// the counted-loop form `i < len(t.btreesBackend)`
					if be := e.(*ast.BinaryExpr); be.Op == token.LSS {
						okCond = true
					}
				}
			}
			if !okCond && e != nil {
				extra = append(extra, types.ExprString(e))
				if at == nil {
					at = cn
				}
			}
		}
		pos := rn.Ast.Pos()
		if at != nil {
			pos = at.Ast.Pos()
		}
		c.Check(len(extra) == 0, r1, "rollback: nothing but the commit state and the created flag gates the removal of created stores", pos, "gating conditions are committedState comparisons and backend.created",
			fmt.Sprintf("the removal of the stores this transaction created additionally depends on `%s`: a rollback in which that does not hold (the in-loop rollback rewinds committedState and drops the createStore log record) leaves the created store behind with nothing left to remove it", strings.Join(extra, "`, `")), nil)
	}

	r2 := c.Rule("R2", "every StoreRepository.Remove in package common is one of the three justified sites", 3)
	{
		type site struct {
			f  *Func
			cs *CallSite
		}
		var sites []site
		for _, f := range w.declaredFuncs("common") {
			for _, cs := range w.AllSites(f) {
				if cs.Key == kSRRemove {
					sites = append(sites, site{f, cs})
				}
			}
		}
		sort.Slice(sites, func(i, j int) bool { return sites[i].cs.Call.Pos() < sites[j].cs.Call.Pos() })
		for _, s := range sites {
			root := s.cs.In
			for root.Parent != nil {
				root = root.Parent
			}
			construct := fmt.Sprintf("%s: StoreRepository.Remove #%d is justified", shortKey(root.Key), ordinalOf(w, root, s.cs))
			switch root.Key {
			case kTxrb:
				c.Check(okRB, r2, construct, s.cs.Call.Pos(), "guarded by backend.created (R1)", "not guarded by the created flag", nil)
			case kTLRollback:
				g := w.G(s.cs.In)
				info := s.cs.In.Pkg.TypesInfo
				keyC := g.condNodes(func(e ast.Expr) bool {
					be, ok := e.(*ast.BinaryExpr)
					return ok && be.Op == token.EQL && mentionsObj(info, be.Y, createStore)
				})
				var node *GNode
				for _, n := range g.Nodes {
					for _, x := range n.Calls {
						if x == s.cs {
							node = n
						}
					}
				}
				ok := node != nil && len(keyC) == 1 && len(g.notOnlyVia(keyC, 1, func(n *GNode) bool { return n == node })) == 0
				c.Check(ok, r2, construct, s.cs.Call.Pos(), "only for a logged createStore record of the dead transaction", "the replay removes a store without a createStore record", nil)
			case "common.NewBtree":
				var node *GNode
				for _, n := range gn.Nodes {
					for _, x := range n.Calls {
						if x == s.cs {
							node = n
						}
					}
				}
				// must lie on the failure edge of Add, and be guarded by conditions over a re-read of the store:
				// a Get/GetWithTTL call after the failed Add whose result is compared (root id equality / emptiness)
				ok := node != nil && len(adds) == 1
				detail := ""
				if ok {
					fail, _, tested := gn.ErrBranches(adds[0].n, adds[0].cs)
					ok = tested && gn.Reach(fail, nil, nil).Seen[node.ID] && !gn.Reach([]int{gn.Entry}, calls(kSRAdd), nil).Seen[node.ID]
					if ok {
						reread := func(n *GNode) bool {
							return calls("sop.StoreRepository.Get", "sop.StoreRepository.GetWithTTL")(n) && gn.Reach(fail, nil, nil).Seen[n.ID]
						}
						root := w.Field("sop", "StoreInfo", "RootNodeID")
						idEq := gn.condNodes(func(e ast.Expr) bool {
							be, isBE := e.(*ast.BinaryExpr)
							return isBE && be.Op == token.EQL && fieldOfSelector(infoN, be.X) == root && fieldOfSelector(infoN, be.Y) == root
						})
						if len(gn.MustFollowFrom(fail, reread, func(n *GNode) bool { return n == node })) != 0 {
							ok = false
							detail = "the store is not re-read between the failed Add and the removal"
						} else if len(idEq) == 0 {
							ok = false
							detail = "no comparison of the found store's RootNodeID with this transaction's pre-assigned id"
						} else {
							// the only ways to the removal: the id-equality true edge, or a "nothing readable" edge
							// (error / empty result tests) - i.e. never via the id-equality FALSE edge
							r := gn.Reach(branchStarts(idEq, 2), nil, nil)
							if r.Seen[node.ID] {
								ok = false
								detail = "the removal is reachable although the store found carries another creator's root node id"
							}
						}
					} else {
						detail = "the removal is not confined to the failure edge of StoreRepository.Add"
					}
				}
				c.Check(ok, r2, construct, s.cs.Call.Pos(), "cleanup only when nothing readable exists or the store found is this transaction's own",
					"NewBtree removes the store after a failed Add without establishing that it is its own ("+detail+"): when the Add failed because a concurrent creator already added that name, the winner's store is deleted", nil)
			default:
				c.Violated(r2, construct, s.cs.Call.Pos(), "StoreRepository.Remove called from an unexpected function of package common", nil)
			}
		}
		c.Check(len(sites) >= 3, r2, "StoreRepository.Remove sites in package common", token.NoPos, fmt.Sprintf("%d", len(sites)), fmt.Sprintf("expected the three known sites, found %d", len(sites)), nil)
	}

	r3 := c.Rule("R3", "fs.StoreRepository.Add/Remove: the store-list read-modify-write happens under the store-list lock, released by defer; Add rejects an existing name before writing", 8)
	for _, k := range []string{"fs.StoreRepository.Add", "fs.StoreRepository.Remove"} {
		f := w.Fn(k)
		g := w.G(f)
		c.Analysed(f)
		lock := w.callsReaching(kL2DualLock)
		name := shortKey(k)
		for _, inside := range []struct{ key, what string }{
			{"fs.StoreRepository.GetAll", "read of the store list"},
			{"fs.fileIO.write", "write of the store list / store files"},
			{"fs.fileIO.removeStore", "removal of the store folder"},
			{"fs.fileIO.createStore", "creation of the store folder"},
		} {
			if len(g.callNodes(inside.key)) == 0 {
				continue
			}
			offs := g.MustPrecede(lock, calls(inside.key))
			c.Offences(g, offs, r3, name+": "+inside.what+" happens under the store-list lock", f.Decl.Pos(), "DualLock (via Retry) precedes it on every path", inside.what+" can happen without holding the store-list lock: two creators can both pass the duplicate-name test, or one rewrites the list from a stale snapshot")
		}
		c.Check(len(g.callNodes("fs.StoreRepository.GetAll")) == 1, r3, name+": reads the store list once", f.Decl.Pos(), "one GetAll", "store list is not (or repeatedly) read", nil)
		// lock failure returns before anything else
		var deferUnlock *GNode
		for _, n := range g.Nodes {
			for _, cs := range n.Calls {
				if cs.Key == kL2Unlock && cs.Deferred {
					deferUnlock = n
				}
			}
		}
		okD := deferUnlock != nil && len(g.MustPrecede(func(n *GNode) bool { return n == deferUnlock }, calls("fs.StoreRepository.GetAll"))) == 0
		c.Check(okD, r3, name+": the lock is released by a deferred Unlock registered before the list is read", f.Decl.Pos(), "defer Unlock", "the store-list lock is not released on every exit", nil)
	}
	{
		f := w.Fn("fs.StoreRepository.Add")
		g := w.G(f)
		info := f.Pkg.TypesInfo
		// duplicate test: a comma-ok map lookup keyed by store.Name whose ok edge returns an error, before any write
		nameFld := w.Field("sop", "StoreInfo", "Name")
		var okVar *types.Var
		var lookupNode *GNode
		for _, n := range g.Nodes {
			as, isAs := n.Ast.(*ast.AssignStmt)
			if !isAs || len(as.Lhs) != 2 || len(as.Rhs) != 1 {
				continue
			}
			ix, isIx := ast.Unparen(as.Rhs[0]).(*ast.IndexExpr)
			if !isIx || fieldOfSelector(info, ix.Index) != nameFld {
				continue
			}
			if id, isID := as.Lhs[1].(*ast.Ident); isID {
				okVar, _ = info.Defs[id].(*types.Var)
				lookupNode = n
			}
		}
		ok := okVar != nil
		if ok {
			conds := g.condNodes(func(e ast.Expr) bool { id, isID := e.(*ast.Ident); return isID && info.Uses[id] == okVar })
			ok = len(conds) == 1
			if ok {
				r := g.Reach(branchStarts(conds, 1), isReturn, nil)
				for _, x := range g.Nodes {
					if r.Seen[x.ID] && (x.RangeHead != nil || (x.Ret != nil && g.ClassifyReturn(x) != RetNonNil) || calls("fs.fileIO.write")(x)) {
						ok = false
					}
				}
				// every write is preceded by the duplicate test loop... the loop may run zero times only for no stores
				if len(g.MustPrecede(func(n *GNode) bool {
					return n == lookupNode || (n.RangeHead != nil && enclosingRangeHead(g, lookupNode) == n)
				}, calls("fs.fileIO.write"))) != 0 {
					ok = false
				}
			}
		}
		c.Check(ok, r3, "Add: a name already in the list is rejected before anything is written", f.Decl.Pos(), "duplicate-name test returns an error before the first write", "Add can write the list/store files although the name already exists (two stores under one name)", nil)
	}

	r4 := c.Rule("R4", "removing a store deletes its folder, evicts its cached info and drops it from the list", 4)
	{
		f := w.Fn("infs.RemoveBtree")
		c.Analysed(f)
		path := w.ReachPath(f, keyIn("fs.StoreRepository.Remove"))
		c.Check(path != nil, r4, "infs.RemoveBtree reaches fs.StoreRepository.Remove", f.Decl.Pos(), strings.Join(path, " > "), "RemoveBtree no longer removes the store from the store repository", nil)
		fr := w.Fn("fs.StoreRepository.Remove")
		g := w.G(fr)
		info := fr.Pkg.TypesInfo
		rs := g.callNodes("fs.fileIO.removeStore")
		okLoop := len(rs) == 1
		if okLoop {
			h := enclosingRangeHead(g, rs[0].n)
			sig := fr.Obj.Type().(*types.Signature)
			okLoop = h != nil && mentionsObj(info, h.RangeHead.X, sig.Params().At(1))
			if okLoop {
				// every iteration reaches removeStore (no skip for names missing from the list)
				offs := g.MustFollowFrom(bodyStarts(h), calls("fs.fileIO.removeStore"), func(n *GNode) bool { return n == h })
				okLoop = len(offs) == 0
			}
		}
		c.Check(okLoop, r4, "StoreRepository.Remove: the folder of every named store is removed", fr.Decl.Pos(), "removeStore in the loop over the names, on every iteration", "a named store's folder can be left behind", nil)
		// the list written back is built from the lookup from which the names were deleted
		okDel := false
		ast.Inspect(fr.Body, func(x ast.Node) bool {
			if call, ok := x.(*ast.CallExpr); ok && w.resolveCall(fr, call).Key == "builtin.delete" && len(call.Args) == 2 {
				okDel = true
			}
			return true
		})
		wr := g.callNodes("fs.fileIO.write")
		c.Check(okDel && len(wr) == 1, r4, "StoreRepository.Remove: the name is dropped from the list and the list is written back", fr.Decl.Pos(), "delete(lookup, name) and one list write", "the store list keeps the removed name (a new store of that name cannot be created) or is never rewritten", nil)
		fm := w.Fn("fs.fileIO.removeStore")
		c.Analysed(fm)
		okRA := w.Reaches(fm, func(cs *CallSite) bool { return strings.HasSuffix(cs.Key, ".RemoveAll") })
		c.Check(okRA, r4, "removeStore removes the folder recursively", fm.Decl.Pos(), "reaches RemoveAll", "the store folder is not removed recursively (old blobs/registry segments survive into a recreated store)", nil)
	}

	r5 := c.Rule("R5", "the replay of a dead transaction's log removes the store that transaction created whenever the createStore record names one: nothing but the presence of the record's payload gates the removal", 2)
	{
		f := w.Fn(kTLRollback)
		g := w.G(f)
		c.Analysed(f)
		info := f.Pkg.TypesInfo
		createStore := w.Object("common", "createStore")
		keyC := g.condNodes(func(e ast.Expr) bool {
			be, ok := e.(*ast.BinaryExpr)
			return ok && be.Op == token.EQL && mentionsObj(info, be.Y, createStore)
		})
		val := w.Field("sop", "KeyValuePair", "Value")
		isPayloadTest := func(n *GNode) bool {
			be, ok := n.Ast.(*ast.BinaryExpr)
			if !ok || !n.IsCond || be.Op != token.NEQ || !isNilLit(info, be.Y) {
				return false
			}
			return fieldOfSelector(info, be.X) == val
		}
		branching := func(n *GNode) bool { return len(n.Succs) != 1 }
		ok := len(keyC) == 1
		detail := "the createStore key test was not found"
		pos := f.Decl.Pos()
		if ok {
			pos = keyC[0].Ast.Pos()
			starts := branchStarts(keyC, 1)
			var valC []*GNode
			r := g.Reach(starts, func(n *GNode) bool { return isPayloadTest(n) || calls(kSRRemove)(n) }, nil)
			for _, n := range g.Nodes {
				if !r.Seen[n.ID] {
					continue
				}
				if isPayloadTest(n) {
					valC = append(valC, n)
				} else if branching(n) && !calls(kSRRemove)(n) {
					ok = false
					detail = fmt.Sprintf("`%s` (L%d) stands between the createStore record and the removal", g.nodeText(n), g.line(n))
					pos = n.Ast.Pos()
				}
			}
			if ok {
				var st []int
				if len(valC) == 0 {
					st = starts
				} else {
					st = branchStarts(valC, 1)
				}
				offs := g.MustFollowFrom(st, calls(kSRRemove), branching)
				if len(offs) > 0 {
					ok = false
					n := offs[0].Node
					for _, o := range offs {
						if o.Node.Ast != nil {
							n = o.Node
							break
						}
					}
					detail = fmt.Sprintf("`%s` (L%d) lets a createStore record with a store name pass without StoreRepository.Remove", g.nodeText(n), g.line(n))
					if n.Ast != nil {
						pos = n.Ast.Pos()
					}
				}
			}
		}
		c.Check(len(keyC) == 1, r5, "transactionLog.rollback: createStore record branch inventoried", f.Decl.Pos(), "one key test", fmt.Sprintf("%d createStore key tests", len(keyC)), nil)
		c.Check(ok, r5, "transactionLog.rollback: a createStore record with a payload always reaches StoreRepository.Remove", pos, "straight line from the payload test to the removal",
			"the store a dead transaction created can survive the replay of its log: "+detail+" - the replay restores the count only when the log ran past commitStoreInfo and removes the nodes and registry entries regardless, so a store the dead transaction had populated stays in the catalogue (GetStores lists it, OpenBtree opens it) with its root node gone", nil)
	}
}
