package main

// Path-sensitive reachability over a finite abstract state (P-ABS of DESIGN.md, boolean part):
// the product of the node-level CFG with the values {true,false,unknown} of a few tracked
// boolean variables. Branches on a tracked variable whose value is known are followed only on
// the consistent edge; this removes the infeasible paths that a plain CFG walk would report
// around flag-controlled retry loops (`for !successful { ... if successful { ... } }`).

import (
	"go/ast"
	"go/token"
	"go/types"
	"strings"
)

type boolTracker struct {
	g    *Graph
	vars []*types.Var
	// atoms are side-effect free boolean leaf expressions tracked by their printed form
	// (e.g. "len(x) > 0"); their value is forgotten when a variable they mention is assigned.
	atoms    []string
	atomVars [][]types.Object
}

func (g *Graph) trackBools(vars ...*types.Var) *boolTracker { return &boolTracker{g: g, vars: vars} }

// trackAtom adds a leaf expression to the tracked state and returns its index in the state.
func (bt *boolTracker) trackAtom(e ast.Expr) int {
	info := bt.g.F.Pkg.TypesInfo
	var vs []types.Object
	ast.Inspect(e, func(n ast.Node) bool {
		if id, ok := n.(*ast.Ident); ok {
			if v, ok := info.Uses[id].(*types.Var); ok {
				vs = append(vs, v)
			}
		}
		return true
	})
	bt.atoms = append(bt.atoms, types.ExprString(e))
	bt.atomVars = append(bt.atomVars, vs)
	return len(bt.vars) + len(bt.atoms) - 1
}

func (bt *boolTracker) initial() string { return strings.Repeat("U", len(bt.vars)+len(bt.atoms)) }

func (bt *boolTracker) idx(o types.Object) int {
	for i, v := range bt.vars {
		if types.Object(v) == o {
			return i
		}
	}
	return -1
}

func setAt(s string, i int, c byte) string {
	b := []byte(s)
	b[i] = c
	return string(b)
}

// effect applies the assignments in node n to the state.
func (bt *boolTracker) effect(n *GNode, s string) string {
	if n.Ast == nil {
		return s
	}
	info := bt.g.F.Pkg.TypesInfo
	as, ok := n.Ast.(*ast.AssignStmt)
	if !ok {
		return s
	}
	for _, l := range as.Lhs {
		if o, _ := lhsObject(info, l); o != nil {
			for ai, vs := range bt.atomVars {
				for _, v := range vs {
					if v == o {
						s = setAt(s, len(bt.vars)+ai, 'U')
					}
				}
			}
		}
	}
	for i, l := range as.Lhs {
		id, ok := ast.Unparen(l).(*ast.Ident)
		if !ok {
			continue
		}
		var o types.Object = info.Uses[id]
		if o == nil {
			o = info.Defs[id]
		}
		k := bt.idx(o)
		if k < 0 {
			continue
		}
		val := byte('U')
		if len(as.Rhs) == len(as.Lhs) {
			if rid, ok := ast.Unparen(as.Rhs[i]).(*ast.Ident); ok {
				if c, ok := info.Uses[rid].(*types.Const); ok && c.Pkg() == nil {
					if rid.Name == "true" {
						val = 'T'
					} else if rid.Name == "false" {
						val = 'F'
					}
				}
			}
		}
		s = setAt(s, k, val)
	}
	return s
}

// branch refines the state along a conditional edge; ok=false when the edge is infeasible.
func (bt *boolTracker) branch(n *GNode, e Edge, s string) (string, bool) {
	if !n.IsCond || e.Cond == 0 || n.Ast == nil {
		return s, true
	}
	ex, ok := n.Ast.(ast.Expr)
	if !ok {
		return s, true
	}
	info := bt.g.F.Pkg.TypesInfo
	neg := false
	ex = ast.Unparen(ex)
	for {
		u, ok := ex.(*ast.UnaryExpr)
		if !ok || u.Op != token.NOT {
			break
		}
		neg = !neg
		ex = ast.Unparen(u.X)
	}
	k := -1
	if id, ok := ex.(*ast.Ident); ok {
		k = bt.idx(info.Uses[id])
	}
	if k < 0 {
		str := types.ExprString(ex)
		for ai, a := range bt.atoms {
			if a == str {
				k = len(bt.vars) + ai
			}
		}
	}
	if k < 0 {
		return s, true
	}
	want := (e.Cond == 1) != neg // value the variable must have on this edge
	switch s[k] {
	case 'T':
		if !want {
			return s, false
		}
	case 'F':
		if want {
			return s, false
		}
	default:
		if want {
			s = setAt(s, k, 'T')
		} else {
			s = setAt(s, k, 'F')
		}
	}
	return s, true
}

type absKey struct {
	id int
	s  string
}

type AbsReach struct {
	g      *Graph
	Seen   map[absKey]bool
	parent map[absKey]absKey
	nodes  map[int]bool
}

// StatesAt returns the abstract states in which node id was reached.
func (r *AbsReach) StatesAt(id int) []string {
	var out []string
	for k := range r.Seen {
		if k.id == id {
			out = append(out, k.s)
		}
	}
	return out
}

// ReachAbs explores (node,state) pairs from the start nodes with the initial state.
// stop(n): n is entered but not left.
func (bt *boolTracker) Reach(starts []int, init string, stop NPred) *AbsReach {
	g := bt.g
	r := &AbsReach{g: g, Seen: map[absKey]bool{}, parent: map[absKey]absKey{}, nodes: map[int]bool{}}
	var queue []absKey
	for _, s := range starts {
		k := absKey{s, init}
		if !r.Seen[k] {
			r.Seen[k] = true
			r.nodes[s] = true
			r.parent[k] = absKey{-1, ""}
			queue = append(queue, k)
		}
	}
	for len(queue) > 0 {
		k := queue[0]
		queue = queue[1:]
		n := g.Nodes[k.id]
		if stop != nil && stop(n) {
			continue
		}
		after := bt.effect(n, k.s)
		for _, e := range n.Succs {
			ns, ok := bt.branch(n, e, after)
			if !ok {
				continue
			}
			nk := absKey{e.To, ns}
			if !r.Seen[nk] {
				r.Seen[nk] = true
				r.nodes[e.To] = true
				r.parent[nk] = k
				queue = append(queue, nk)
			}
		}
	}
	return r
}

func (r *AbsReach) Node(id int) bool { return r.nodes[id] }

// Path returns a witness path (lines) to some state of node id.
func (r *AbsReach) Path(id int) []string {
	var target absKey
	found := false
	for k := range r.Seen {
		if k.id == id {
			target, found = k, true
			break
		}
	}
	if !found {
		return nil
	}
	var ids []int
	for cur := target; cur.id >= 0; cur = r.parent[cur] {
		ids = append(ids, cur.id)
	}
	rr := &ReachResult{g: r.g, parent: map[int]int{}}
	// reuse the line rendering
	for i := 0; i < len(ids); i++ {
		if i+1 < len(ids) {
			rr.parent[ids[i]] = ids[i+1]
		} else {
			rr.parent[ids[i]] = -1
		}
	}
	// the same node may repeat (loops); render manually instead
	var out []string
	last := -1
	for i := len(ids) - 1; i >= 0; i-- {
		n := r.g.Nodes[ids[i]]
		if n.Exit {
			out = append(out, "EXIT")
			continue
		}
		if n.Ast == nil {
			continue
		}
		l := r.g.line(n)
		if l == last {
			continue
		}
		last = l
		out = append(out, "L"+itoa(l))
	}
	if len(out) > 50 {
		out = append(out[:25], append([]string{"..."}, out[len(out)-24:]...)...)
	}
	return out
}

func itoa(i int) string {
	if i == 0 {
		return "0"
	}
	neg := i < 0
	if neg {
		i = -i
	}
	var b []byte
	for i > 0 {
		b = append([]byte{byte('0' + i%10)}, b...)
		i /= 10
	}
	if neg {
		b = append([]byte{'-'}, b...)
	}
	return string(b)
}

// localVar finds the local variable (or parameter) named name declared in f (first by position).
func (w *World) localVar(f *Func, name string) *types.Var {
	info := f.Pkg.TypesInfo
	var best *types.Var
	ast.Inspect(f.Body, func(n ast.Node) bool {
		if _, ok := n.(*ast.FuncLit); ok {
			return false
		}
		if id, ok := n.(*ast.Ident); ok && id.Name == name {
			if v, ok := info.Defs[id].(*types.Var); ok {
				if best == nil || v.Pos() < best.Pos() {
					best = v
				}
			}
		}
		return true
	})
	return best
}
