package main

// sopcheck: static checker for the properties in /verif/properties.jsonl of SharedCode/sop.
// Usage: sopcheck -prop C07 [-tier quick|thorough] [-repo /repo] [-verif /verif]
// Exit 0 held (known findings printed), 1 violation, 2 undecided.

import (
	"flag"
	"fmt"
	"os"
	"runtime/debug"
	"sort"
	"strconv"
	"strings"
	"time"
)

type property struct {
	ID   string
	Meta propMeta
	Run  func(c *Ctx)
}

var registry = map[string]*property{}

func register(id string, meta propMeta, run func(c *Ctx)) {
	registry[id] = &property{ID: id, Meta: meta, Run: run}
}

func runProp(w *World, p *property, tier, verifDir string, seed int) (code int) {
	t0 := time.Now()
	c := newCtx(w, p.ID, tier)
	defer func() {
		if r := recover(); r != nil {
			if u, ok := r.(undecided); ok {
				fmt.Printf("UNDECIDED property=%s %s\n", p.ID, u.msg)
			} else {
				fmt.Printf("UNDECIDED property=%s internal error: %v\n%s\n", p.ID, r, debug.Stack())
			}
			code = 2
		}
	}()
	p.Run(c)
	return c.finish(verifDir, p.Meta, t0, seed)
}

func main() {
	prop := flag.String("prop", "", "property id (C01..C38), comma list, or 'all'")
	tier := flag.String("tier", "", "quick or thorough (default $VERIF_TIER or quick)")
	repo := flag.String("repo", "/repo", "repository to analyse")
	verifDir := flag.String("verif", "/verif", "verification directory (evidence, known findings)")
	list := flag.String("list", "", "list function keys containing this substring and exit")
	dump := flag.String("dump", "", "dump the node-level CFG of this function key and exit")
	replay := flag.String("replay", "", "violations file to re-evaluate (re-runs its property)")
	manifest := flag.Bool("manifest", false, "print MANIFEST.json for the registered checks and exit")
	flag.Parse()
	if *manifest {
		emitManifest()
		return
	}
	if *tier == "" {
		*tier = os.Getenv("VERIF_TIER")
	}
	if *tier != "thorough" {
		*tier = "quick"
	}
	seed, _ := strconv.Atoi(os.Getenv("VERIF_SEED"))
	if *replay != "" {
		base := *replay
		if i := strings.LastIndex(base, "/"); i >= 0 {
			base = base[i+1:]
		}
		*prop = strings.SplitN(base, ".", 2)[0]
	}
	w, err := loadWorld(*repo)
	if err != nil {
		fmt.Printf("UNDECIDED load failure: %v\n", err)
		os.Exit(2)
	}
	if *list != "" {
		for _, k := range w.SortedFuncKeys() {
			if strings.Contains(k, *list) {
				fmt.Println(k)
			}
		}
		return
	}
	if *dump != "" {
		dumpGraph(w, *dump)
		return
	}
	var ids []string
	if *prop == "all" {
		for id := range registry {
			ids = append(ids, id)
		}
		sort.Strings(ids)
	} else {
		ids = strings.Split(*prop, ",")
	}
	worst := 0
	for _, id := range ids {
		p := registry[id]
		if p == nil {
			fmt.Printf("UNDECIDED property=%s no such check\n", id)
			os.Exit(2)
		}
		code := runProp(w, p, *tier, *verifDir, seed)
		if code > worst {
			worst = code
		}
	}
	os.Exit(worst)
}

func dumpGraph(w *World, key string) {
	f := w.Fn(key)
	g := w.G(f)
	for _, n := range g.Nodes {
		var cs []string
		for _, c := range n.Calls {
			k := c.Key
			if c.Deferred {
				k = "defer " + k
			}
			cs = append(cs, k)
		}
		var ss []string
		for _, e := range n.Succs {
			ss = append(ss, fmt.Sprintf("%d%s", e.To, [...]string{"", "T", "F"}[e.Cond]))
		}
		extra := ""
		if n.Ret != nil {
			extra = " ret=" + g.ClassifyReturn(n).String()
		}
		fmt.Printf("%3d L%-4d %-60s -> %-12s calls=%v%s\n", n.ID, g.line(n), g.nodeText(n), strings.Join(ss, ","), cs, extra)
	}
}
