package main

import (
	"fmt"
	"go/ast"
	"go/constant"
	"go/token"
	"go/types"
	"sort"
)

const (
	kLoggerLog      = "common.transactionLog.log"
	kPLogAdd        = "sop.TransactionPriorityLog.Add"
	kPLogRemove     = "sop.TransactionPriorityLog.Remove"
	kPLogGet        = "sop.TransactionPriorityLog.Get"
	kPriorityRB     = "common.transactionLog.priorityRollback"
	kDoPriorityRBs  = "common.transactionLog.doPriorityRollbacks"
	kTLRollback     = "common.transactionLog.rollback"
	kTxUnlockNodes  = "common.Transaction.unlockNodesKeys"
	kTxUnlockItems  = "common.Transaction.unlockTrackedItems"
	kTxDelValues    = "common.Transaction.deleteTrackedItemsValues"
	kTxDelObsolete  = "common.Transaction.deleteObsoleteEntries"
	kNRBrbAdded     = "common.nodeRepositoryBackend.rollbackAddedNodes"
	kNRBrbRemoved   = "common.nodeRepositoryBackend.rollbackRemovedNodes"
	kNRBrbUpdated   = "common.nodeRepositoryBackend.rollbackUpdatedNodes"
	kNRBrbNewRoot   = "common.nodeRepositoryBackend.rollbackNewRootNodes"
	kNRBremoveNodes = "common.nodeRepositoryBackend.removeNodes"
	kRemoveLogs     = "common.transactionLog.removeLogs"
	kTLogRemove     = "sop.TransactionLog.Remove"
)

func init() {
	register("C08", propMeta{
		Explanation:  "Decides the write ordering that crash recovery depends on: (R1) every commit step with a persistent effect is logged before it acts (commitUpdatedNodes, which logs the ids it allocated, logs immediately after and from the action's own result), on first and on every repeated execution; (R2) in phase1Commit the priority log of handle pre-images is written before activateInactiveNodes/touchNodes mutate those handles in place, its payload is built from exactly the slices those two calls receive, and it may be skipped only when both slices are empty; (R3) priorityRollback and doPriorityRollbacks write the logged pre-images back and remove the priority log only after the registry write succeeded, and Phase2Commit's failure path restores pre-images (or removes the priority log) before the ordinary rollback; (R4) the file transaction log flushes every record before reporting success and the priority log is written through the checksummed WriteFile path. (R5) restoreFromCow reports success only after it copied the verified backup into the caller's buffer, for read-only callers too (shared with C23.R1). (R6) the priority log of a commit is removed in phase 2 right after the registry flip and before anything deletes obsolete entries (shared with C10.R7): a crash in cleanup must not find a priority log that restores handles whose blobs are already gone.",
		DoesNotCover: "Crash points are not enumerated and recovery is not executed; durability below the OS page cache (no fsync anywhere in the code) is assumed, not checked; torn registry blocks are C22.",
		Assumptions:  []string{"process death, not power loss: a completed write(2) survives"},
	}, runC08)
	register("C07", propMeta{
		Explanation:  "Decides undo coverage and lock release on every error exit: (R1) the table step -> {log site in phase1Commit/NewBtree, guarded undo block in the live rollback, guarded undo block in the dead-transaction log replay} is extracted from the code and must be complete for every step with a persistent effect, each undo calling the matching undo function; (R2) the live-rollback guard of a step whose action performs two persistent effects must also cover the state in which only the first effect happened; (R3) rollback releases node-key locks on every path and item locks once they may have been taken; a failed node-key Lock/DualLock attempt in phase1Commit is followed by Unlock before sleeping or retrying; (R4) log removal is on every terminal path; (R6) the undos that clear whatever reservation / deletion mark / root the registry holds run only under a strict `>` guard whose truth implies the step succeeded for this transaction. (R7) a first root's blob is written before its handle is registered; (R8) what an undo function looks up in the registry is recorded there before the data it leads to is written. (R9) transactionLog.log assigns the step marker on every path, also when the backend rejects the record. (R10) = C03.R8; (R11) the functions phase1Commit calls only to compute a log payload assign no tracker or transaction state; (R12) the rollback list takes an item's current id before the id is reset. (R13) the list returned by getRollbackStoresInfo is positionally paired with btreesBackend in Transaction.rollback (one element per backend, no filtering), because the consumer indexes the created flags with the list position.",
		DoesNotCover: "That the undo functions restore byte-identical state is not decided (C10 decides which ids they may delete); fault schedules are not executed.",
	}, runC07)
}

// commitConst returns the commitFunction constant object named in a logger.log call's 2nd arg.
func logStepOf(f *Func, cs *CallSite) types.Object {
	if cs.Key != kLoggerLog || len(cs.Call.Args) < 2 {
		return nil
	}
	if id, ok := ast.Unparen(cs.Call.Args[1]).(*ast.Ident); ok {
		if c, ok := f.Pkg.TypesInfo.Uses[id].(*types.Const); ok {
			return c
		}
	}
	return nil
}

func logCalls(g *Graph, step types.Object) NPred {
	return func(n *GNode) bool {
		for _, cs := range n.Calls {
			if logStepOf(g.F, cs) == step {
				return true
			}
		}
		return false
	}
}

type logActStep struct{ step, action string }

var logActSteps = []logActStep{
	{"lockTrackedItems", kTxLockTracked},
	{"commitTrackedItemsValues", kTxCommitValues},
	{"commitNewRootNodes", kNRBcommitNewRoot},
	{"commitRemovedNodes", kNRBcommitRemoved},
	{"commitAddedNodes", kNRBcommitAdded},
	{"commitStoreInfo", kTxCommitStores},
}

// logBeforeActRule (C08.R1, rows shared by C15.R6): in phase1Commit every step is logged before it acts, on
// first and on repeated execution (the retry loop's rollback rewinds committedState).
func logBeforeActRule(c *Ctx, r1 string, steps []logActStep) {
	w := c.W
	f := w.Fn(kTxp1)
	g := w.G(f)
	c.Analysed(f)
	for _, s := range steps {
		so := w.Object("common", s.step)
		isLog := logCalls(g, so)
		isAct := calls(s.action)
		nLog := len(g.Find(isLog))
		c.Check(nLog >= 1, r1, "phase1Commit: step "+s.step+" is logged", f.Decl.Pos(), fmt.Sprintf("%d log sites", nLog), "no logger.log call for this step", nil)
		offs := g.MustPrecede(isLog, isAct)
		c.Offences(g, offs, r1, "phase1Commit: log "+s.step+" precedes "+shortKey(s.action), f.Decl.Pos(), "the step is logged before it acts on every path from entry", "the action is reachable without its log record (a crash here leaves effects recovery does not know about)")
		// repeated execution (retry loop): between two executions of the action there is a log
		offs = g.MustFollow(g.Find(isAct), isLog, isAct)
		c.Offences(g, offs, r1, "phase1Commit: re-executed "+shortKey(s.action)+" is re-logged", f.Decl.Pos(), "after the action, it cannot run again without a new log record", "the action can run again in the retry loop without a new log record: the in-loop rollback rewound committedState, so the final rollback (which consults committedState) skips this step's undo")
	}
}

func runC08(c *Ctx) {
	w := c.W
	r1 := c.Rule("R1", "log-before-act for every persistent commit step, on first and repeated execution; commitUpdatedNodes logs the ids it allocated right after the action", 16)
	f := w.Fn(kTxp1)
	g := w.G(f)
	c.Analysed(f)
	logBeforeActRule(c, r1, logActSteps)
	// commitUpdatedNodes: log after, payload from the action's result
	{
		cu := g.callNodes(kNRBcommitUpdated)
		so := w.Object("common", "commitUpdatedNodes")
		if len(cu) == 1 {
			hv := g.lhsVarOfCall(cu[0].n, cu[0].cs, 1)
			isLog := logCalls(g, so)
			logs := g.Find(isLog)
			okPayload := len(logs) == 1 && hv != nil
			if okPayload {
				okPayload = false
				for _, cs := range logs[0].Calls {
					if logStepOf(f, cs) == so && len(cs.Call.Args) == 3 && mentionsObj(f.Pkg.TypesInfo, cs.Call.Args[2], hv) && w.mentionsCall(f, cs.Call.Args[2], "common.extractInactiveBlobsIDs") {
						okPayload = true
					}
				}
			}
			c.Check(okPayload, r1, "phase1Commit: commitUpdatedNodes logs the inactive ids of the handles it returned", cu[0].cs.Call.Pos(), "payload = extractInactiveBlobsIDs(handles returned by commitUpdatedNodes)", "the commitUpdatedNodes log record is not built from the handles the action returned", nil)
			// after the action, every path to the next persistent step passes the log (error returns excepted)
			next := calls(kNRBcommitRemoved, kNRBcommitAdded, kTxCommitStores, kNRBactivate)
			offs := g.MustFollow([]*GNode{cu[0].n}, isLog, next)
			c.Offences(g, offs, r1, "phase1Commit: commitUpdatedNodes is logged before any later step", cu[0].cs.Call.Pos(), "no later commit step is reachable after commitUpdatedNodes without its log record", "a later step can run although the allocated inactive ids were never logged")
		} else {
			c.Violated(r1, "phase1Commit: commitUpdatedNodes call", f.Decl.Pos(), "expected one call", nil)
		}
	}
	// phase2Commit: finalizeCommit logged before the commit point
	{
		f2 := w.Fn(kTxp2)
		g2 := w.G(f2)
		c.Analysed(f2)
		offs := g2.MustPrecede(logCalls(g2, w.Object("common", "finalizeCommit")), calls(kRegUpdNL))
		c.Offences(g2, offs, r1, "phase2Commit: finalizeCommit logged before the registry flip", f2.Decl.Pos(), "log(finalizeCommit) dominates UpdateNoLocks", "registry flip reachable without the finalizeCommit record")
		// and its failure prevents the flip
		for _, n := range g2.Find(logCalls(g2, w.Object("common", "finalizeCommit"))) {
			for _, cs := range n.Calls {
				if cs.Key != kLoggerLog {
					continue
				}
				fail, _, ok := g2.ErrBranches(n, cs)
				if !ok {
					c.Violated(r1, "phase2Commit: finalizeCommit log error tested", cs.Call.Pos(), "error not tested", nil)
					continue
				}
				r := g2.Reach(fail, nil, nil)
				var offs []Offence
				for _, x := range g2.Nodes {
					if r.Seen[x.ID] && calls(kRegUpdNL)(x) {
						offs = append(offs, Offence{x, r.Path(x.ID)})
					}
				}
				c.Offences(g2, offs, r1, "phase2Commit: failed finalizeCommit log stops the commit", cs.Call.Pos(), "the flip is unreachable after the log failed", "the registry flip happens although its log record failed")
			}
		}
	}
	// NewBtree: createStore logged before StoreRepository.Add
	{
		fn := w.Fn("common.NewBtree")
		gn := w.G(fn)
		c.Analysed(fn)
		offs := gn.MustPrecede(logCalls(gn, w.Object("common", "createStore")), calls(kSRAdd))
		c.Offences(gn, offs, r1, "NewBtree: createStore logged before StoreRepository.Add", fn.Decl.Pos(), "log(createStore) dominates StoreRepository.Add", "store creation reachable without its log record")
	}

	// ---- R2 ----
	r2 := c.Rule("R2", "phase1Commit: priority log (handle pre-images) written before activateInactiveNodes/touchNodes mutate the same slices; skipped only when both slices are empty", 5)
	rulePreImagesBeforeFlip(c, r2)

	// ---- R3 ----
	r3 := c.Rule("R3", "pre-image restore: priority log removed only after the registry restore succeeded; Phase2Commit failure restores pre-images (or drops the priority log) before rollback", 6)
	rulePriorityRestore(c, r3)
	{
		fp := w.Fn(kTxP2)
		gp := w.G(fp)
		c.Analysed(fp)
		for _, nc := range gp.callNodes(kTxp2) {
			fail, _, ok := gp.ErrBranches(nc.n, nc.cs)
			if !ok {
				continue
			}
			r := gp.Reach(fail, or(calls(kPriorityRB), calls(kPLogRemove)), nil)
			var offs []Offence
			for _, x := range gp.Nodes {
				if r.Seen[x.ID] && calls(kTxrb)(x) {
					offs = append(offs, Offence{x, r.Path(x.ID)})
				}
			}
			c.Offences(gp, offs, r3, "Phase2Commit: failure restores pre-images before rollback", nc.cs.Call.Pos(), "t.rollback is reached only after priorityRollback or PriorityLog.Remove", "ordinary rollback can run while the priority log still holds un-restored pre-images")
			// priorityRollback is chosen when node keys are held
			nk := gp.condNodes(func(e ast.Expr) bool { return w.mentionsCall(fp, e, "common.Transaction.nodesKeysExist") })
			r2x := gp.Reach(branchStarts(nk, 1), calls(kPriorityRB), nil)
			offs = nil
			for _, x := range gp.Nodes {
				if r2x.Seen[x.ID] && calls(kTxrb)(x) {
					offs = append(offs, Offence{x, r2x.Path(x.ID)})
				}
			}
			c.Check(len(nk) == 1, r3, "Phase2Commit: branches on held node keys", nc.cs.Call.Pos(), "nodesKeysExist() decides between restore and plain log removal", "no branch on nodesKeysExist()", nil)
			c.Offences(gp, offs, r3, "Phase2Commit: held node keys imply priorityRollback", nc.cs.Call.Pos(), "with node keys held, rollback is reached only after priorityRollback", "rollback reachable with node keys held but without priorityRollback")
		}
	}

	// ---- R4 ----
	r4 := c.Rule("R4", "fs.TransactionLog.Add flushes the buffered writer on every path before returning and reports a failed flush; priorityLog.Add writes through WriteFile", 4)
	{
		fa := w.Fn("fs.TransactionLog.Add")
		ga := w.G(fa)
		c.Analysed(fa)
		enc := ga.Find(calls("encoding/json.Encoder.Encode"))
		offs := ga.MustFollow(enc, calls("bufio.Writer.Flush"), func(n *GNode) bool { return n.Exit })
		c.Check(len(enc) == 1, r4, "fs.TransactionLog.Add: one Encode site", fa.Decl.Pos(), "found", fmt.Sprintf("found %d Encode sites", len(enc)), nil)
		c.Offences(ga, offs, r4, "fs.TransactionLog.Add: record flushed before return", fa.Decl.Pos(), "every path from Encode to the exit calls writer.Flush", "Add can return with the record still in the bufio buffer")
		// a flush that fails means the record is not in the file: Add must not report success after it
		for _, n := range ga.Find(calls("bufio.Writer.Flush")) {
			for _, cs := range n.Calls {
				if cs.Key != "bufio.Writer.Flush" {
					continue
				}
				construct := fmt.Sprintf("fs.TransactionLog.Add: a failed Flush #%d is reported", ordinalOf(w, fa, cs))
				if n.Ret != nil && len(n.Ret.Results) == 1 && ast.Unparen(n.Ret.Results[0]) == ast.Expr(cs.Call) {
					c.Held(r4, construct, cs.Call.Pos(), "the flush result is returned to the caller")
					continue
				}
				r := ga.Reach([]int{n.ID}, nil, nil)
				nilReachable := false
				for _, x := range ga.Nodes {
					if r.Seen[x.ID] && x.Ret != nil && ga.ClassifyReturn(x) != RetNonNil {
						nilReachable = true
					}
				}
				if !nilReachable {
					c.Held(r4, construct, cs.Call.Pos(), "every return after this flush is an error return already")
					continue
				}
				fail, _, ok := ga.ErrBranches(n, cs)
				if !ok {
					c.Violated(r4, construct, cs.Call.Pos(), "the error of writer.Flush is dropped and Add can return nil after it: a record that did not reach the log file (disk full, I/O error) is reported as logged, and the commit performs the step without durable undo information", nil)
					continue
				}
				rf := ga.Reach(fail, nil, nil)
				var offs []Offence
				for _, x := range ga.Nodes {
					if rf.Seen[x.ID] && x.Ret != nil && ga.ClassifyReturn(x) != RetNonNil {
						offs = append(offs, Offence{x, rf.Path(x.ID)})
					}
				}
				c.Offences(ga, offs, r4, construct, cs.Call.Pos(), "the failure edge of Flush reaches only error returns", "Add can return nil after a failed flush")
			}
		}
		fpl := w.Fn("fs.priorityLog.Add")
		gpl := w.G(fpl)
		c.Analysed(fpl)
		offs = gpl.MustPrecede(w.callsReaching("fs.FileIO.WriteFile", "fs.fileIO.WriteFile", "os.WriteFile", "fs.defaultFileIO.WriteFile"), func(n *GNode) bool { return n.Ret != nil && gpl.ClassifyReturn(n) == RetNil })
		c.Offences(gpl, offs, r4, "fs.priorityLog.Add: nil only after the file write", fpl.Decl.Pos(), "nil return dominated by a WriteFile call", "priorityLog.Add can report success without writing the file")
	}
	r5 := c.Rule("R5", "a registry block torn by a crash is served from its pre-image to every reader: restoreFromCow reports success only after it copied the verified backup into the caller's buffer, also for read-only callers that cannot write the block back (shared with C23.R1)", 2)
	cowRestoreRule(c, r5)
	r6 := c.Rule("R6", "the priority log (meaning `undo this transaction's flip` to recovery) is removed before the commit's obsolete blobs are deleted: a crash inside the post-commit cleanup must not leave a log that makes recovery restore handles whose blobs are gone (shared with C10.R7)", 2)
	priorityLogBeforeDeletionRule(c, r6)
}

// rulePriorityRestore (first half of C08.R3, shared by C09.R3): the priority log is removed only after
// the registry restore of its pre-images succeeded.
func rulePriorityRestore(c *Ctx, r3 string) {
	w := c.W
	for _, key := range []string{kPriorityRB, kDoPriorityRBs} {
		fx := w.Fn(key)
		gx := w.G(fx)
		c.Analysed(fx)
		upd := gx.callNodes(kRegUpdNL)
		if len(upd) != 1 {
			c.Violated(r3, shortKey(key)+": restores through UpdateNoLocks", fx.Decl.Pos(), fmt.Sprintf("expected one UpdateNoLocks, found %d", len(upd)), nil)
			continue
		}
		fail, _, ok := gx.ErrBranches(upd[0].n, upd[0].cs)
		if !ok {
			c.Violated(r3, shortKey(key)+": restore error tested", upd[0].cs.Call.Pos(), "error not tested", nil)
			continue
		}
		r := gx.Reach(fail, isReturn, nil)
		var offs []Offence
		for _, x := range gx.Nodes {
			if r.Seen[x.ID] && (calls(kPLogRemove)(x) || (x.Ret != nil && gx.ClassifyReturn(x) != RetNonNil) || x.RangeHead != nil) {
				offs = append(offs, Offence{x, r.Path(x.ID)})
			}
		}
		c.Offences(gx, offs, r3, shortKey(key)+": failed restore keeps the priority log and reports an error", upd[0].cs.Call.Pos(), "after a failed registry restore only error returns are reachable, not PriorityLog.Remove", "the priority log can be removed (or success reported) although the registry restore failed")
		// the restored payload comes from the priority log
		info := fx.Pkg.TypesInfo
		okSrc := false
		if len(upd[0].cs.Call.Args) == 3 {
			if id, ok := ast.Unparen(upd[0].cs.Call.Args[2]).(*ast.Ident); ok {
				v := info.Uses[id]
				for _, ws := range w.writesOf(fx, v, false) {
					if ws.Rhs != nil && (w.mentionsCall(fx, ws.Rhs, kPLogGet) || w.mentionsCall(fx, ws.Rhs, "sop.TransactionPriorityLog.GetBatch") || mentionsBatchValue(info, ws.Rhs)) {
						okSrc = true
					}
				}
			}
		}
		c.Check(okSrc, r3, shortKey(key)+": restores the logged handles", upd[0].cs.Call.Pos(), "UpdateNoLocks argument is the payload read from the priority log", "the handles written back are not the ones read from the priority log", nil)
		// Remove is preceded by the restore
		offs = gx.MustPrecede(calls(kRegUpdNL), func(n *GNode) bool {
			if !calls(kPLogRemove)(n) {
				return false
			}
			// priorityRollback's `if uhAndrh == nil { return Remove }` (nothing logged) is the accepted idiom
			return !(n.Ret != nil && key == kPriorityRB && dominatedByNilPayload(gx, n))
		})
		c.Offences(gx, offs, r3, shortKey(key)+": priority log removed only after the restore", upd[0].cs.Call.Pos(), "PriorityLog.Remove is dominated by the registry restore (empty payload excepted)", "priority log removable without restoring its pre-images")
	}
}

// rulePreImagesBeforeFlip (C08.R2, shared by C07.R5 and C37.R2): see DESIGN.md C08.
func rulePreImagesBeforeFlip(c *Ctx, r2 string) {
	w := c.W
	f := w.Fn(kTxp1)
	g := w.G(f)
	c.Analysed(f)
	{
		act := g.callNodes(kNRBactivate)
		tch := g.callNodes(kNRBtouch)
		add := g.callNodes(kPLogAdd)
		if len(act) != 1 || len(tch) != 1 || len(add) != 1 {
			c.Violated(r2, "phase1Commit: priority-log inventory", f.Decl.Pos(), fmt.Sprintf("expected one activateInactiveNodes, touchNodes, PriorityLog.Add; found %d/%d/%d", len(act), len(tch), len(add)), nil)
		} else {
			info := f.Pkg.TypesInfo
			argVar := func(cs *CallSite, i int) *types.Var {
				if len(cs.Call.Args) <= i {
					return nil
				}
				if id, ok := ast.Unparen(cs.Call.Args[i]).(*ast.Ident); ok {
					v, _ := info.Uses[id].(*types.Var)
					return v
				}
				return nil
			}
			uv, rv := argVar(act[0].cs, 0), argVar(tch[0].cs, 0)
			okVars := uv != nil && rv != nil
			c.Check(okVars, r2, "phase1Commit: flipped slices are local variables", act[0].cs.Call.Pos(), "activateInactiveNodes/touchNodes receive local slices", "cannot identify the slices that are flipped in place", nil)
			if okVars {
				// provenance of the slices: results of commitUpdatedNodes / commitRemovedNodes
				cu, cr := g.callNodes(kNRBcommitUpdated), g.callNodes(kNRBcommitRemoved)
				okProv := len(cu) == 1 && len(cr) == 1 && g.lhsVarOfCall(cu[0].n, cu[0].cs, 1) == uv && g.lhsVarOfCall(cr[0].n, cr[0].cs, 1) == rv
				c.Check(okProv, r2, "phase1Commit: flipped slices are the handles staged by commitUpdatedNodes/commitRemovedNodes", act[0].cs.Call.Pos(), "same variables", "the handles flipped are not the ones returned by the staging steps", nil)
				pay := add[0].cs.Call.Args
				okPay := len(pay) == 3 && mentionsObj(info, pay[2], uv) && mentionsObj(info, pay[2], rv)
				c.Check(okPay, r2, "phase1Commit: priority log payload holds both slices", add[0].cs.Call.Pos(), "payload mentions the updated and the removed handles", "the priority log payload does not contain both the updated and removed handles", nil)
				// path-sensitive: reaching activate/touch without Add only in the state both-empty
				bt := g.trackBools()
				var iu, ir = -1, -1
				for _, n := range g.Nodes {
					if !n.IsCond || n.Ast == nil {
						continue
					}
					be, ok := n.Ast.(*ast.BinaryExpr)
					if !ok || be.Op != token.GTR {
						continue
					}
					call, ok := ast.Unparen(be.X).(*ast.CallExpr)
					if !ok || len(call.Args) != 1 || w.resolveCall(f, call).Key != "builtin.len" {
						continue
					}
					lit, ok := ast.Unparen(be.Y).(*ast.BasicLit)
					if !ok || lit.Value != "0" {
						continue
					}
					if id, ok := ast.Unparen(call.Args[0]).(*ast.Ident); ok {
						if info.Uses[id] == uv && iu < 0 {
							iu = bt.trackAtom(be)
						}
						if info.Uses[id] == rv && ir < 0 {
							ir = bt.trackAtom(be)
						}
					}
				}
				r := bt.Reach([]int{g.Entry}, bt.initial(), calls(kPLogAdd))
				var offs []Offence
				for _, t := range []*GNode{act[0].n, tch[0].n} {
					for _, st := range r.StatesAt(t.ID) {
						if iu < 0 || ir < 0 || st[iu] != 'F' || st[ir] != 'F' {
							offs = append(offs, Offence{t, r.Path(t.ID)})
							break
						}
					}
				}
				c.Offences(g, offs, r2, "phase1Commit: pre-images logged before the in-place flip", add[0].cs.Call.Pos(), "activateInactiveNodes/touchNodes are reachable without PriorityLog.Add only when both handle slices are empty", "handles can be flipped in memory before (or without) their pre-images reaching the priority log")
				// Add failure stops phase 1
				fail, _, ok := g.ErrBranches(add[0].n, add[0].cs)
				if ok {
					rr := g.Reach(fail, nil, nil)
					var offs []Offence
					for _, x := range g.Nodes {
						if rr.Seen[x.ID] && (x == act[0].n || x == tch[0].n) {
							offs = append(offs, Offence{x, rr.Path(x.ID)})
						}
					}
					c.Offences(g, offs, r2, "phase1Commit: failed priority log stops the commit", add[0].cs.Call.Pos(), "no flip after a failed PriorityLog.Add", "flip reachable after the priority log write failed")
				} else {
					c.Violated(r2, "phase1Commit: failed priority log stops the commit", add[0].cs.Call.Pos(), "PriorityLog.Add error not tested", nil)
				}
			}
		}
	}

}

func mentionsBatchValue(info *types.Info, e ast.Expr) bool {
	// v[i].Value of the GetBatch result
	s, ok := ast.Unparen(e).(*ast.SelectorExpr)
	return ok && s.Sel.Name == "Value"
}

// dominatedByNilPayload: node n is reachable only through the true edge of `<payload> == nil`.
func dominatedByNilPayload(g *Graph, n *GNode) bool {
	info := g.F.Pkg.TypesInfo
	conds := g.condNodes(func(e ast.Expr) bool {
		be, ok := e.(*ast.BinaryExpr)
		return ok && be.Op == token.EQL && isNilLit(info, be.Y)
	})
	offs := g.notOnlyVia(conds, 1, func(x *GNode) bool { return x == n })
	return len(offs) == 0 && len(conds) > 0
}

// ---- C07 -------------------------------------------------------------------------------

type undoRow struct {
	step       string
	undo       []string // undo function keys (any of)
	liveOps    []token.Token
	twoEffects bool
}

var undoTable = []undoRow{
	{"commitStoreInfo", []string{kSRUpdate}, []token.Token{token.GTR}, false},
	{"commitAddedNodes", []string{kNRBrbAdded}, []token.Token{token.GTR, token.GEQ}, true},
	{"commitRemovedNodes", []string{kNRBrbRemoved}, []token.Token{token.GTR}, false},
	{"commitUpdatedNodes", []string{kNRBrbUpdated}, []token.Token{token.GTR, token.GEQ}, true},
	{"commitNewRootNodes", []string{kNRBrbNewRoot}, []token.Token{token.GTR, token.GEQ}, true},
	{"commitTrackedItemsValues", []string{kTxDelValues}, []token.Token{token.GEQ}, false},
	{"lockTrackedItems", []string{kTxUnlockItems}, []token.Token{token.GEQ}, false},
	{"createStore", []string{kSRRemove}, []token.Token{token.GEQ}, false},
	{"beforeFinalize", []string{kPLogRemove}, []token.Token{token.GEQ}, false},
}

// stateGuards finds `committedState OP K` leaves in g and returns (node, op, K).
type stateGuard struct {
	n  *GNode
	op token.Token
	k  types.Object
}

func stateGuards(w *World, g *Graph, subject func(e ast.Expr) bool) []stateGuard {
	info := g.F.Pkg.TypesInfo
	var out []stateGuard
	for _, n := range g.Nodes {
		if !n.IsCond || n.Ast == nil {
			continue
		}
		be, ok := n.Ast.(*ast.BinaryExpr)
		if !ok {
			// a one-line predicate helper `func (t) stepX(f) bool { return <subject> OP f }` called with a
			// step constant is the same guard (extract-helper refactoring)
			if call, isCall := n.Ast.(*ast.CallExpr); isCall && len(call.Args) == 1 {
				cf := w.CalleeFunc(w.resolveCall(g.F, call))
				aid, isID := ast.Unparen(call.Args[0]).(*ast.Ident)
				if cf != nil && cf.Decl != nil && isID && len(cf.Body.List) == 1 && cf.Decl.Type.Params.NumFields() == 1 {
					if k, isConst := info.Uses[aid].(*types.Const); isConst {
						if rs, isRet := cf.Body.List[0].(*ast.ReturnStmt); isRet && len(rs.Results) == 1 {
							if hb, isBE := ast.Unparen(rs.Results[0]).(*ast.BinaryExpr); isBE {
								hinfo := cf.Pkg.TypesInfo
								par := cf.Obj.Type().(*types.Signature).Params().At(0)
								if pid, isP := ast.Unparen(hb.Y).(*ast.Ident); isP && hinfo.Uses[pid] == types.Object(par) {
									// subject is evaluated against the helper's own type info: compare by field object
									if sel := fieldOfSelector(hinfo, hb.X); sel != nil && subjectField(subject, info, hinfo, hb.X) {
										out = append(out, stateGuard{n, hb.Op, k})
									}
								}
							}
						}
					}
				}
			}
			continue
		}
		if !subject(be.X) {
			continue
		}
		id, ok := ast.Unparen(be.Y).(*ast.Ident)
		if !ok {
			continue
		}
		k, ok := info.Uses[id].(*types.Const)
		if !ok {
			continue
		}
		out = append(out, stateGuard{n, be.Op, k})
	}
	return out
}

// subjectField: the helper's left operand denotes the same field the caller-side subject predicate
// accepts. Subject predicates are closures over one types.Info; in the same package the field
// objects are shared, so evaluating the predicate on the helper's expression is meaningful when the
// predicate only looks at field objects (fieldOfSelector).
func subjectField(subject func(e ast.Expr) bool, callerInfo, helperInfo *types.Info, e ast.Expr) bool {
	if callerInfo != helperInfo {
		return false
	}
	return subject(e)
}

func runC07(c *Ctx) {
	r1 := c.Rule("R1", "undo table: every persistent commit step has a guarded undo block, calling the matching undo function, in the live rollback and in the dead-transaction log replay", 25)
	r2 := c.Rule("R2", "partial step: a step whose action performs two persistent effects must be undone by the live rollback also when only the first effect happened (guard must include the step itself)", 3)
	r3 := c.Rule("R3", "rollback releases node-key locks on every path (pre-commit and already-committed early exits excepted) and item locks once lockTrackedItems was logged; a failed node-key lock attempt is followed by Unlock before sleeping/retrying", 5)
	r5 := c.Rule("R5", "a Phase2Commit failure can only be undone if the priority log holds handle PRE-images: it is written before the in-place flip (shared with C08.R2)", 5)
	r4 := c.Rule("R4", "transaction logs are removed on every terminal path: rollback -> removeLogs, cleanup -> removeLogs, log replay -> TransactionLog.Remove", 3)
	commitUndoRules(c, r1, r2, r3, r5, r4)
	r7 := c.Rule("R7", "a first root's handle is registered only after its blob was written: the root id is published in StoreInfo.RootNodeID, so a registered handle without a blob is reachable data that does not load, and (the partial step not being undone, R2) it blocks every later creator of that root for good, whereas an orphan blob is overwritten by the retry", 1)
	rootBlobBeforeHandleRule(c, r7)
	failedFlipKeepsKeysRule(c, r5)
	r13 := c.Rule("R13", "the count reversal of a failed commit is applied to the right stores: positional pairing of the rollback store infos with the backends' created flags (shared with C01.R9 / C06.R5)", 3)
	positionalPairingRule(c, r13)
	r12 := c.Rule("R12", "what a rollback deletes is what this transaction wrote: the rollback list takes an item's current id before the id is reset (shared with C19.R7)", 2)
	rollbackListOrderRule(c, r12)
	r11 := c.Rule("R11", "building a log record changes nothing: the functions phase1Commit calls only to compute the payload of logger.log(...) do not assign tracker or transaction state - the rollback of a commit that fails later calls the same getters again and must see what the first call saw", 3)
	payloadPurityRule(c, r11)
	r10 := c.Rule("R10", "a rollback never deletes a committed value: an actively persisted store writes updated values before the commit point under a fresh blob id, whether or not the value was read first (shared with C03.R8)", 2)
	activePersistRekeyRule(c, r10)
	r9 := c.Rule("R9", "the step marker is the step whose log write was attempted: transactionLog.log assigns committedState = f on every path, also when the backend rejects the record - rollback's strict `>` guards read a failed log of step S as `S-1 completed, S not started`", 2)
	stepMarkerRule(c, r9)
	r8 := c.Rule("R8", "what an undo function looks up in the registry is recorded there before the data it leads to is written (derived from the undo functions; shared with C11.R5)", 3)
	undoDiscoveryRule(c, r8)
	r6 := c.Rule("R6", "undo functions that cannot tell this transaction's state from a competitor's run only in a state that implies the step succeeded for this transaction (shared with C37.R4)", 6)
	foreignBlindUndoRule(c, r6)
}

// commitUndoRules: the undo-table rules shared by C07 (all sections) and C11 (undo table, partial
// steps, log removal; r3/r5 empty).
func commitUndoRules(c *Ctx, r1, r2, r3, r5, r4 string) {
	w := c.W
	fr := w.Fn(kTxrb)
	gr := w.G(fr)
	c.Analysed(fr)
	infoR := fr.Pkg.TypesInfo
	csFld := w.Field("common", "transactionLog", "committedState")
	live := stateGuards(w, gr, func(e ast.Expr) bool { return fieldOfSelector(infoR, e) == csFld })
	ft := w.Fn(kTLRollback)
	gt := w.G(ft)
	c.Analysed(ft)
	infoT := ft.Pkg.TypesInfo
	kvKey := func(e ast.Expr) bool { // committedFunctionLogs[i].Key
		s, ok := ast.Unparen(e).(*ast.SelectorExpr)
		return ok && s.Sel.Name == "Key"
	}
	replayKey := stateGuards(w, gt, kvKey)
	lastVar := w.localVar(ft, "lastCommittedFunctionLog")
	replayLast := stateGuards(w, gt, func(e ast.Expr) bool {
		id, ok := ast.Unparen(e).(*ast.Ident)
		return ok && lastVar != nil && infoT.Uses[id] == lastVar
	})
	// the enumeration: every constant of type commitFunction block is either in the table or has no persistent effect
	for _, row := range undoTable {
		ko := w.Object("common", row.step)
		// live
		var lg *stateGuard
		for i := range live {
			if live[i].k == ko {
				lg = &live[i]
			}
		}
		if lg == nil {
			c.Violated(r1, "rollback: undo block for "+row.step, fr.Decl.Pos(), "no `committedState OP "+row.step+"` guard in the live rollback", nil)
		} else {
			okOp := false
			for _, op := range row.liveOps {
				if lg.op == op {
					okOp = true
				}
			}
			c.Check(okOp, r1, "rollback: guard operator for "+row.step, lg.n.Ast.Pos(), "guard `committedState "+lg.op.String()+" "+row.step+"`", "guard operator "+lg.op.String()+" does not undo a step that may have acted", nil)
			// the undo call is reachable only through the guard's true edge and is reached on it
			r := gr.Reach(branchStarts([]*GNode{lg.n}, 1), func(n *GNode) bool {
				for _, g2 := range live {
					if g2.n == n && g2.n != lg.n {
						return true
					}
				}
				return false
			}, nil)
			found := false
			for _, x := range gr.Nodes {
				if r.Seen[x.ID] && (calls(row.undo...)(x) || w.callsReaching(row.undo...)(x)) {
					found = true
				}
			}
			c.Check(found, r1, "rollback: "+row.step+" undone by "+shortKey(row.undo[0]), lg.n.Ast.Pos(), "the guarded block calls the undo function", "the guarded block no longer calls "+shortKey(row.undo[0]), nil)
			if row.twoEffects {
				c.Check(lg.op == token.GEQ, r2, "rollback: partial "+row.step+" is undone", lg.n.Ast.Pos(), "guard includes the step itself (>=)",
					"guard is `> "+row.step+"`: if the step's first persistent effect succeeds and its second fails, committedState still equals (or precedes) the step and the first effect is never undone", nil)
			}
		}
		// replay
		if row.step == "lockTrackedItems" || row.step == "beforeFinalize" {
			continue // locks expire by TTL; priority logs are recovered by doPriorityRollbacks
		}
		var rg *stateGuard
		for i := range replayKey {
			if replayKey[i].k == ko && replayKey[i].op == token.EQL {
				rg = &replayKey[i]
			}
		}
		if rg == nil {
			c.Violated(r1, "log replay: undo block for "+row.step, ft.Decl.Pos(), "no `Key == "+row.step+"` block in transactionLog.rollback", nil)
			continue
		}
		undo := row.undo
		if row.step == "commitUpdatedNodes" {
			undo = []string{kNRBremoveNodes}
		}
		if row.step == "commitTrackedItemsValues" {
			undo = []string{kTxDelValues}
		}
		r := gt.Reach(branchStarts([]*GNode{rg.n}, 1), func(n *GNode) bool {
			for _, g2 := range replayKey {
				if g2.n == n && g2.n != rg.n {
					return true
				}
			}
			return n.RangeHead != nil
		}, nil)
		found := false
		for _, x := range gt.Nodes {
			if r.Seen[x.ID] && calls(undo...)(x) {
				found = true
			}
		}
		c.Check(found, r1, "log replay: "+row.step+" undone by "+shortKey(undo[0]), rg.n.Ast.Pos(), "the replay block calls the undo function", "the replay block no longer calls "+shortKey(undo[0]), nil)
		// sibling agreement: the replay undoes the step in every last-logged state in which the live
		// rollback undoes it (a `lastCommittedFunctionLog OP K` gate of the undo call may be wider, never narrower)
		if lg != nil {
			starts := branchStarts([]*GNode{rg.n}, 1)
			stop := func(n *GNode) bool {
				for _, g2 := range replayKey {
					if g2.n == n && g2.n != rg.n {
						return true
					}
				}
				return n.RangeHead != nil
			}
			stepVal, okS := constInt(ko)
			narrower := ""
			var at *GNode
			for _, gl := range replayLast {
				if !r.Seen[gl.n.ID] {
					continue
				}
				// does gl gate the undo call? cut its true edge and see whether the call is still reachable
				r2 := gt.Reach(starts, stop, edgeCut([]*GNode{gl.n}, 1))
				gates := false
				for _, x := range gt.Nodes {
					if r.Seen[x.ID] && calls(undo...)(x) && !r2.Seen[x.ID] {
						gates = true
					}
				}
				kv, okK := constInt(gl.k)
				if !gates || !okS || !okK {
					continue
				}
				for _, st := range constsOfBlock(w, ko) {
					sv, _ := constInt(st)
					if sv >= stepVal && holdsOp(sv, lg.op, stepVal) && !holdsOp(sv, gl.op, kv) {
						narrower = fmt.Sprintf("a transaction that died with `%s` as its last logged step is undone by the live rollback (`committedState %s %s`) but skipped by the replay (`lastCommittedFunctionLog %s %s`)", st.Name(), lg.op, row.step, gl.op, gl.k.Name())
						at = gl.n
						break
					}
				}
			}
			pos := rg.n.Ast.Pos()
			if at != nil {
				pos = at.Ast.Pos()
			}
			c.Check(narrower == "", r1, "log replay: "+row.step+" is undone in every state the live rollback undoes it", pos, "replay gate is at least as wide as the live guard", narrower+": what the dead transaction did in that step is never undone and its log is removed", nil)
		}
	}
	// the live rollback consults every guard on every path: no early return between guards
	{
		early := gr.condNodes(func(e ast.Expr) bool {
			be, ok := e.(*ast.BinaryExpr)
			if !ok || fieldOfSelector(infoR, be.X) != csFld {
				return false
			}
			id, ok := ast.Unparen(be.Y).(*ast.Ident)
			if !ok {
				return false
			}
			return (be.Op == token.EQL && id.Name == "addActivelyPersistedItem") || (be.Op == token.GTR && id.Name == "finalizeCommit")
		})
		c.Check(len(early) == 2, r1, "rollback: early exits inventory", fr.Decl.Pos(), "pre-commit state and already-committed state are the only early exits", fmt.Sprintf("found %d early-exit guards, expected 2", len(early)), nil)
		// accepted idiom: a boolean parameter that switches one undo off for the internal retry
		// rollback (`rollbackTrackedItemsValues && committedState >= ...`)
		sig := fr.Obj.Type().(*types.Signature)
		paramFlags := gr.condNodes(func(e ast.Expr) bool {
			id, ok := e.(*ast.Ident)
			if !ok {
				return false
			}
			for i := 0; i < sig.Params().Len(); i++ {
				if infoR.Uses[id] == sig.Params().At(i) {
					return true
				}
			}
			return false
		})
		cutEarly := edgeCut(early, 1)
		cutFlag := edgeCut(paramFlags, 2)
		cut := func(from *GNode, e Edge) bool { return cutEarly(from, e) || cutFlag(from, e) }
		for _, lgd := range live {
			isUndoRow := false
			for _, row := range undoTable {
				if w.Object("common", row.step) == lgd.k {
					isUndoRow = true
				}
			}
			if !isUndoRow {
				continue
			}
			r := gr.Reach([]int{gr.Entry}, func(n *GNode) bool { return n == lgd.n }, cut)
			var offs []Offence
			if r.Seen[gr.Exit] {
				offs = append(offs, Offence{gr.Nodes[gr.Exit], r.Path(gr.Exit)})
			}
			c.Offences(gr, offs, r1, "rollback: guard for "+lgd.k.Name()+" is evaluated on every path", lgd.n.Ast.Pos(), "no exit bypasses this undo guard", "rollback can return before evaluating this undo guard")
		}
	}

	if r3 != "" {
		// ---- R3 locks ----
		{
			early := gr.condNodes(func(e ast.Expr) bool {
				be, ok := e.(*ast.BinaryExpr)
				if !ok || fieldOfSelector(infoR, be.X) != csFld {
					return false
				}
				id, ok := ast.Unparen(be.Y).(*ast.Ident)
				return ok && ((be.Op == token.EQL && id.Name == "addActivelyPersistedItem") || (be.Op == token.GTR && id.Name == "finalizeCommit"))
			})
			r := gr.Reach([]int{gr.Entry}, calls(kTxUnlockNodes), edgeCut(early, 1))
			var offs []Offence
			if r.Seen[gr.Exit] {
				offs = append(offs, Offence{gr.Nodes[gr.Exit], r.Path(gr.Exit)})
			}
			c.Offences(gr, offs, r3, "rollback: node-key locks released on every path", fr.Decl.Pos(), "every path to the exit calls unlockNodesKeys", "rollback can return holding the node-key locks")
			// unlockNodesKeys really unlocks
			fu := w.Fn(kTxUnlockNodes)
			gu := w.G(fu)
			c.Analysed(fu)
			nkFld := w.Field("common", "Transaction", "nodesKeys")
			nilGuard := gu.condNodes(func(e ast.Expr) bool {
				be, ok := e.(*ast.BinaryExpr)
				return ok && be.Op == token.EQL && fieldOfSelector(fu.Pkg.TypesInfo, be.X) == nkFld && isNilLit(fu.Pkg.TypesInfo, be.Y)
			})
			ru := gu.Reach([]int{gu.Entry}, calls(kL2Unlock), edgeCut(nilGuard, 1))
			offs = nil
			if ru.Seen[gu.Exit] {
				offs = append(offs, Offence{gu.Nodes[gu.Exit], ru.Path(gu.Exit)})
			}
			c.Offences(gu, offs, r3, "unlockNodesKeys: unlocks unless there are no keys", fu.Decl.Pos(), "l2Cache.Unlock on every path with non-nil keys", "unlockNodesKeys can return without unlocking")
		}
		// phase1Commit: failed lock attempts release before sleeping
		{
			f := w.Fn(kTxp1)
			g := w.G(f)
			c.Analysed(f)
			n := 0
			for _, key := range []string{kL2Lock, kL2DualLock} {
				for _, nc := range g.callNodes(key) {
					starts, tested := g.failStartsOfBoolErrCall(nc.n, nc.cs)
					if !tested {
						continue // the final DualLock re-acquire attempt returns the error directly
					}
					n++
					r := g.Reach(starts, calls(kL2Unlock), nil)
					var offs []Offence
					for _, x := range g.Nodes {
						if r.Seen[x.ID] && (calls("sop.RandomSleep")(x) || (x.Block != nil && x.Block.Kind.String() == "ForLoop")) {
							offs = append(offs, Offence{x, r.Path(x.ID)})
						}
					}
					c.Offences(g, offs, r3, fmt.Sprintf("phase1Commit: failed %s #%d releases before waiting", shortKey(key), ordinalOf(w, f, nc.cs)), nc.cs.Call.Pos(), "Unlock precedes the sleep / next attempt", "a failed lock attempt can sleep or retry while still holding part of the key set (hold-and-wait)")
				}
			}
			c.Check(n >= 2, r3, "phase1Commit: lock attempts inventory", f.Decl.Pos(), fmt.Sprintf("%d tested lock attempts", n), fmt.Sprintf("only %d tested lock attempts found", n), nil)
		}

	}
	if r5 != "" {
		// ---- R5 shared with C08.R2 ----
		rulePreImagesBeforeFlip(c, r5)

	}
	// ---- R4 logs removed ----
	{
		early := gr.condNodes(func(e ast.Expr) bool {
			be, ok := e.(*ast.BinaryExpr)
			if !ok || fieldOfSelector(infoR, be.X) != csFld {
				return false
			}
			id, ok := ast.Unparen(be.Y).(*ast.Ident)
			return ok && be.Op == token.GTR && id.Name == "finalizeCommit"
		})
		r := gr.Reach([]int{gr.Entry}, calls(kRemoveLogs), edgeCut(early, 1))
		var offs []Offence
		if r.Seen[gr.Exit] {
			offs = append(offs, Offence{gr.Nodes[gr.Exit], r.Path(gr.Exit)})
		}
		c.Offences(gr, offs, r4, "rollback: logs removed on every path", fr.Decl.Pos(), "every path calls removeLogs", "rollback can return leaving its transaction log behind")
		fc := w.Fn("common.Transaction.cleanup")
		gc := w.G(fc)
		c.Analysed(fc)
		offs = gc.MustPrecede(calls(kRemoveLogs), func(n *GNode) bool { return n.Ret != nil && gc.ClassifyReturn(n) == RetNil })
		c.Offences(gc, offs, r4, "cleanup: logs removed before success", fc.Decl.Pos(), "nil return dominated by removeLogs", "cleanup can succeed without removing the logs")
		// replay: every exit passes TransactionLog.Remove, except empty log with nil tid
		rt := gt.Reach([]int{gt.Entry}, calls(kTLogRemove), nil)
		offs = nil
		for _, x := range gt.Nodes {
			if rt.Seen[x.ID] && x.Ret != nil && !calls(kTLogRemove)(x) {
				// accepted: `return nil` under len(logs)==0 && tid.IsNil()
				if w.mentionsCall(ft, x.Ret, kTLogRemove) {
					continue
				}
				if gt.ClassifyReturn(x) == RetNil && gt.line(x) > 0 && dominatedByCall(gt, x, "sop.UUID.IsNil") {
					continue
				}
				offs = append(offs, Offence{x, rt.Path(x.ID)})
			}
		}
		c.Offences(gt, offs, r4, "log replay: log file removed on every exit", ft.Decl.Pos(), "every return passes TransactionLog.Remove (nil tid excepted)", "the replay can return leaving the dead transaction's log in place (it would be replayed forever)")
	}
	_ = constant.MakeBool
}

func dominatedByCall(g *Graph, n *GNode, key string) bool {
	conds := g.condNodes(func(e ast.Expr) bool { return g.W.mentionsCall(g.F, e, key) })
	if len(conds) == 0 {
		return false
	}
	// reachable only via some edge of those conds: removing the cond nodes entirely disconnects n
	r := g.Reach([]int{g.Entry}, nodeSet(conds), nil)
	return !r.Seen[n.ID]
}

// rootBlobBeforeHandleRule (C07.R7, shared by C10.R2).
func rootBlobBeforeHandleRule(c *Ctx, r7 string) {
	w := c.W
	f := w.Fn(kNRBcommitNewRoot)
	g := w.G(f)
	c.Analysed(f)
	offs := g.MustPrecede(calls(kBlobAdd), calls(kRegAdd))
	ok := len(g.callNodes(kBlobAdd)) == 1 && len(g.callNodes(kRegAdd)) == 1
	if ok {
		// and registry.Add is unreachable from the failure edge of the blob write
		nc := g.callNodes(kBlobAdd)[0]
		if fail, _, tested := g.ErrBranches(nc.n, nc.cs); tested {
			r := g.Reach(fail, nil, nil)
			for _, x := range g.Find(calls(kRegAdd)) {
				if r.Seen[x.ID] {
					ok = false
				}
			}
		} else {
			ok = false
		}
	}
	if !ok && len(offs) == 0 {
		offs = []Offence{{g.Nodes[g.Entry], nil}}
	}
	c.Offences(g, offs, r7, "commitNewRootNodes: the root blob is written before the root handle is registered", f.Decl.Pos(), "blobStore.Add precedes registry.Add, which is unreachable when the blob write failed",
		"the root handle can be registered before (or without) its blob: a fault at the blob write leaves a registered root with no blob - readers resolve StoreInfo.RootNodeID to a node that does not load, and no later transaction can ever create that root")
}

func constInt(o types.Object) (int64, bool) {
	k, ok := o.(*types.Const)
	if !ok {
		return 0, false
	}
	return constant.Int64Val(constant.ToInt(k.Val()))
}

// constsOfBlock lists the constants declared in the same const ( ... ) block as k, by value.
func constsOfBlock(w *World, k types.Object) []*types.Const {
	var out []*types.Const
	for _, p := range w.Pkgs {
		if p.Types != k.Pkg() {
			continue
		}
		for _, file := range p.Syntax {
			for _, d := range file.Decls {
				gd, ok := d.(*ast.GenDecl)
				if !ok || gd.Tok != token.CONST || k.Pos() < gd.Pos() || k.Pos() > gd.End() {
					continue
				}
				for _, sp := range gd.Specs {
					for _, nm := range sp.(*ast.ValueSpec).Names {
						if cst, ok := p.TypesInfo.Defs[nm].(*types.Const); ok {
							out = append(out, cst)
						}
					}
				}
			}
		}
	}
	sort.SliceStable(out, func(i, j int) bool {
		a, _ := constInt(out[i])
		b, _ := constInt(out[j])
		return a < b
	})
	return out
}

func holdsOp(a int64, op token.Token, b int64) bool {
	switch op {
	case token.GTR:
		return a > b
	case token.GEQ:
		return a >= b
	case token.LSS:
		return a < b
	case token.LEQ:
		return a <= b
	case token.EQL:
		return a == b
	case token.NEQ:
		return a != b
	}
	return true
}

// stepMarkerRule (C07.R9).
func stepMarkerRule(c *Ctx, r9 string) {
	w := c.W
	f := w.Fn(kLoggerLog)
	g := w.G(f)
	c.Analysed(f)
	state := w.Field("common", "transactionLog", "committedState")
	stepP := f.Obj.Type().(*types.Signature).Params().At(1)
	info := f.Pkg.TypesInfo
	set := func(n *GNode) bool {
		as, ok := n.Ast.(*ast.AssignStmt)
		if !ok || len(as.Lhs) != 1 || len(as.Rhs) != 1 {
			return false
		}
		return fieldOfSelector(info, as.Lhs[0]) == state && mentionsObj(info, as.Rhs[0], stepP)
	}
	c.Check(len(g.Find(set)) >= 1, r9, "transactionLog.log: assigns committedState from the step argument", f.Decl.Pos(), fmt.Sprintf("%d assignment(s)", len(g.Find(set))), "committedState is not assigned from the step argument", nil)
	offs := g.MustPrecede(set, func(n *GNode) bool { return n.Ret != nil })
	c.Offences(g, offs, r9, "transactionLog.log: every return follows the assignment of committedState", f.Decl.Pos(), "assigned before the backend write, whatever its outcome",
		"log can return (with the backend's error) without having advanced committedState: the failed commit's rollback then sees the previous step as the current one and, its guards being strict, skips the undo of that fully executed step - staged inactive ids, deleted marks or the store count of a failed commit stay behind and block or mislead later transactions")
}

// payloadPurityRule (C07.R11).
func payloadPurityRule(c *Ctx, r string) {
	w := c.W
	f := w.Fn(kTxp1)
	c.Analysed(f)
	type eff struct {
		fn   *Func
		what string
		pos  token.Pos
	}
	effectsOf := func(root *Func) []eff {
		var out []eff
		seen := map[*Func]bool{}
		var rec func(fn *Func, depth int)
		rec = func(fn *Func, depth int) {
			if fn == nil || seen[fn] || depth > 4 || shortPkgPath(fn.Pkg.PkgPath) != "common" {
				return
			}
			seen[fn] = true
			info := fn.Pkg.TypesInfo
			ast.Inspect(fn.Body, func(x ast.Node) bool {
				as, ok := x.(*ast.AssignStmt)
				if !ok || as.Tok == token.DEFINE {
					return true
				}
				for _, l := range as.Lhs {
					e := ast.Unparen(l)
					if ix, ok := e.(*ast.IndexExpr); ok {
						e = ast.Unparen(ix.X)
					}
					if fv := fieldOfSelector(info, e); fv != nil && sharedRoot(fn, e) {
						out = append(out, eff{fn, fv.Name(), as.Pos()})
					}
				}
				return true
			})
			for _, cs := range w.Sites(fn) {
				rec(w.CalleeFunc(cs), depth+1)
				for _, impl := range implsOf(w, cs) {
					rec(impl, depth+1)
				}
				if fv, ok := cs.Callee.(*types.Var); ok && fv.IsField() {
					for _, tgt := range w.funcFieldTargets(originOf(fv).(*types.Var)) {
						rec(tgt, depth+1)
					}
				}
			}
		}
		rec(root, 0)
		return out
	}
	nBuilders := 0
	reported := map[string]bool{}
	for _, cs := range w.AllSites(f) {
		if cs.Key != kLoggerLog || len(cs.Call.Args) != 3 {
			continue
		}
		step := types.ExprString(cs.Call.Args[1])
		// calls inside the payload expression
		ast.Inspect(cs.Call.Args[2], func(x ast.Node) bool {
			call, ok := x.(*ast.CallExpr)
			if !ok {
				return true
			}
			pcs := w.resolveCall(cs.In, call)
			if pcs == nil {
				return true
			}
			cf := w.CalleeFunc(pcs)
			if cf == nil || shortPkgPath(cf.Pkg.PkgPath) != "common" || cf.Key == "common.toByteArray" {
				return true
			}
			nBuilders++
			effs := effectsOf(cf)
			construct := fmt.Sprintf("phase1Commit: the payload builder of log(%s), %s, assigns no state", step, shortKey(cf.Key))
			if reported[construct] {
				return true
			}
			reported[construct] = true
			var what []string
			pos := cs.Call.Pos()
			for _, e := range effs {
				what = append(what, fmt.Sprintf("%s in %s", e.what, shortKey(e.fn.Key)))
				pos = e.pos
			}
			what = dedup(what)
			c.Check(len(effs) == 0, r, construct, pos, "read-only",
				fmt.Sprintf("computing the log payload assigns %v: called once more by the rollback of a commit that fails afterwards, the getter then yields the ORIGINAL ids of the updated items (their ids were reset by the first call) - the rollback deletes the committed value blobs and leaks the ones the failed transaction wrote; after a successful commit the replaced blobs are never deleted because the deletion queue was cleared", what), nil)
			return true
		})
	}
	c.Check(nBuilders >= 3, r, "phase1Commit: payload builders inventoried", f.Decl.Pos(), fmt.Sprintf("%d builder calls", nBuilders), fmt.Sprintf("only %d", nBuilders), nil)
}

// sharedRoot: the selector chain of an assignment target starts at the receiver, a parameter, or the key/value
// variable of a range over receiver state (whose pointer fields alias it) - as opposed to a value the function
// allocated itself.
func sharedRoot(fn *Func, e ast.Expr) bool {
	info := fn.Pkg.TypesInfo
	for {
		switch x := ast.Unparen(e).(type) {
		case *ast.SelectorExpr:
			e = x.X
			continue
		case *ast.IndexExpr:
			e = x.X
			continue
		case *ast.StarExpr:
			e = x.X
			continue
		case *ast.Ident:
			v, ok := info.Uses[x].(*types.Var)
			if !ok {
				return false
			}
			if fn.Decl != nil {
				if fn.Decl.Recv != nil {
					for _, fld := range fn.Decl.Recv.List {
						for _, nm := range fld.Names {
							if info.Defs[nm] == types.Object(v) {
								return true
							}
						}
					}
				}
				for _, fld := range fn.Decl.Type.Params.List {
					for _, nm := range fld.Names {
						if info.Defs[nm] == types.Object(v) {
							_, isPtr := v.Type().Underlying().(*types.Pointer)
							_, isMap := v.Type().Underlying().(*types.Map)
							return isPtr || isMap
						}
					}
				}
			}
			// range variables over receiver / parameter state
			shared := false
			ast.Inspect(fn.Body, func(y ast.Node) bool {
				rs, ok := y.(*ast.RangeStmt)
				if !ok {
					return true
				}
				for _, kv := range []ast.Expr{rs.Key, rs.Value} {
					if id, ok := kv.(*ast.Ident); ok && info.Defs[id] == types.Object(v) {
						if _, isSel := ast.Unparen(rs.X).(*ast.SelectorExpr); isSel {
							shared = true
						}
					}
				}
				return true
			})
			return shared
		}
		return false
	}
}
