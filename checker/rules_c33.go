package main

// C33: the vector store returns live items and correctly ranked query hits (guards only).

import (
	"fmt"
	"go/ast"
	"go/token"
	"go/types"
	"sort"
	"strings"
)

func init() {
	register("C33", propMeta{
		Explanation:  "Decides the guards around what Get / Query may return; cosine values, distinctness and preservation across Optimize are NOT decided: (R1) Query: candidates are sorted by descending score before selection; the selection loop ranges over the sorted candidates in order, stops once k hits are taken (test at the top of every iteration), and appends a hit only when the Content entry was found, is not marked Deleted, decodes, and passes the filter (filter == nil || filter(payload)); deleted vector keys and nil vectors are skipped while collecting candidates; (R2) Get: an item is returned only when the Content entry was found and is not marked Deleted (both yield an error), and the vector is looked up under the (centroid, distance, id) key; (R3) Delete marks the Content key Deleted through UpdateCurrentKey before any success return for a found item, and Delete / Upsert / UpsertBatch refuse to run while the store is optimizing; (R4) generation agreement of the lazy migration: wherever a function of the package takes an item's centroid from the Next generation (NextCentroidID), it takes the distance from the same generation (NextDistance) on every path before the pair is used - a (new centroid, old distance) pair does not name any vector key. (R5) the deduplication flag (cleanup of an id's previous vector entry) is written by its exported setter only. (R6) the leftover cleanup at the start of Optimize removes every version-qualified store the phases build (lookup, centroids, vectors of version N+1; the set is read off the sop.ConfigureStore name arguments of the Optimize file), so a retry never inserts into a half-built vectors store.",
		DoesNotCover: "Ranking values (cosine), that hits are distinct when stale vectors exist, and that Optimize never loses, duplicates or resurrects items are value/history-level and not decided.",
	}, runC33)
}

func runC33(c *Ctx) {
	w := c.W
	const pk = "ai/vector"
	const bi = "btree.BtreeInterface."
	r1 := c.Rule("R1", "Query: sorted candidates, at most k hits, each found, live and accepted by the filter", 6)
	{
		f := w.Fn(pk + ".domainIndex.Query")
		g := w.G(f)
		c.Analysed(f)
		info := f.Pkg.TypesInfo
		sig := f.Obj.Type().(*types.Signature)
		kPar, filterPar := sig.Params().At(2), sig.Params().At(3)
		final := w.localVar(f, "finalHits")
		cands := w.localVar(f, "candidates")
		if final == nil || cands == nil {
			c.Violated(r1, "Query: result and candidate slices identified", f.Decl.Pos(), "locals finalHits / candidates not found (rule needs re-anchoring)", nil)
		} else {
			appFinal := func(n *GNode) bool { return g.assigns(n, final) && calls("builtin.append")(n) }
			apps := g.Find(appFinal)
			c.Check(len(apps) == 1, r1, "Query: one place appends to the result", f.Decl.Pos(), "one", fmt.Sprintf("found %d", len(apps)), nil)
			// selection loop: range over candidates
			var sel *GNode
			for _, n := range g.Nodes {
				if n.RangeHead != nil && mentionsObj(info, n.RangeHead.X, cands) {
					sel = n
				}
			}
			c.Check(sel != nil, r1, "Query: selection ranges over the candidates in order", f.Decl.Pos(), "for _, hit := range candidates", "the selection loop does not range over the candidate slice", nil)
			sorts := g.callNodes("sort.Slice")
			okSort := false
			for _, s := range sorts {
				if mentionsObj(info, s.cs.Call.Args[0], cands) {
					if lit, ok := ast.Unparen(s.cs.Call.Args[1]).(*ast.FuncLit); ok && len(lit.Body.List) == 1 {
						if rs, ok := lit.Body.List[0].(*ast.ReturnStmt); ok {
							if be, ok := ast.Unparen(rs.Results[0]).(*ast.BinaryExpr); ok && be.Op == token.GTR && strings.Contains(types.ExprString(be.X), ".Score") && strings.Contains(types.ExprString(be.Y), ".Score") {
								okSort = sel != nil && len(g.MustPrecede(func(n *GNode) bool { return n == s.n }, func(n *GNode) bool { return n == sel })) == 0
								// nothing appends to candidates after the sort
								r := g.Reach(g.after(s.n), nil, nil)
								for _, x := range g.Nodes {
									if r.Seen[x.ID] && g.assigns(x, cands) {
										okSort = false
									}
								}
							}
						}
					}
				}
			}
			c.Check(okSort, r1, "Query: candidates are sorted by descending score before selection and not touched afterwards", f.Decl.Pos(), "sort.Slice(candidates, Score[i] > Score[j]) dominates the selection loop", "hits are not selected in descending score order", nil)
			if sel != nil && len(apps) == 1 {
				in := func(e ast.Expr, obj types.Object) bool { return mentionsObj(info, e, obj) }
				kTest := g.condNodes(func(e ast.Expr) bool {
					be, ok := e.(*ast.BinaryExpr)
					return ok && (be.Op == token.GEQ || be.Op == token.GTR) && in(be.X, final) && in(be.Y, kPar) && w.mentionsCall(f, be.X, "builtin.len")
				})
				okK := len(kTest) == 1 && be(kTest[0]).Op == token.GEQ
				if okK {
					// every iteration evaluates it first; its true edge leaves the loop without appending
					okK = len(g.MustFollowFrom(bodyStarts(sel), nodeSet(kTest), or(appFinal, func(n *GNode) bool { return n == sel }, calls(bi+"Find")))) == 0
					r := g.Reach(branchStarts(kTest, 1), nil, nil)
					if r.Seen[apps[0].ID] {
						okK = false
					}
				}
				c.Check(okK, r1, "Query: at most k hits", kPosOr(f, kTest), "len(finalHits) >= k leaves the loop, tested before each candidate", "more than k hits can be returned", nil)
				found := g.condNodes(func(e ast.Expr) bool {
					id, ok := e.(*ast.Ident)
					if !ok {
						return false
					}
					for _, nc := range g.callNodes(bi + "Find") {
						if enclosingRangeHead(g, nc.n) == sel && g.lhsVarOfCall(nc.n, nc.cs, 0) != nil && info.Uses[id] == types.Object(g.lhsVarOfCall(nc.n, nc.cs, 0)) {
							return true
						}
					}
					return false
				})
				del := g.condNodes(func(e ast.Expr) bool {
					fv := fieldOfSelector(info, e)
					return fv != nil && fv.Name() == "Deleted" && enclosingRangeHeadOfExpr(g, e) == sel
				})
				flt := g.condNodes(func(e ast.Expr) bool {
					if call, ok := e.(*ast.CallExpr); ok {
						if id, ok := call.Fun.(*ast.Ident); ok && info.Uses[id] == types.Object(filterPar) {
							return true
						}
					}
					return false
				})
				fltNil := g.condNodes(func(e ast.Expr) bool {
					be, ok := e.(*ast.BinaryExpr)
					return ok && be.Op == token.EQL && in(be.X, filterPar) && isNilLit(info, be.Y)
				})
				target := func(n *GNode) bool { return n == apps[0] }
				c.Check(len(found) >= 1 && len(g.notOnlyVia(found, 1, target)) == 0, r1, "Query: a hit is returned only when its content entry was found", f.Decl.Pos(), "append only on the found edge", "a hit can be returned without a content entry", nil)
				c.Check(len(del) == 1 && len(g.notOnlyVia(del, 2, target)) == 0, r1, "Query: deleted items are never returned", f.Decl.Pos(), "append only on the !Deleted edge", "an item marked Deleted can be returned as a hit", nil)
				okF := len(flt) == 1 && len(fltNil) == 1
				if okF {
					cut := func(from *GNode, e Edge) bool { return edgeCut(flt, 1)(from, e) || edgeCut(fltNil, 1)(from, e) }
					okF = len(g.ReachableWithout(cut, target)) == 0
				}
				c.Check(okF, r1, "Query: a hit passes the filter (or there is none)", f.Decl.Pos(), "filter == nil || filter(payload)", "a hit can be returned although the filter rejected it", nil)
			}
		}
	}

	r2 := c.Rule("R2", "Get returns an item only when it was found and is not deleted", 3)
	{
		f := w.Fn(pk + ".domainIndex.Get")
		g := w.G(f)
		c.Analysed(f)
		info := f.Pkg.TypesInfo
		itemRet := func(n *GNode) bool {
			return n.Ret != nil && len(n.Ret.Results) == 2 && !isNilLit(info, n.Ret.Results[0]) && g.ClassifyReturn(n) == RetNil
		}
		c.Check(len(g.Find(itemRet)) >= 1, r2, "Get: item returns present", f.Decl.Pos(), "present", "none", nil)
		del := g.condNodes(func(e ast.Expr) bool { fv := fieldOfSelector(info, e); return fv != nil && fv.Name() == "Deleted" })
		okD := len(del) == 1 && len(g.notOnlyVia(del, 2, itemRet)) == 0
		if okD {
			r := g.Reach(branchStarts(del, 1), isReturn, nil)
			for _, x := range g.Nodes {
				if r.Seen[x.ID] && x.Ret != nil && g.ClassifyReturn(x) != RetNonNil {
					okD = false
				}
			}
		}
		c.Check(okD, r2, "Get: a deleted item is an error", f.Decl.Pos(), "Deleted returns an error; items returned only on the live edge", "Get can return an item that was deleted", nil)
		finds := g.callNodes(bi + "Find")
		okF := len(finds) >= 1
		if okF {
			fv := g.lhsVarOfCall(finds[0].n, finds[0].cs, 0)
			fc := g.condNodes(func(e ast.Expr) bool {
				id, ok := e.(*ast.Ident)
				return ok && fv != nil && info.Uses[id] == types.Object(fv)
			})
			okF = len(fc) == 1 && len(g.notOnlyVia(fc, 1, itemRet)) == 0
		}
		c.Check(okF, r2, "Get: an id that was never stored is an error", f.Decl.Pos(), "items returned only when Content.Find found the id", "Get can return an item for an unknown id", nil)
	}

	r3 := c.Rule("R3", "Delete tombstones through UpdateCurrentKey; writers refuse while optimizing", 4)
	{
		f := w.Fn(pk + ".domainIndex.Delete")
		g := w.G(f)
		c.Analysed(f)
		info := f.Pkg.TypesInfo
		mark := func(n *GNode) bool {
			as, ok := n.Ast.(*ast.AssignStmt)
			if !ok || len(as.Lhs) != 1 {
				return false
			}
			fv := fieldOfSelector(info, as.Lhs[0])
			return fv != nil && fv.Name() == "Deleted" && isBoolLit(info, as.Rhs[0], true)
		}
		upd := calls(bi + "UpdateCurrentKey")
		okM := len(g.Find(mark)) == 1 && len(g.Find(upd)) == 1 && len(g.MustPrecede(mark, upd)) == 0
		if okM {
			// after the mark, every nil return passes UpdateCurrentKey
			offs := g.MustFollow(g.Find(mark), upd, func(n *GNode) bool { return n.Ret != nil && g.ClassifyReturn(n) == RetNil })
			okM = len(offs) == 0
		}
		c.Check(okM, r3, "Delete: the Deleted mark is persisted through UpdateCurrentKey before success", f.Decl.Pos(), "Deleted = true, then Content.UpdateCurrentKey", "Delete can succeed for a found item without persisting the Deleted mark", nil)
		for _, k := range []string{pk + ".domainIndex.Delete", pk + ".domainIndex.Upsert", pk + ".domainIndex.UpsertBatch"} {
			fx := w.Fn(k)
			gx := w.G(fx)
			c.Analysed(fx)
			opt := gx.callNodes(pk + ".domainIndex.isOptimizing")
			ok := len(opt) == 1
			if ok {
				lv := gx.lhsVarOfCall(opt[0].n, opt[0].cs, 0)
				lc := gx.condNodes(func(e ast.Expr) bool {
					id, isID := e.(*ast.Ident)
					return isID && lv != nil && fx.Pkg.TypesInfo.Uses[id] == types.Object(lv)
				})
				ok = len(lc) == 1
				if ok {
					r := gx.Reach(branchStarts(lc, 1), isReturn, nil)
					for _, x := range gx.Nodes {
						if r.Seen[x.ID] && x.Ret != nil && gx.ClassifyReturn(x) != RetNonNil {
							ok = false
						}
					}
					// nothing is written before the check
					wr := func(n *GNode) bool {
						for _, cs := range n.Calls {
							if strings.HasPrefix(cs.Key, bi) && (strings.HasSuffix(cs.Key, ".Add") || strings.HasSuffix(cs.Key, "Update") || strings.Contains(cs.Key, ".Update") || strings.HasSuffix(cs.Key, ".Remove") || strings.HasSuffix(cs.Key, ".Upsert")) {
								return true
							}
							if cs.Key == pk+".domainIndex.upsertItem" {
								return true
							}
						}
						return false
					}
					if len(gx.MustPrecede(func(n *GNode) bool { return n == opt[0].n }, wr)) != 0 {
						ok = false
					}
				}
			}
			c.Check(ok, r3, shortKey(k)+" refuses while the store is optimizing", fx.Decl.Pos(), "isOptimizing() -> error before any write", "a write can run while Optimize rebuilds the index (the item is lost or resurrected when versions switch)", nil)
		}
	}

	r4 := c.Rule("R4", "lazy migration: centroid and distance are taken from the same generation", 3)
	{
		n := 0
		for _, f := range w.declaredFuncs(pk) {
			for _, fn := range append([]*Func{f}, w.allLits(f)...) {
				g := w.G(fn)
				info := fn.Pkg.TypesInfo
				fromField := func(name string) NPred {
					return func(x *GNode) bool {
						as, ok := x.Ast.(*ast.AssignStmt)
						if !ok {
							return false
						}
						for i, r := range as.Rhs {
							if fv := fieldOfSelector(info, r); fv != nil && fv.Name() == name && i < len(as.Lhs) {
								// not the reset `x.NextCentroidID = 0`
								return true
							}
						}
						return false
					}
				}
				takesC, takesD := fromField("NextCentroidID"), fromField("NextDistance")
				for _, a := range g.Find(takesC) {
					n++
					c.Analysed(fn)
					// either a NextDistance assignment dominates a (same straight-line region), or follows on every path to an exit / use
					pre := len(g.MustPrecede(takesD, func(x *GNode) bool { return x == a })) == 0
					post := len(g.MustFollow([]*GNode{a}, takesD, func(x *GNode) bool {
						if x.Ret != nil || x.Exit {
							return true
						}
						for _, cs := range x.Calls {
							if strings.HasPrefix(cs.Key, bi) {
								return true
							}
						}
						return false
					})) == 0
					c.Check(pre || post, r4, fmt.Sprintf("%s: NextCentroidID #%d is paired with NextDistance", shortKey(rootOf(fn).Key), ordinalNode(g, takesC, a)), a.Ast.Pos(), "distance taken from the same generation on every path",
						"the centroid is taken from the Next generation while the distance can stay that of the previous generation: (new centroid, old distance, id) names no vector key, so Get fails for a live item, a later Upsert cannot remove the old vector and Query returns the id twice", nil)
				}
			}
		}
		c.Check(n >= 3, r4, "lazy-migration sites inventoried", token.NoPos, fmt.Sprintf("%d", n), fmt.Sprintf("only %d sites take NextCentroidID (3 known: upsertItem, Get, Delete)", n), nil)
	}

	r5 := c.Rule("R5", "the cleanup of an id's previous vector entry on upsert (deduplication) is switched off only by the caller: domainIndex.deduplicationEnabled is assigned by its exported setter alone, never toggled inside an operation", 2)
	{
		fld := w.Field("ai/vector", "domainIndex", "deduplicationEnabled")
		var writers []string
		var pos token.Pos
		for _, fn := range w.declaredFuncs("ai/vector") {
			for _, ws := range w.writesOf(fn, fld, true) {
				// setter shape: an exported method whose whole body is this one assignment from a parameter or a literal
				setter := fn.Obj != nil && fn.Obj.Exported() && fn.Decl != nil && len(fn.Body.List) == 1 && fn.Body.List[0] == ast.Stmt(asStmt(ws.Stmt))
				if setter {
					writers = append(writers, "setter "+shortKey(fn.Key))
					continue
				}
				writers = append(writers, shortKey(fn.Key))
				pos = ws.Pos
			}
		}
		writers = dedup(writers)
		c.Check(len(writers) >= 1, r5, "deduplicationEnabled writers inventoried", token.NoPos, fmt.Sprintf("%v", writers), "no writer found", nil)
		onlySetters := true
		for _, wn := range writers {
			if !strings.HasPrefix(wn, "setter ") {
				onlySetters = false
			}
		}
		c.Check(onlySetters, r5, "deduplicationEnabled is written only by SetDeduplication", pos, "setter only",
			fmt.Sprintf("deduplicationEnabled is also assigned by %v: with the cleanup switched off inside an operation, an id that occurs again (a batch repeating an id, a re-upsert) keeps its superseded vector entry next to the new one - Query returns the id twice, one hit scored with the stale vector", writers), nil)
		// and the cleanup in upsertItem is guarded by nothing else than that flag
		fu := w.Fn("ai/vector.domainIndex.upsertItem")
		gu := w.G(fu)
		c.Analysed(fu)
		info := fu.Pkg.TypesInfo
		guards := gu.condNodes(func(e ast.Expr) bool { return fieldOfSelector(info, e) == fld })
		c.Check(len(guards) >= 1, r5, "upsertItem: cleanup of the previous entry is guarded by the flag", fu.Decl.Pos(), fmt.Sprintf("%d guard(s)", len(guards)), "the deduplication guard is gone from upsertItem", nil)
	}

	r6 := c.Rule("R6", "a retried Optimize starts from empty next-version stores: the leftover cleanup in initialize removes every version-qualified store the phases build (lookup, centroids and vectors of version N+1)", 2)
	{
		fi := w.Fn("ai/vector.domainIndex.initialize")
		c.Analysed(fi)
		info := fi.Pkg.TypesInfo
		// package-level constants an expression is built from; local variables with a single
		// definition are looked through (a name computed once and reused in the list)
		fiDefs := localDefs(fi)
		var pkgConstsD func(e ast.Node, depth int, out map[string]bool)
		pkgConstsD = func(e ast.Node, depth int, out map[string]bool) {
			ast.Inspect(e, func(x ast.Node) bool {
				if id, ok := x.(*ast.Ident); ok {
					switch k := info.Uses[id].(type) {
					case *types.Const:
						if k.Pkg() == fi.Pkg.Types && k.Parent() == k.Pkg().Scope() {
							out[k.Name()] = true
						}
					case *types.Var:
						if ds := fiDefs[k]; len(ds) == 1 && depth < 3 {
							pkgConstsD(ds[0], depth+1, out)
						}
					}
				}
				return true
			})
		}
		pkgConsts := func(e ast.Node) map[string]bool {
			out := map[string]bool{}
			pkgConstsD(e, 0, out)
			return out
		}
		// the stores the phases build per version: name arguments of sop.ConfigureStore in the file of
		// initialize that are a concatenation of at least three operands (domain + kind + version suffix)
		file, _ := w.Pos(fi.Decl.Pos())
		built := map[string]bool{}
		for _, fn := range w.declaredFuncs("ai/vector") {
			if ff, _ := w.Pos(fn.Decl.Pos()); ff != file {
				continue
			}
			for _, cs := range w.AllSites(fn) {
				if cs.Key != "sop.ConfigureStore" || len(cs.Call.Args) == 0 {
					continue
				}
				leaves := 0
				var count func(e ast.Expr)
				count = func(e ast.Expr) {
					if b, ok := ast.Unparen(e).(*ast.BinaryExpr); ok && b.Op == token.ADD {
						count(b.X)
						count(b.Y)
						return
					}
					leaves++
				}
				count(cs.Call.Args[0])
				if leaves >= 3 {
					for k := range pkgConsts(cs.Call.Args[0]) {
						built[k] = true
					}
				}
			}
		}
		// the stores the cleanup removes: the slice ranged over by the loop that calls StoreRepository.Remove
		removed := map[string]bool{}
		resolved := false
		var pos = fi.Decl.Pos()
		ast.Inspect(fi.Body, func(x ast.Node) bool {
			rs, ok := x.(*ast.RangeStmt)
			if !ok {
				return true
			}
			has := false
			ast.Inspect(rs.Body, func(y ast.Node) bool {
				if call, ok := y.(*ast.CallExpr); ok {
					if cs := w.resolveCall(fi, call); strings.HasSuffix(cs.Key, "StoreRepository.Remove") {
						has = true
					}
				}
				return true
			})
			id, isID := ast.Unparen(rs.X).(*ast.Ident)
			if !has || !isID {
				return true
			}
			pos = rs.Pos()
			obj := info.Uses[id]
			ast.Inspect(fi.Body, func(y ast.Node) bool {
				as, ok := y.(*ast.AssignStmt)
				if !ok {
					return true
				}
				for i, l := range as.Lhs {
					lid, ok := l.(*ast.Ident)
					if !ok || i >= len(as.Rhs) || (info.Defs[lid] != obj && info.Uses[lid] != obj) {
						continue
					}
					if cl, ok := ast.Unparen(as.Rhs[i]).(*ast.CompositeLit); ok {
						resolved = true
						for k := range pkgConsts(cl) {
							removed[k] = true
						}
					} else {
						resolved = false
					}
				}
				return true
			})
			return true
		})
		names := func(m map[string]bool) []string {
			var o []string
			for k := range m {
				o = append(o, k)
			}
			sort.Strings(o)
			return o
		}
		c.Check(len(built) >= 3, r6, "version-qualified stores built by Optimize inventoried", token.NoPos, fmt.Sprintf("%v", names(built)), fmt.Sprintf("only %v found (3 known: lookup, centroids, vectors)", names(built)), nil)
		var missing []string
		for _, k := range names(built) {
			if !removed[k] {
				missing = append(missing, k)
			}
		}
		c.Check(resolved && len(missing) == 0, r6, "initialize: the leftover cleanup removes every next-version store", pos, fmt.Sprintf("removes %v", names(removed)),
			fmt.Sprintf("the cleanup of an interrupted run's leftovers does not remove %v (list resolved=%v): the retried Optimize re-adds every live vector under keys computed from the CURRENT centroids next to the entries the interrupted run wrote, so after the version switch Query returns an id twice (once scored with a superseded vector) and vectors of items deleted in between stay in the index", missing, resolved), nil)
	}

}

func be(n *GNode) *ast.BinaryExpr { return n.Ast.(*ast.BinaryExpr) }

func kPosOr(f *Func, ns []*GNode) token.Pos {
	if len(ns) > 0 && ns[0].Ast != nil {
		return ns[0].Ast.Pos()
	}
	return f.Decl.Pos()
}

func enclosingRangeHeadOfExpr(g *Graph, e ast.Expr) *GNode {
	var best *GNode
	for _, h := range g.Nodes {
		if h.RangeHead == nil {
			continue
		}
		rs := h.RangeHead
		if rs.Body.Pos() <= e.Pos() && e.End() <= rs.Body.End() {
			if best == nil || best.RangeHead.Pos() < rs.Pos() {
				best = h
			}
		}
	}
	return best
}

func ordinalNode(g *Graph, p NPred, n *GNode) int {
	i := 0
	for _, x := range g.Nodes {
		if p(x) && x.Ast != nil && n.Ast != nil && x.Ast.Pos() <= n.Ast.Pos() {
			i++
		}
	}
	return i
}

func asStmt(n ast.Node) ast.Stmt {
	s, _ := n.(ast.Stmt)
	return s
}
