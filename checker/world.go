package main

// Loading and symbol resolution (P-SYM of DESIGN.md).
//
// The repository is loaded in workspace mode, exactly as the baseline builds it, with the
// packages in scope type-checked from source. Every function declaration with a body is indexed
// under a stable key "<pkg>.<Recv>.<name>" / "<pkg>.<name>", where <pkg> is the import path with
// the "github.com/sharedcode/sop/" prefix removed (the root package is "sop").

import (
	"fmt"
	"go/ast"
	"go/token"
	"go/types"
	"os"
	"sort"
	"strings"

	"golang.org/x/tools/go/packages"
	"golang.org/x/tools/go/types/typeutil"
)

const modPrefix = "github.com/sharedcode/sop"

// scopePatterns are the packages whose source is analysed. Mocks, examples, command line
// tools, language bindings and the ai agent are outside every property's anchors.
var scopePatterns = []string{
	".", "./btree", "./cache", "./common", "./fs", "./fs/erasure", "./encoding", "./inmemory",
	"./streamingdata", "./database", "./tools/httpserver", "./infs", "./incfs", "./jsondb",
	"./search", "./adapters/redis", "./adapters/cassandra", "./ai/vector",
}

type World struct {
	Repo   string
	Fset   *token.FileSet
	Pkgs   []*packages.Package
	ByPath map[string]*packages.Package
	Funcs  map[string]*Func
	byObj  map[*types.Func]*Func
	byLit  map[*ast.FuncLit]*Func
	// call graph caches
	calleesMemo      map[*Func][]*CallSite
	sentinelMemo     map[*types.Var]bool
	closureMemo      map[*types.Var]*Func
	fieldTargetsMemo map[*types.Var][]*Func
}

type Func struct {
	Key    string
	Obj    *types.Func // nil for function literals
	Decl   *ast.FuncDecl
	Lit    *ast.FuncLit
	Parent *Func // enclosing declared function for literals
	Body   *ast.BlockStmt
	Type   *ast.FuncType
	Pkg    *packages.Package
	g      *Graph
	sites  []*CallSite // all call sites in the body, excluding nested literals
	lits   []*Func     // directly nested function literals
}

func shortPkgPath(p string) string {
	if p == modPrefix {
		return "sop"
	}
	if strings.HasPrefix(p, modPrefix+"/") {
		return p[len(modPrefix)+1:]
	}
	return p
}

func typeBaseName(t types.Type) string {
	for {
		switch tt := t.(type) {
		case *types.Pointer:
			t = tt.Elem()
			continue
		case *types.Alias:
			t = types.Unalias(tt)
			continue
		case *types.Named:
			return tt.Origin().Obj().Name()
		case *types.TypeParam:
			return tt.Obj().Name()
		case *types.Interface:
			return "interface"
		}
		return t.String()
	}
}

// funcKey gives the stable key of a function or method object (generic origin).
func funcKey(f *types.Func) string {
	f = f.Origin()
	pkg := "builtin"
	if f.Pkg() != nil {
		pkg = shortPkgPath(f.Pkg().Path())
	}
	sig, _ := f.Type().(*types.Signature)
	if sig != nil && sig.Recv() != nil {
		return pkg + "." + typeBaseName(sig.Recv().Type()) + "." + f.Name()
	}
	return pkg + "." + f.Name()
}

func varKey(v *types.Var) string {
	pkg := ""
	if v.Pkg() != nil {
		pkg = shortPkgPath(v.Pkg().Path())
	}
	if v.IsField() {
		return "field:" + pkg + "." + v.Name()
	}
	return "var:" + pkg + "." + v.Name()
}

func loadWorld(repo string) (*World, error) {
	// go/packages looks `go` up through this process's PATH: the newer pre-installed toolchain
	// must come first (the default one cannot load a go 1.26 workspace with GOTOOLCHAIN=local).
	if !strings.HasPrefix(os.Getenv("PATH"), "/opt/veriftools/go1.26.8/bin:") {
		os.Setenv("PATH", "/opt/veriftools/go1.26.8/bin:"+os.Getenv("PATH"))
	}
	env := []string{}
	for _, e := range os.Environ() {
		if strings.HasPrefix(e, "GOFLAGS=") || strings.HasPrefix(e, "GOWORK=") {
			continue
		}
		env = append(env, e)
	}
	env = append(env, "GOFLAGS=", "GOPROXY=off", "GOSUMDB=off", "GOTOOLCHAIN=local")
	fset := token.NewFileSet()
	cfg := &packages.Config{
		Mode: packages.NeedName | packages.NeedFiles | packages.NeedCompiledGoFiles | packages.NeedImports |
			packages.NeedTypes | packages.NeedTypesSizes | packages.NeedSyntax | packages.NeedTypesInfo | packages.NeedDeps,
		Dir:  repo,
		Env:  env,
		Fset: fset,
	}
	// NeedDeps with NeedTypes but without NeedSyntax for deps would still type-check deps from
	// source; use the LoadSyntax mode (deps from export data) instead.
	cfg.Mode = packages.LoadSyntax
	pkgs, err := packages.Load(cfg, scopePatterns...)
	if err != nil {
		return nil, fmt.Errorf("packages.Load: %w", err)
	}
	w := &World{Repo: repo, Fset: fset, ByPath: map[string]*packages.Package{}, Funcs: map[string]*Func{},
		byObj: map[*types.Func]*Func{}, byLit: map[*ast.FuncLit]*Func{}, calleesMemo: map[*Func][]*CallSite{}}
	for _, p := range pkgs {
		if len(p.Errors) > 0 {
			return nil, fmt.Errorf("package %s does not type-check: %v", p.PkgPath, p.Errors[0])
		}
		if p.Types == nil || p.TypesInfo == nil {
			return nil, fmt.Errorf("package %s has no type information", p.PkgPath)
		}
		w.Pkgs = append(w.Pkgs, p)
		w.ByPath[shortPkgPath(p.PkgPath)] = p
	}
	if len(w.Pkgs) < len(scopePatterns) {
		return nil, fmt.Errorf("loaded %d packages, expected %d", len(w.Pkgs), len(scopePatterns))
	}
	sort.Slice(w.Pkgs, func(i, j int) bool { return w.Pkgs[i].PkgPath < w.Pkgs[j].PkgPath })
	for _, p := range w.Pkgs {
		for _, file := range p.Syntax {
			for _, d := range file.Decls {
				fd, ok := d.(*ast.FuncDecl)
				if !ok || fd.Body == nil {
					continue
				}
				obj, _ := p.TypesInfo.Defs[fd.Name].(*types.Func)
				if obj == nil {
					continue
				}
				f := &Func{Key: funcKey(obj), Obj: obj, Decl: fd, Body: fd.Body, Type: fd.Type, Pkg: p}
				if fd.Name.Name == "init" || fd.Name.Name == "_" {
					f.Key = fmt.Sprintf("%s#%s", f.Key, w.Fset.Position(fd.Pos()).Filename)
				}
				w.Funcs[f.Key] = f
				w.byObj[obj] = f
				w.indexLits(f)
			}
		}
	}
	return w, nil
}

// indexLits registers the function literals nested in f (recursively) as Funcs of their own,
// keyed "<parent>$<n>" in source order.
func (w *World) indexLits(f *Func) {
	n := 0
	var walk func(parent *Func, body ast.Node)
	walk = func(parent *Func, body ast.Node) {
		ast.Inspect(body, func(x ast.Node) bool {
			if lit, ok := x.(*ast.FuncLit); ok {
				n++
				root := parent
				for root.Parent != nil {
					root = root.Parent
				}
				lf := &Func{Key: fmt.Sprintf("%s$%d", root.Key, n), Lit: lit, Parent: parent, Body: lit.Body, Type: lit.Type, Pkg: parent.Pkg}
				w.Funcs[lf.Key] = lf
				w.byLit[lit] = lf
				parent.lits = append(parent.lits, lf)
				walk(lf, lit.Body)
				return false
			}
			return true
		})
	}
	walk(f, f.Body)
}

// Fn resolves a function key; a missing anchor is a hard failure of the check (never "held").
func (w *World) Fn(key string) *Func {
	f := w.Funcs[key]
	if f == nil {
		panic(undecided{fmt.Sprintf("anchor function %q not found in /repo (renamed or removed?)", key)})
	}
	return f
}

func (w *World) FnOpt(key string) *Func { return w.Funcs[key] }

func (w *World) Pkg(short string) *packages.Package {
	p := w.ByPath[short]
	if p == nil {
		panic(undecided{fmt.Sprintf("anchor package %q not loaded", short)})
	}
	return p
}

// Object looks up a package level object.
func (w *World) Object(pkg, name string) types.Object {
	o := w.Pkg(pkg).Types.Scope().Lookup(name)
	if o == nil {
		panic(undecided{fmt.Sprintf("anchor object %s.%s not found", pkg, name)})
	}
	return o
}

// Field resolves a struct field object.
func (w *World) Field(pkg, typ, field string) *types.Var {
	o := w.Object(pkg, typ)
	st, ok := o.Type().Underlying().(*types.Struct)
	if !ok {
		panic(undecided{fmt.Sprintf("%s.%s is not a struct", pkg, typ)})
	}
	for i := 0; i < st.NumFields(); i++ {
		if st.Field(i).Name() == field {
			return st.Field(i)
		}
	}
	panic(undecided{fmt.Sprintf("anchor field %s.%s.%s not found", pkg, typ, field)})
}

func (w *World) Pos(p token.Pos) (string, int) {
	pp := w.Fset.Position(p)
	f := pp.Filename
	if strings.HasPrefix(f, w.Repo+"/") {
		f = f[len(w.Repo)+1:]
	}
	return f, pp.Line
}

func (w *World) PosStr(p token.Pos) string {
	f, l := w.Pos(p)
	return fmt.Sprintf("%s:%d", f, l)
}

// CallSite is a resolved call expression.
type CallSite struct {
	Call     *ast.CallExpr
	In       *Func
	Callee   types.Object // *types.Func, *types.Var (func valued), *types.Builtin, or nil (conversion / unresolved)
	Key      string       // funcKey / varKey / "builtin.x" / "" for conversions
	Lit      *ast.FuncLit // immediately invoked literal
	Deferred bool
	Go       bool
}

func (w *World) resolveCall(f *Func, call *ast.CallExpr) *CallSite {
	cs := &CallSite{Call: call, In: f}
	info := f.Pkg.TypesInfo
	if lit, ok := ast.Unparen(call.Fun).(*ast.FuncLit); ok {
		cs.Lit = lit
		cs.Key = "lit"
		return cs
	}
	if tv, ok := info.Types[call.Fun]; ok && tv.IsType() {
		return cs // conversion
	}
	obj := typeutil.Callee(info, call)
	cs.Callee = obj
	switch o := obj.(type) {
	case *types.Func:
		cs.Key = funcKey(o)
	case *types.Var:
		cs.Key = varKey(o)
	case *types.Builtin:
		cs.Key = "builtin." + o.Name()
	default:
		// call of a func valued expression (index, call result, ...)
		switch fn := ast.Unparen(call.Fun).(type) {
		case *ast.SelectorExpr:
			if sel := info.Selections[fn]; sel != nil {
				if v, ok := sel.Obj().(*types.Var); ok {
					cs.Callee = v
					cs.Key = varKey(v)
				}
			}
		case *ast.Ident:
			if v, ok := info.Uses[fn].(*types.Var); ok {
				cs.Callee = v
				cs.Key = varKey(v)
			}
		}
	}
	return cs
}

// Sites returns the call sites of f's body, not descending into nested function literals
// (those are Funcs of their own), in source order.
func (w *World) Sites(f *Func) []*CallSite {
	if f.sites != nil {
		return f.sites
	}
	sites := []*CallSite{}
	var visit func(n ast.Node, deferred, goStmt bool)
	visit = func(n ast.Node, deferred, goStmt bool) {
		ast.Inspect(n, func(x ast.Node) bool {
			switch xx := x.(type) {
			case *ast.FuncLit:
				return false
			case *ast.DeferStmt:
				cs := w.resolveCall(f, xx.Call)
				cs.Deferred = true
				sites = append(sites, cs)
				for _, a := range xx.Call.Args {
					visit(a, false, false)
				}
				visit(xx.Call.Fun, false, false)
				return false
			case *ast.GoStmt:
				cs := w.resolveCall(f, xx.Call)
				cs.Go = true
				sites = append(sites, cs)
				for _, a := range xx.Call.Args {
					visit(a, false, false)
				}
				visit(xx.Call.Fun, false, false)
				return false
			case *ast.CallExpr:
				sites = append(sites, w.resolveCall(f, xx))
			}
			return true
		})
	}
	visit(f.Body, false, false)
	f.sites = sites
	return sites
}

// AllSites returns call sites of f including those inside nested literals.
func (w *World) AllSites(f *Func) []*CallSite {
	out := append([]*CallSite{}, w.Sites(f)...)
	for _, l := range f.lits {
		out = append(out, w.AllSites(l)...)
	}
	return out
}

// CalleeFunc returns the declared function a call site statically resolves to, if its body is
// in scope.
func (w *World) CalleeFunc(cs *CallSite) *Func {
	if cs.Lit != nil {
		return w.byLit[cs.Lit]
	}
	if fo, ok := cs.Callee.(*types.Func); ok {
		return w.byObj[fo.Origin()]
	}
	// a local variable bound exactly once to a function literal (`undo := func(...) {...}`; `undo(i, x)`)
	if v, ok := cs.Callee.(*types.Var); ok && !v.IsField() && v.Pkg() != nil && v.Parent() != v.Pkg().Scope() {
		return w.closureOfVar(cs.In, v)
	}
	return nil
}

// closureOfVar: the function literal a local variable is bound to, when it is assigned exactly once in the
// declared function enclosing `in` (nested literals included) and that assignment is a literal.
func (w *World) closureOfVar(in *Func, v *types.Var) *Func {
	if w.closureMemo == nil {
		w.closureMemo = map[*types.Var]*Func{}
	}
	if f, ok := w.closureMemo[v]; ok {
		return f
	}
	root := in
	for root.Parent != nil {
		root = root.Parent
	}
	var lits []*ast.FuncLit
	n := 0
	info := root.Pkg.TypesInfo
	ast.Inspect(root.Body, func(x ast.Node) bool {
		switch s := x.(type) {
		case *ast.AssignStmt:
			for i, l := range s.Lhs {
				id, ok := ast.Unparen(l).(*ast.Ident)
				if !ok {
					continue
				}
				o := info.Defs[id]
				if o == nil {
					o = info.Uses[id]
				}
				if o != types.Object(v) {
					continue
				}
				n++
				if len(s.Rhs) == len(s.Lhs) {
					if lit, ok := ast.Unparen(s.Rhs[i]).(*ast.FuncLit); ok {
						lits = append(lits, lit)
					}
				}
			}
		case *ast.ValueSpec:
			for i, nm := range s.Names {
				if info.Defs[nm] == types.Object(v) && i < len(s.Values) {
					n++
					if lit, ok := ast.Unparen(s.Values[i]).(*ast.FuncLit); ok {
						lits = append(lits, lit)
					}
				}
			}
		}
		return true
	})
	var out *Func
	if n == 1 && len(lits) == 1 {
		out = w.byLit[lits[0]]
	}
	w.closureMemo[v] = out
	return out
}

// Reaches reports whether f, through statically resolved calls into functions whose bodies are
// in scope (nested literals included), contains a call site satisfying pred. Interface method
// calls are leaves labelled by the interface method key.
func (w *World) Reaches(f *Func, pred func(*CallSite) bool) bool {
	seen := map[*Func]bool{}
	var rec func(f *Func) bool
	rec = func(f *Func) bool {
		if f == nil || seen[f] {
			return false
		}
		seen[f] = true
		for _, cs := range w.AllSites(f) {
			if pred(cs) {
				return true
			}
			if rec(w.CalleeFunc(cs)) {
				return true
			}
		}
		return false
	}
	return rec(f)
}

// ReachPath is Reaches with a witness chain of function keys.
func (w *World) ReachPath(f *Func, pred func(*CallSite) bool) []string {
	seen := map[*Func]bool{}
	var rec func(f *Func) []string
	rec = func(f *Func) []string {
		if f == nil || seen[f] {
			return nil
		}
		seen[f] = true
		for _, cs := range w.AllSites(f) {
			if pred(cs) {
				return []string{f.Key, cs.Key + " @" + w.PosStr(cs.Call.Pos())}
			}
			if p := rec(w.CalleeFunc(cs)); p != nil {
				return append([]string{f.Key}, p...)
			}
		}
		return nil
	}
	return rec(f)
}

func keyIn(keys ...string) func(*CallSite) bool {
	m := map[string]bool{}
	for _, k := range keys {
		m[k] = true
	}
	return func(cs *CallSite) bool { return m[cs.Key] }
}

// SortedFuncKeys lists all function keys (debug aid).
func (w *World) SortedFuncKeys() []string {
	ks := make([]string, 0, len(w.Funcs))
	for k := range w.Funcs {
		ks = append(ks, k)
	}
	sort.Strings(ks)
	return ks
}

type undecided struct{ msg string }

func (u undecided) Error() string { return u.msg }

// funcFieldTargets: the functions a func-typed struct field is initialised with (composite-literal entries and
// assignments whose right side is a method value or a function name), over all loaded packages.
func (w *World) funcFieldTargets(fld *types.Var) []*Func {
	if w.fieldTargetsMemo == nil {
		w.fieldTargetsMemo = map[*types.Var][]*Func{}
	}
	if r, ok := w.fieldTargetsMemo[fld]; ok {
		return r
	}
	var out []*Func
	add := func(info *types.Info, e ast.Expr) {
		switch x := ast.Unparen(e).(type) {
		case *ast.SelectorExpr:
			if fo, ok := info.Uses[x.Sel].(*types.Func); ok {
				if f := w.byObj[fo.Origin()]; f != nil {
					out = append(out, f)
				}
			}
		case *ast.Ident:
			if fo, ok := info.Uses[x].(*types.Func); ok {
				if f := w.byObj[fo.Origin()]; f != nil {
					out = append(out, f)
				}
			}
		case *ast.FuncLit:
			if f := w.byLit[x]; f != nil {
				out = append(out, f)
			}
		}
	}
	for _, p := range w.Pkgs {
		info := p.TypesInfo
		for _, file := range p.Syntax {
			ast.Inspect(file, func(n ast.Node) bool {
				switch x := n.(type) {
				case *ast.KeyValueExpr:
					if id, ok := x.Key.(*ast.Ident); ok && originOf(info.Uses[id]) == types.Object(fld) {
						add(info, x.Value)
					}
				case *ast.AssignStmt:
					for i, l := range x.Lhs {
						if sel, ok := ast.Unparen(l).(*ast.SelectorExpr); ok && i < len(x.Rhs) {
							if s := info.Selections[sel]; s != nil && originOf(s.Obj()) == types.Object(fld) {
								add(info, x.Rhs[i])
							}
						}
					}
				}
				return true
			})
		}
	}
	w.fieldTargetsMemo[fld] = out
	return out
}
