package main

import (
	"fmt"
	"go/ast"
	"go/token"
	"go/types"
	"strings"
)

func init() {
	register("C31", propMeta{
		Explanation:  "Decides the cursor/chunk pairing of the streaming reader and writer: (R1) in reader.Read the chunk index advances on exactly the paths on which a fetched chunk has been delivered completely (single-call delivery, or the buffered remainder being exhausted) and on no partial delivery; (R2) writer.Write advances its chunk index before every successful return and only after the B-tree accepted the chunk; Encoder.Close in update mode removes chunks at increasing indexes until Find misses, failing when a removal fails. (R4) a writer is created at chunk 0 and only Write's increments change its chunk index, so an update replaces an entry from its first chunk. (R5) cursor typestate: after RemoveCurrentItem no cursor-relative call is reachable without a positioning call in between.",
		DoesNotCover: "Byte equality of decoded values (json.Decoder behaviour over the reader) is not decided.",
	}, runC31)
}

func incrOf(g *Graph, fld *types.Var) NPred {
	info := g.F.Pkg.TypesInfo
	return func(n *GNode) bool {
		switch s := n.Ast.(type) {
		case *ast.IncDecStmt:
			return s.Tok == token.INC && fieldOfSelector(info, s.X) == fld
		case *ast.AssignStmt:
			if s.Tok == token.ADD_ASSIGN && len(s.Lhs) == 1 && fieldOfSelector(info, s.Lhs[0]) == fld {
				return true
			}
		}
		return false
	}
}

func runC31(c *Ctx) {
	w := c.W
	r1 := c.Rule("R1", "reader.Read: chunkIndex advances exactly when a fetched chunk has been completely delivered", 4)
	f := w.Fn("streamingdata.reader.Read")
	g := w.G(f)
	c.Analysed(f)
	info := f.Pkg.TypesInfo
	ci := w.Field("streamingdata", "reader", "chunkIndex")
	rc := w.Field("streamingdata", "reader", "readChunk")
	incr := incrOf(g, ci)
	// (a) buffered remainder exhausted: r.readChunk = nil
	exhausted := g.Find(func(n *GNode) bool {
		as, ok := n.Ast.(*ast.AssignStmt)
		return ok && len(as.Lhs) == 1 && len(as.Rhs) == 1 && fieldOfSelector(info, as.Lhs[0]) == rc && isNilLit(info, as.Rhs[0])
	})
	c.Check(len(exhausted) == 1, r1, "Read: buffered-remainder exhaustion site", f.Decl.Pos(), "one `readChunk = nil`", fmt.Sprintf("found %d", len(exhausted)), nil)
	for _, e := range exhausted {
		// increment either just before (dominating within the same branch) or after
		after := g.MustFollow([]*GNode{e}, incr, isExit)
		before := g.MustPrecede(incr, func(n *GNode) bool { return n == e })
		ok := len(after) == 0 || len(before) == 0
		var wit []string
		if !ok {
			wit = after[0].Path
		}
		c.Check(ok, r1, "Read: exhausting the buffered chunk advances chunkIndex", e.Ast.Pos(), "chunkIndex++ on the path that clears readChunk",
			"the buffered remainder of a chunk larger than the caller's buffer is cleared without advancing chunkIndex: the next Read fetches and delivers the same chunk again", wit)
	}
	// (b) single-call complete delivery: false edge of `c < len(ba)`
	partial := g.condNodes(func(e ast.Expr) bool {
		be, ok := e.(*ast.BinaryExpr)
		return ok && be.Op == token.LSS && w.mentionsCall(f, be.Y, "builtin.len")
	})
	c.Check(len(partial) == 1, r1, "Read: partial-delivery test", f.Decl.Pos(), "`c < len(ba)`", fmt.Sprintf("found %d partial-delivery tests", len(partial)), nil)
	offs := g.MustFollowFrom(branchStarts(partial, 2), incr, isExit)
	c.Offences(g, offs, r1, "Read: complete single-call delivery advances chunkIndex", f.Decl.Pos(), "chunkIndex++ on the complete-delivery edge", "a completely delivered chunk does not advance chunkIndex")
	// no advance on partial delivery
	r := g.Reach(branchStarts(partial, 1), nil, nil)
	offs = nil
	for _, x := range g.Nodes {
		if r.Seen[x.ID] && incr(x) {
			offs = append(offs, Offence{x, r.Path(x.ID)})
		}
	}
	c.Offences(g, offs, r1, "Read: partial delivery does not advance chunkIndex", f.Decl.Pos(), "no chunkIndex++ on the partial edge", "chunkIndex advances although only part of the chunk was delivered (rest of the chunk is lost)")
	// the remainder is kept on partial delivery
	keep := func(n *GNode) bool {
		as, ok := n.Ast.(*ast.AssignStmt)
		return ok && len(as.Lhs) == 1 && fieldOfSelector(info, as.Lhs[0]) == rc && !isNilLit(info, as.Rhs[0])
	}
	offs = g.MustFollowFrom(branchStarts(partial, 1), keep, isExit)
	c.Offences(g, offs, r1, "Read: partial delivery keeps the remainder", f.Decl.Pos(), "readChunk retained", "the undelivered remainder is dropped")

	r3 := c.Rule("R3", "reader.Read locates the chunk to deliver by the FULL key (entry key, chunk index): Find is given a key built from both; the sequential Next shortcut is taken only when the cursor's full key is the predecessor of the wanted key, and what Next lands on is compared with the wanted full key before it is delivered", 4)
	{
		defs := localDefs(f)
		keyFld := w.Field("streamingdata", "reader", "key")
		const cmpKey = "streamingdata.StreamingDataKey.Compare"
		target := func(e ast.Node) bool {
			return w.mentionsDeep(f, defs, e, keyFld) && w.mentionsDeep(f, defs, e, ci)
		}
		finds := g.callNodes("btree.BtreeInterface.Find")
		c.Check(len(finds) >= 1, r3, "Read: chunk lookup by Find", f.Decl.Pos(), fmt.Sprintf("%d Find call(s)", len(finds)), "no Find call: chunks are not looked up by key", nil)
		for i, fc := range finds {
			ok := len(fc.cs.Call.Args) >= 2 && target(fc.cs.Call.Args[1])
			c.Check(ok, r3, fmt.Sprintf("Read: Find #%d is given (entry key, chunk index)", i+1), fc.cs.Call.Pos(), "key built from r.key and r.chunkIndex", "the lookup key is not built from both the entry key and the chunk index", nil)
		}
		// a full-key comparison: StreamingDataKey.Compare(...) whose operands involve the wanted key
		fullCmp := func(e ast.Expr) bool {
			hit := false
			ast.Inspect(e, func(n ast.Node) bool {
				call, ok := n.(*ast.CallExpr)
				if !ok || w.resolveCall(f, call).Key != cmpKey {
					return true
				}
				if target(call) {
					hit = true
				}
				return true
			})
			return hit
		}
		cmpConds := g.condNodes(fullCmp)
		nexts := g.callNodes("btree.BtreeInterface.Next")
		for i, nx := range nexts {
			// the shortcut is reachable only through the `== 0` edge of a full-key comparison that also involves the cursor
			var pre []*GNode
			for _, cn := range cmpConds {
				be, ok := cn.Ast.(*ast.BinaryExpr)
				if ok && be.Op == token.EQL && w.mentionsDeep(f, defs, be, nil, "btree.BtreeInterface.GetCurrentKey") {
					pre = append(pre, cn)
				}
			}
			offs := g.notOnlyVia(pre, 1, func(n *GNode) bool { return n == nx.n })
			if len(pre) == 0 {
				offs = []Offence{{nx.n, nil}}
			}
			c.Offences(g, offs, r3, fmt.Sprintf("Read: Next shortcut #%d only from the predecessor of the wanted full key", i+1), nx.cs.Call.Pos(),
				"guarded by cursorKey(+1).Compare(wanted) == 0", "the sequential shortcut is taken without comparing the cursor's entry key with the wanted one: when the cursor sits on another entry's chunk, Next lands on a foreign chunk and the read ends early (false EOF) or delivers foreign bytes")
			// what Next landed on is verified against the wanted key before delivery
			// (path-sensitive in the `found` flag Next returned: a miss is not delivered at all)
			offs = nil
			if fv := g.lhsVarOfCall(nx.n, nx.cs, 0); fv != nil {
				bt := g.trackBools(fv)
				ar := bt.Reach(g.after(nx.n), bt.initial(), nodeSet(cmpConds))
				for _, x := range g.Find(calls("btree.BtreeInterface.GetCurrentValue")) {
					if ar.Node(x.ID) {
						offs = append(offs, Offence{x, ar.Path(x.ID)})
					}
				}
			} else {
				offs = []Offence{{nx.n, nil}}
			}
			c.Offences(g, offs, r3, fmt.Sprintf("Read: item reached by Next #%d is compared with the wanted full key before delivery", i+1), nx.cs.Call.Pos(),
				"full-key comparison between Next and GetCurrentValue", "the item Next landed on is delivered without checking it is the wanted chunk")
		}
		c.Check(len(nexts) <= 1, r3, "Read: at most one sequential shortcut", f.Decl.Pos(), fmt.Sprintf("%d Next call(s)", len(nexts)), "unexpected additional Next calls", nil)
	}

	r2 := c.Rule("R2", "writer.Write advances chunkIndex before every successful return and only after the B-tree accepted the chunk; Encoder.Close removes trailing chunks until Find misses", 5)
	fw := w.Fn("streamingdata.writer.Write")
	gw := w.G(fw)
	c.Analysed(fw)
	wci := w.Field("streamingdata", "writer", "chunkIndex")
	wincr := incrOf(gw, wci)
	succ := func(n *GNode) bool { return n.Ret != nil && gw.ClassifyReturn(n) == RetNil }
	nsucc := len(gw.Find(succ))
	c.Check(nsucc >= 3, r2, "Write: success returns inventory", fw.Decl.Pos(), fmt.Sprintf("%d success returns", nsucc), "success returns missing", nil)
	offs = gw.MustPrecede(wincr, succ)
	c.Offences(gw, offs, r2, "Write: success implies chunkIndex advanced", fw.Decl.Pos(), "chunkIndex++ dominates every nil-error return", "a successful Write can leave chunkIndex unchanged: the next chunk overwrites this one")
	offs = gw.MustPrecede(calls("btree.BtreeInterface.Add", "btree.BtreeInterface.UpdateCurrentValue"), wincr)
	c.Offences(gw, offs, r2, "Write: chunkIndex advances only after the chunk was stored", fw.Decl.Pos(), "Add/UpdateCurrentValue precedes the increment", "chunkIndex can advance without storing the chunk")
	for _, key := range []string{"btree.BtreeInterface.Add", "btree.BtreeInterface.UpdateCurrentValue"} {
		for _, nc := range gw.callNodes(key) {
			starts, tested := gw.failStartsOfBoolErrCall(nc.n, nc.cs)
			if !tested {
				c.Violated(r2, fmt.Sprintf("Write: failed %s #%d is an error", shortKey(key), ordinalOf(w, fw, nc.cs)), nc.cs.Call.Pos(), "(ok, err) not tested", nil)
				continue
			}
			rr := gw.Reach(starts, isReturn, nil)
			var offs []Offence
			for _, x := range gw.Nodes {
				if rr.Seen[x.ID] && (wincr(x) || (x.Ret != nil && gw.ClassifyReturn(x) != RetNonNil)) {
					offs = append(offs, Offence{x, rr.Path(x.ID)})
				}
			}
			c.Offences(gw, offs, r2, fmt.Sprintf("Write: failed %s #%d is an error", shortKey(key), ordinalOf(w, fw, nc.cs)), nc.cs.Call.Pos(), "failure reaches only error returns", "a rejected chunk is reported as written")
		}
	}
	// Close
	fc := w.Fn("streamingdata.Encoder.Close")
	gc := w.G(fc)
	c.Analysed(fc)
	rm := gc.callNodes("btree.BtreeInterface.RemoveCurrentItem")
	fd := gc.callNodes("btree.BtreeInterface.Find")
	if len(rm) != 1 || len(fd) != 1 {
		c.Violated(r2, "Close: find/remove loop", fc.Decl.Pos(), "expected one Find and one RemoveCurrentItem", nil)
		return
	}
	cincr := incrOf(gc, wci)
	// after a successful remove the next Find is reached only via an increment
	offs = gc.MustFollow([]*GNode{rm[0].n}, cincr, func(n *GNode) bool { return n == fd[0].n })
	c.Offences(gc, offs, r2, "Close: each removal advances to the next chunk", rm[0].cs.Call.Pos(), "chunkIndex++ between RemoveCurrentItem and the next Find", "Close can look up the same chunk index again without advancing")
	// success return only when Find missed (or add mode)
	fv := gc.lhsVarOfCall(fd[0].n, fd[0].cs, 0)
	miss := gc.condNodes(func(e ast.Expr) bool { id, ok := e.(*ast.Ident); return ok && fc.Pkg.TypesInfo.Uses[id] == fv })
	addMode := gc.condNodes(func(e ast.Expr) bool {
		return fieldOfSelector(fc.Pkg.TypesInfo, e) == w.Field("streamingdata", "writer", "addOrUpdate")
	})
	cut := func(from *GNode, e Edge) bool { return edgeCut(miss, 2)(from, e) || edgeCut(addMode, 1)(from, e) }
	offs = gc.ReachableWithout(cut, func(n *GNode) bool { return n.Ret != nil && gc.ClassifyReturn(n) == RetNil })
	c.Offences(gc, offs, r2, "Close: succeeds only when no further chunk is found", fc.Decl.Pos(), "nil return only on the Find-miss edge (or in add mode)", "Close can succeed while old chunks remain")
	starts, tested := gc.failStartsOfBoolErrCall(rm[0].n, rm[0].cs)
	if tested {
		rr := gc.Reach(starts, isReturn, nil)
		offs = nil
		for _, x := range gc.Nodes {
			if rr.Seen[x.ID] && (x == fd[0].n || (x.Ret != nil && gc.ClassifyReturn(x) != RetNonNil)) {
				offs = append(offs, Offence{x, rr.Path(x.ID)})
			}
		}
		c.Offences(gc, offs, r2, "Close: failed removal is an error", rm[0].cs.Call.Pos(), "failure reaches only error returns", "a failed removal is ignored")
	} else {
		c.Violated(r2, "Close: failed removal is an error", rm[0].cs.Call.Pos(), "(ok, err) not tested", nil)
	}
	r4 := c.Rule("R4", "a writer replaces an entry from its first chunk: a writer value is created with chunkIndex 0 (the field is absent from the constructor's literal, or set from a constant 0 / a parameter that every caller passes the constant 0), and only Write's own increments change it", 2)
	{
		ci := w.Field("streamingdata", "writer", "chunkIndex")
		nLit, bad := 0, []string{}
		var pos token.Pos
		for _, f := range w.declaredFuncs("streamingdata") {
			info := f.Pkg.TypesInfo
			ast.Inspect(f.Body, func(x ast.Node) bool {
				cl, ok := x.(*ast.CompositeLit)
				if !ok {
					return true
				}
				tv := info.Types[cl]
				nt, _ := tv.Type.(*types.Named)
				if nt == nil || nt.Obj().Name() != "writer" {
					return true
				}
				nLit++
				for _, el := range cl.Elts {
					kv, ok := el.(*ast.KeyValueExpr)
					if !ok {
						continue
					}
					id, _ := kv.Key.(*ast.Ident)
					if id == nil || originOf(info.Uses[id]) != types.Object(ci) {
						continue
					}
					if v := info.Types[kv.Value].Value; v != nil && v.String() == "0" {
						continue
					}
					// a parameter: every call site of f must pass the constant 0 there
					okParam := false
					if pid, isID := ast.Unparen(kv.Value).(*ast.Ident); isID && f.Obj != nil {
						sig := f.Obj.Type().(*types.Signature)
						for pi := 0; pi < sig.Params().Len(); pi++ {
							if info.Uses[pid] != types.Object(sig.Params().At(pi)) {
								continue
							}
							okParam = true
							for _, g := range w.allDeclared() {
								for _, cs := range w.AllSites(g) {
									if cs.Key == f.Key && pi < len(cs.Call.Args) {
										if av := cs.In.Pkg.TypesInfo.Types[cs.Call.Args[pi]].Value; av == nil || av.String() != "0" {
											okParam = false
											bad = append(bad, fmt.Sprintf("%s passes %s", shortKey(rootOf(cs.In).Key), types.ExprString(cs.Call.Args[pi])))
											pos = cs.Call.Pos()
										}
									}
								}
							}
						}
					}
					if !okParam && len(bad) == 0 {
						bad = append(bad, "chunkIndex initialised with "+types.ExprString(kv.Value))
						pos = kv.Pos()
					}
				}
				return true
			})
			// other writes of the field: increments only
			for _, ws := range w.writesOf(f, ci, true) {
				if _, isInc := ws.Stmt.(*ast.IncDecStmt); !isInc {
					bad = append(bad, "assigned in "+shortKey(f.Key))
					pos = ws.Pos
				}
			}
		}
		c.Check(nLit >= 1, r4, "writer literals inventoried", token.NoPos, fmt.Sprintf("%d", nLit), "no writer literal found", nil)
		c.Check(len(bad) == 0, r4, "a writer starts at chunk 0", pos, "chunkIndex is 0 at creation and only incremented by Write",
			fmt.Sprintf("a writer can start past chunk 0 (%s): an update then leaves the entry's earlier chunks in place - the entry decodes as old values followed by the new ones, and Encoder.Close only trims chunks after the last one written", strings.Join(bad, "; ")), nil)
	}

	r5 := c.Rule("R5", "cursor typestate: RemoveCurrentItem leaves the B-tree cursor unset, so in package streamingdata no cursor-relative call (Next, Previous, GetCurrentKey, GetCurrentValue, GetCurrentItem, RemoveCurrentItem, UpdateCurrentItem, UpdateCurrentValue) is reachable after it without a positioning call (Find, FindWithID, First, Last) in between - Encoder.Close relies on this when it removes an entry's leftover chunks one search at a time", 1)
	{
		bi := "btree.BtreeInterface."
		removeK := bi + "RemoveCurrentItem"
		rel := map[string]bool{}
		for _, m := range []string{"Next", "Previous", "GetCurrentKey", "GetCurrentValue", "GetCurrentItem", "RemoveCurrentItem", "UpdateCurrentItem", "UpdateCurrentValue", "UpdateCurrentKey"} {
			rel[bi+m] = true
		}
		pos := map[string]bool{}
		for _, m := range []string{"Find", "FindWithID", "First", "Last", "FindInDescendingOrder"} {
			pos[bi+m] = true
		}
		nRm := 0
		for _, f := range w.declaredFuncs("streamingdata") {
			g := w.G(f)
			rms := g.Find(calls(removeK))
			if len(rms) == 0 {
				continue
			}
			c.Analysed(f)
			for _, rm := range rms {
				nRm++
				isPos := func(n *GNode) bool {
					for _, cs := range n.Calls {
						if pos[cs.Key] {
							return true
						}
					}
					return false
				}
				var starts []int
				for _, e := range rm.Succs {
					starts = append(starts, e.To)
				}
				r := g.Reach(starts, isPos, nil)
				var offs []Offence
				for _, n := range g.Nodes {
					if !r.Seen[n.ID] || isPos(n) {
						continue
					}
					for _, cs := range n.Calls {
						if rel[cs.Key] {
							offs = append(offs, Offence{n, r.Path(n.ID)})
						}
					}
				}
				c.Offences(g, offs, r5, fmt.Sprintf("%s: the cursor is re-positioned after RemoveCurrentItem #%d before it is used", shortKey(f.Key), nRm), rm.Ast.Pos(), "Find/First/Last precedes every cursor-relative call after the removal",
					"a cursor-relative call follows RemoveCurrentItem without a positioning call: the removal unsets the cursor, so Next reports the end of the tree - an update that shrinks an entry by two or more chunks removes only the first leftover chunk and leaves the rest (stale chunks of the same key, wrong Count)")
			}
		}
		c.Check(nRm >= 1, r5, "RemoveCurrentItem sites in streamingdata inventoried", token.NoPos, fmt.Sprintf("%d", nRm), "none found", nil)
	}

}
