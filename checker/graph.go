package main

// Node-level control-flow graph of one function body (P-CFG of DESIGN.md), built on go/cfg.
// Every ast.Node of every live block is one GNode; edges out of a two-way block carry the
// branch polarity. A synthetic EXIT node collects return statements and the fall-off end.
// Blocks ending in a call that cannot return (panic, os.Exit, log.Fatal*) have no successor
// and do not reach EXIT.

import (
	"fmt"
	"go/ast"
	"go/token"
	"go/types"
	"sort"
	"strings"

	"golang.org/x/tools/go/cfg"
)

type Edge struct {
	To   int
	Cond int // 0 unconditional, 1 the condition in From evaluated true, 2 false
}

type GNode struct {
	ID    int
	Ast   ast.Node // nil for pseudo nodes (empty blocks, EXIT)
	Block *cfg.Block
	Succs []Edge
	Preds []int
	Calls []*CallSite
	// IsCond: the node is the controlling expression of a two-way branch.
	IsCond bool
	// SwitchTag is set when the node is a case expression of a tagged switch.
	SwitchTag ast.Expr
	// TypeSwitch is set when the node is a type-switch case (Ast is the type expr).
	Ret  *ast.ReturnStmt
	Exit bool
	// Loop header of a range statement (pseudo node with two successors).
	RangeHead *ast.RangeStmt
}

type Graph struct {
	W     *World
	F     *Func
	Nodes []*GNode
	Entry int
	Exit  int
}

func noReturnCall(w *World, f *Func) func(*ast.CallExpr) bool {
	return func(call *ast.CallExpr) bool {
		cs := w.resolveCall(f, call)
		switch cs.Key {
		case "builtin.panic", "os.Exit", "log.Fatal", "log.Fatalf", "log.Fatalln", "log.Panic", "log.Panicf", "runtime.Goexit":
			return false
		}
		return true
	}
}

// G builds (once) the node-level graph of f.
func (w *World) G(f *Func) *Graph {
	if f.g != nil {
		return f.g
	}
	c := cfg.New(f.Body, noReturnCall(w, f))
	g := &Graph{W: w, F: f}
	// map case expressions of tagged switches to their tag
	caseTag := map[ast.Expr]ast.Expr{}
	ast.Inspect(f.Body, func(x ast.Node) bool {
		if _, ok := x.(*ast.FuncLit); ok {
			return false
		}
		if sw, ok := x.(*ast.SwitchStmt); ok && sw.Tag != nil {
			for _, cl := range sw.Body.List {
				for _, e := range cl.(*ast.CaseClause).List {
					caseTag[e] = sw.Tag
				}
			}
		}
		return true
	})
	siteOf := map[*ast.CallExpr]*CallSite{}
	for _, cs := range w.Sites(f) {
		siteOf[cs.Call] = cs
	}
	first := map[*cfg.Block]int{}
	last := map[*cfg.Block]int{}
	pending := map[*cfg.Block]ast.Expr{}
	add := func(n *GNode) int {
		n.ID = len(g.Nodes)
		g.Nodes = append(g.Nodes, n)
		return n.ID
	}
	mk := func(b *cfg.Block, an ast.Node) *GNode {
		n := &GNode{Block: b, Ast: an}
		if rs, ok := an.(*ast.ReturnStmt); ok {
			n.Ret = rs
		}
		// calls inside this node (not inside literals)
		ast.Inspect(an, func(x ast.Node) bool {
			switch xx := x.(type) {
			case *ast.FuncLit:
				return false
			case *ast.CallExpr:
				if cs := siteOf[xx]; cs != nil {
					n.Calls = append(n.Calls, cs)
				}
			}
			return true
		})
		// evaluation order approximation: inner calls first
		sort.SliceStable(n.Calls, func(a, b int) bool { return n.Calls[a].Call.End() < n.Calls[b].Call.End() })
		return n
	}
	for _, b := range c.Blocks {
		if !b.Live {
			continue
		}
		nodes := b.Nodes
		// the controlling expression of a two-way block is expanded into short-circuit
		// leaves in the second pass
		if len(b.Succs) == 2 && len(nodes) > 0 {
			if e, ok := nodes[len(nodes)-1].(ast.Expr); ok {
				pending[b] = e
				nodes = nodes[:len(nodes)-1]
			}
		}
		if len(nodes) == 0 {
			n := &GNode{Block: b}
			if rs, ok := b.Stmt.(*ast.RangeStmt); ok && b.Kind == cfg.KindRangeLoop {
				n.RangeHead = rs
			}
			id := add(n)
			first[b], last[b] = id, id
			continue
		}
		for i, an := range nodes {
			id := add(mk(b, an))
			if i == 0 {
				first[b] = id
			}
			last[b] = id
			if i > 0 {
				g.Nodes[id-1].Succs = append(g.Nodes[id-1].Succs, Edge{To: id})
			}
		}
	}
	exit := add(&GNode{Exit: true})
	g.Exit = exit
	// expand a condition into leaves; returns the id of the node evaluated first
	var expand func(b *cfg.Block, e ast.Expr, t, f int) int
	expand = func(b *cfg.Block, e ast.Expr, t, f int) int {
		switch x := ast.Unparen(e).(type) {
		case *ast.UnaryExpr:
			if x.Op == token.NOT {
				return expand(b, x.X, f, t)
			}
		case *ast.BinaryExpr:
			if x.Op == token.LAND {
				nb := expand(b, x.Y, t, f)
				return expand(b, x.X, nb, f)
			}
			if x.Op == token.LOR {
				nb := expand(b, x.Y, t, f)
				return expand(b, x.X, t, nb)
			}
		}
		n := mk(b, ast.Unparen(e))
		n.IsCond = true
		if tag, ok := caseTag[e]; ok {
			n.SwitchTag = tag
		}
		n.Succs = []Edge{{To: t, Cond: 1}, {To: f, Cond: 2}}
		return add(n)
	}
	for _, b := range c.Blocks {
		if !b.Live {
			continue
		}
		l := g.Nodes[last[b]]
		if e, ok := pending[b]; ok {
			root := expand(b, e, first[b.Succs[0]], first[b.Succs[1]])
			l.Succs = append(l.Succs, Edge{To: root})
			continue
		}
		switch len(b.Succs) {
		case 0:
			if l.Ret != nil {
				l.Succs = append(l.Succs, Edge{To: exit})
			} else if b.Return() != nil {
				l.Succs = append(l.Succs, Edge{To: exit})
			} else if endsInNoReturn(w, f, b) {
				// no successor
			} else {
				// fall off the end of the function
				l.Succs = append(l.Succs, Edge{To: exit})
			}
		case 1:
			l.Succs = append(l.Succs, Edge{To: first[b.Succs[0]]})
		case 2:
			// two-way block without a controlling expression (range / select heads)
			l.IsCond = true
			l.Succs = append(l.Succs, Edge{To: first[b.Succs[0]], Cond: 1}, Edge{To: first[b.Succs[1]], Cond: 2})
		default:
			for _, s := range b.Succs {
				l.Succs = append(l.Succs, Edge{To: first[s]})
			}
		}
	}
	for _, n := range g.Nodes {
		for _, e := range n.Succs {
			g.Nodes[e.To].Preds = append(g.Nodes[e.To].Preds, n.ID)
		}
	}
	g.Entry = first[c.Blocks[0]]
	f.g = g
	return g
}

func endsInNoReturn(w *World, f *Func, b *cfg.Block) bool {
	if len(b.Nodes) == 0 {
		return false
	}
	es, ok := b.Nodes[len(b.Nodes)-1].(*ast.ExprStmt)
	if !ok {
		return false
	}
	call, ok := es.X.(*ast.CallExpr)
	if !ok {
		return false
	}
	return !noReturnCall(w, f)(call)
}

type NPred func(*GNode) bool

func (g *Graph) Find(p NPred) []*GNode {
	var out []*GNode
	for _, n := range g.Nodes {
		if p(n) {
			out = append(out, n)
		}
	}
	return out
}

// Reach computes the nodes entered when starting execution at the given nodes. A node for which
// stop is true is entered but not left. Edges for which cut is true are not followed.
// parent records a BFS tree for witness paths.
type ReachResult struct {
	g      *Graph
	Seen   map[int]bool
	parent map[int]int
}

func (g *Graph) Reach(starts []int, stop NPred, cut func(from *GNode, e Edge) bool) *ReachResult {
	r := &ReachResult{g: g, Seen: map[int]bool{}, parent: map[int]int{}}
	queue := []int{}
	for _, s := range starts {
		if !r.Seen[s] {
			r.Seen[s] = true
			r.parent[s] = -1
			queue = append(queue, s)
		}
	}
	for len(queue) > 0 {
		id := queue[0]
		queue = queue[1:]
		n := g.Nodes[id]
		if stop != nil && stop(n) {
			continue
		}
		for _, e := range n.Succs {
			if cut != nil && cut(n, e) {
				continue
			}
			if !r.Seen[e.To] {
				r.Seen[e.To] = true
				r.parent[e.To] = id
				queue = append(queue, e.To)
			}
		}
	}
	return r
}

// Path renders the witness path to node id as "file:line" steps (condensed).
func (r *ReachResult) Path(id int) []string {
	var ids []int
	for cur := id; cur >= 0; cur = r.parent[cur] {
		ids = append(ids, cur)
		if _, ok := r.parent[cur]; !ok {
			break
		}
	}
	var out []string
	lastLine := -1
	for i := len(ids) - 1; i >= 0; i-- {
		n := r.g.Nodes[ids[i]]
		if n.Exit {
			out = append(out, "EXIT")
			continue
		}
		if n.Ast == nil {
			continue
		}
		_, line := r.g.W.Pos(n.Ast.Pos())
		if line == lastLine {
			continue
		}
		lastLine = line
		out = append(out, fmt.Sprintf("L%d", line))
	}
	if len(out) > 40 {
		out = append(out[:20], append([]string{"..."}, out[len(out)-19:]...)...)
	}
	return out
}

// after returns the successor node ids of n (start points for "after n executed").
func (g *Graph) after(n *GNode) []int {
	var out []int
	for _, e := range n.Succs {
		out = append(out, e.To)
	}
	return out
}

// MustPrecede: every path from entry to a node satisfying target passes (and leaves) a node
// satisfying required first. Returns the offending target nodes with witness paths.
// Deferred calls never count as "required before".
type Offence struct {
	Node *GNode
	Path []string
}

func (g *Graph) MustPrecede(required, target NPred) []Offence {
	var out []Offence
	r := g.Reach([]int{g.Entry}, func(n *GNode) bool { return required(n) }, nil)
	for _, n := range g.Nodes {
		if r.Seen[n.ID] && target(n) && !required(n) {
			out = append(out, Offence{n, r.Path(n.ID)})
		}
	}
	return out
}

// MustFollow: every path from just after each `from` node to a node satisfying `until`
// (typically an exit class) passes a node satisfying required.
func (g *Graph) MustFollow(from []*GNode, required, until NPred) []Offence {
	var out []Offence
	for _, f := range from {
		r := g.Reach(g.after(f), required, nil)
		for _, n := range g.Nodes {
			if r.Seen[n.ID] && until(n) && !required(n) {
				p := append([]string{fmt.Sprintf("from L%d", g.line(f))}, r.Path(n.ID)...)
				out = append(out, Offence{n, p})
			}
		}
	}
	return out
}

// MustFollowEdge is MustFollow starting on specific edges' targets.
func (g *Graph) MustFollowFrom(starts []int, required, until NPred) []Offence {
	var out []Offence
	r := g.Reach(starts, required, nil)
	for _, n := range g.Nodes {
		if r.Seen[n.ID] && until(n) && !required(n) {
			out = append(out, Offence{n, r.Path(n.ID)})
		}
	}
	return out
}

func (g *Graph) line(n *GNode) int {
	if n.Ast == nil {
		return 0
	}
	_, l := g.W.Pos(n.Ast.Pos())
	return l
}

// DominatedByEdge: target nodes reachable from entry when all edges satisfying cut are removed.
func (g *Graph) ReachableWithout(cut func(from *GNode, e Edge) bool, target NPred) []Offence {
	var out []Offence
	r := g.Reach([]int{g.Entry}, nil, cut)
	for _, n := range g.Nodes {
		if r.Seen[n.ID] && target(n) {
			out = append(out, Offence{n, r.Path(n.ID)})
		}
	}
	return out
}

// ---- node predicates -------------------------------------------------------------------

// calls: the node contains a (non-deferred, non-go) call whose key is in keys.
func calls(keys ...string) NPred {
	m := map[string]bool{}
	for _, k := range keys {
		m[k] = true
	}
	return func(n *GNode) bool {
		for _, cs := range n.Calls {
			if m[cs.Key] && !cs.Deferred && !cs.Go {
				return true
			}
		}
		return false
	}
}

// callsOrDefers also accepts `defer f()` of the key (for post-dominance style rules).
func callsOrDefers(keys ...string) NPred {
	m := map[string]bool{}
	for _, k := range keys {
		m[k] = true
	}
	return func(n *GNode) bool {
		for _, cs := range n.Calls {
			if m[cs.Key] && !cs.Go {
				return true
			}
		}
		return false
	}
}

// callsReaching: the node contains a call whose key is in keys or whose statically resolved
// callee (transitively, bodies in scope) contains such a call.
func (w *World) callsReaching(keys ...string) NPred {
	p := keyIn(keys...)
	memo := map[*Func]bool{}
	return func(n *GNode) bool {
		for _, cs := range n.Calls {
			if cs.Deferred || cs.Go {
				continue
			}
			if p(cs) {
				return true
			}
			if cf := w.CalleeFunc(cs); cf != nil {
				v, ok := memo[cf]
				if !ok {
					v = w.Reaches(cf, p)
					memo[cf] = v
				}
				if v {
					return true
				}
			}
			// function literals passed as arguments are assumed to be invoked by the callee
			for _, a := range cs.Call.Args {
				if lit, ok := ast.Unparen(a).(*ast.FuncLit); ok {
					if lf := w.byLit[lit]; lf != nil {
						v, ok := memo[lf]
						if !ok {
							v = w.Reaches(lf, p)
							memo[lf] = v
						}
						if v {
							return true
						}
					}
				}
			}
		}
		return false
	}
}

func isReturn(n *GNode) bool { return n.Ret != nil }
func isExit(n *GNode) bool   { return n.Exit }

func or(ps ...NPred) NPred {
	return func(n *GNode) bool {
		for _, p := range ps {
			if p(n) {
				return true
			}
		}
		return false
	}
}

func and(ps ...NPred) NPred {
	return func(n *GNode) bool {
		for _, p := range ps {
			if !p(n) {
				return false
			}
		}
		return true
	}
}

func not(p NPred) NPred { return func(n *GNode) bool { return !p(n) } }

// ---- return classification ----------------------------------------------------------------

type RetClass int

const (
	RetNil     RetClass = iota // error operand is the literal nil
	RetNonNil                  // provably non-nil error (fresh error value or ident tested != nil)
	RetUnknown                 // anything else
	RetNoErr                   // function has no error result
)

func (c RetClass) String() string { return [...]string{"nil", "non-nil", "unknown", "noerr"}[c] }

func isErrorType(t types.Type) bool {
	return t != nil && types.Identical(t, types.Universe.Lookup("error").Type())
}

// errResultIndex returns the index of the last result of type error, or -1.
func (g *Graph) errResultIndex() int {
	var sig *types.Signature
	if g.F.Obj != nil {
		sig = g.F.Obj.Type().(*types.Signature)
	} else if tv, ok := g.F.Pkg.TypesInfo.Types[g.F.Lit]; ok {
		sig, _ = tv.Type.(*types.Signature)
	}
	if sig == nil {
		return -1
	}
	for i := sig.Results().Len() - 1; i >= 0; i-- {
		if isErrorType(sig.Results().At(i).Type()) {
			return i
		}
	}
	return -1
}

var freshErrorCalls = map[string]bool{"fmt.Errorf": true, "errors.New": true, "errors.Join": true}

// ErrOperand returns the expression returned in the error position of return node n
// (nil for bare returns or when a single call supplies all results).
func (g *Graph) ErrOperand(n *GNode) ast.Expr {
	idx := g.errResultIndex()
	if idx < 0 || n.Ret == nil {
		return nil
	}
	if len(n.Ret.Results) == 0 {
		return nil
	}
	var nres int
	if g.F.Obj != nil {
		nres = g.F.Obj.Type().(*types.Signature).Results().Len()
	} else {
		nres = len(n.Ret.Results)
	}
	if len(n.Ret.Results) != nres {
		return nil // return f() with multi-value call
	}
	return n.Ret.Results[idx]
}

func (g *Graph) ClassifyReturn(n *GNode) RetClass {
	if g.errResultIndex() < 0 {
		return RetNoErr
	}
	e := g.ErrOperand(n)
	if e == nil {
		return RetUnknown
	}
	e = ast.Unparen(e)
	info := g.F.Pkg.TypesInfo
	if id, ok := e.(*ast.Ident); ok {
		if _, isNil := info.Uses[id].(*types.Nil); isNil {
			return RetNil
		}
		if v, ok := info.Uses[id].(*types.Var); ok {
			// a concrete (struct) value converted to the error interface is never nil
			switch v.Type().Underlying().(type) {
			case *types.Struct:
				return RetNonNil
			}
			if g.W.isSentinelError(v) {
				return RetNonNil
			}
			if g.NonNilAt(n, v) {
				return RetNonNil
			}
		}
		return RetUnknown
	}
	if call, ok := e.(*ast.CallExpr); ok {
		cs := g.W.resolveCall(g.F, call)
		if freshErrorCalls[cs.Key] {
			return RetNonNil
		}
		return RetUnknown
	}
	if _, ok := e.(*ast.CompositeLit); ok {
		return RetNonNil
	}
	if u, ok := e.(*ast.UnaryExpr); ok && u.Op == token.AND {
		return RetNonNil
	}
	return RetUnknown
}

// condNilTest decodes a condition node comparing a variable with nil: returns the variable and
// whether the TRUE edge means "non-nil".
func (g *Graph) condNilTest(n *GNode) (*types.Var, bool, bool) {
	if !n.IsCond {
		return nil, false, false
	}
	ce, isExpr := n.Ast.(ast.Expr)
	if !isExpr {
		return nil, false, false
	}
	be, ok := ast.Unparen(ce).(*ast.BinaryExpr)
	if !ok || (be.Op != token.NEQ && be.Op != token.EQL) {
		return nil, false, false
	}
	info := g.F.Pkg.TypesInfo
	x, y := ast.Unparen(be.X), ast.Unparen(be.Y)
	isNil := func(e ast.Expr) bool {
		id, ok := e.(*ast.Ident)
		if !ok {
			return false
		}
		_, n := info.Uses[id].(*types.Nil)
		return n
	}
	var id *ast.Ident
	if isNil(y) {
		id, _ = x.(*ast.Ident)
	} else if isNil(x) {
		id, _ = y.(*ast.Ident)
	}
	if id == nil {
		return nil, false, false
	}
	v, _ := info.Uses[id].(*types.Var)
	if v == nil {
		return nil, false, false
	}
	return v, be.Op == token.NEQ, true
}

// NonNilAt: node n is only reachable through an edge on which v was tested non-nil, and v is
// not assigned between that test and n.
func (g *Graph) NonNilAt(n *GNode, v *types.Var) bool {
	// n is provably reached with v != nil iff it cannot be reached from the entry, from just after
	// an assignment of v, or from the nil edge of a test of v, without crossing a non-nil edge of a
	// test of v afterwards.
	cut := func(from *GNode, e Edge) bool {
		cv, trueMeansNonNil, ok := g.condNilTest(from)
		if !ok || cv != v {
			return false
		}
		return (e.Cond == 1) == trueMeansNonNil
	}
	starts := []int{g.Entry}
	for _, x := range g.Nodes {
		if x.ID != n.ID && g.assigns(x, v) {
			starts = append(starts, g.after(x)...)
		}
		if cv, tm, ok := g.condNilTest(x); ok && cv == v {
			for _, e := range x.Succs {
				if (e.Cond == 1) != tm {
					starts = append(starts, e.To)
				}
			}
		}
	}
	r := g.Reach(starts, nil, cut)
	return !r.Seen[n.ID]
}

func (g *Graph) canReach(from, to int) bool {
	r := g.Reach([]int{from}, nil, nil)
	return r.Seen[to]
}

// assigns reports whether node x assigns to variable v (plain or define).
func (g *Graph) assigns(x *GNode, v *types.Var) bool {
	if x.Ast == nil {
		return false
	}
	info := g.F.Pkg.TypesInfo
	found := false
	ast.Inspect(x.Ast, func(a ast.Node) bool {
		if _, ok := a.(*ast.FuncLit); ok {
			return false
		}
		if as, ok := a.(*ast.AssignStmt); ok {
			for _, l := range as.Lhs {
				if id, ok := ast.Unparen(l).(*ast.Ident); ok {
					if info.Uses[id] == v || info.Defs[id] == v {
						found = true
					}
				}
			}
		}
		return true
	})
	return found
}

// ---- helpers about call results --------------------------------------------------------------

// errVarOfCall finds, for the node containing call cs as the sole RHS of an assignment or as
// an if-init, the variable receiving the call's error (last) result.
func (g *Graph) errVarOfCall(n *GNode, cs *CallSite) *types.Var {
	as, ok := n.Ast.(*ast.AssignStmt)
	if !ok || len(as.Rhs) != 1 || ast.Unparen(as.Rhs[0]) != ast.Expr(cs.Call) {
		return nil
	}
	info := g.F.Pkg.TypesInfo
	for i := len(as.Lhs) - 1; i >= 0; i-- {
		id, ok := as.Lhs[i].(*ast.Ident)
		if !ok || id.Name == "_" {
			continue
		}
		var v *types.Var
		if o, ok := info.Defs[id].(*types.Var); ok {
			v = o
		} else if o, ok := info.Uses[id].(*types.Var); ok {
			v = o
		}
		if v != nil && isErrorType(v.Type()) {
			return v
		}
	}
	return nil
}

// FailEdgesOf returns the start nodes of the paths on which the error result of call cs (in
// node n) is known non-nil, and those on which it is known nil. ok=false when the error is not
// bound to a variable that is tested.
func (g *Graph) ErrBranches(n *GNode, cs *CallSite) (fail, succ []int, ok bool) {
	v := g.errVarOfCall(n, cs)
	if v == nil {
		return nil, nil, false
	}
	// search forward from n for the first tests of v (without reassignment)
	seen := map[int]bool{}
	var walk func(id int)
	walk = func(id int) {
		if seen[id] {
			return
		}
		seen[id] = true
		x := g.Nodes[id]
		if x.ID != n.ID && g.assigns(x, v) {
			return
		}
		if cv, tm, isTest := g.condNilTest(x); isTest && cv == v {
			for _, e := range x.Succs {
				if (e.Cond == 1) == tm {
					fail = append(fail, e.To)
				} else {
					succ = append(succ, e.To)
				}
			}
			return
		}
		for _, e := range x.Succs {
			walk(e.To)
		}
	}
	for _, e := range n.Succs {
		walk(e.To)
	}
	return fail, succ, len(fail) > 0
}

// nodeText renders a node briefly for reports.
func (g *Graph) nodeText(n *GNode) string {
	if n.Exit {
		return "EXIT"
	}
	if n.Ast == nil {
		return "(empty)"
	}
	s := types.ExprString(exprOf(n.Ast))
	s = strings.ReplaceAll(s, "\n", " ")
	if len(s) > 80 {
		s = s[:77] + "..."
	}
	return s
}

func exprOf(n ast.Node) ast.Expr {
	switch x := n.(type) {
	case ast.Expr:
		return x
	case *ast.ExprStmt:
		return x.X
	case *ast.AssignStmt:
		if len(x.Rhs) > 0 {
			return x.Rhs[0]
		}
	case *ast.ReturnStmt:
		if len(x.Results) > 0 {
			return x.Results[len(x.Results)-1]
		}
		return ast.NewIdent("return")
	case *ast.DeferStmt:
		return x.Call
	case *ast.GoStmt:
		return x.Call
	case *ast.IncDecStmt:
		return x.X
	}
	return ast.NewIdent(fmt.Sprintf("%T", n))
}

// assignsObj reports whether node x assigns to the given field/variable object (selector or ident).
func (g *Graph) assignsObj(x *GNode, obj types.Object) bool {
	if x.Ast == nil {
		return false
	}
	info := g.F.Pkg.TypesInfo
	found := false
	ast.Inspect(x.Ast, func(a ast.Node) bool {
		if _, ok := a.(*ast.FuncLit); ok {
			return false
		}
		switch s := a.(type) {
		case *ast.AssignStmt:
			for _, l := range s.Lhs {
				if o, _ := lhsObject(info, l); o == obj {
					found = true
				}
			}
		case *ast.IncDecStmt:
			if o, _ := lhsObject(info, s.X); o == obj {
				found = true
			}
		}
		return true
	})
	return found
}

// isSentinelError: v is a package-level variable initialised with errors.New / fmt.Errorf and
// never assigned afterwards in the analysed packages (e.g. ErrUnauthorized).
func (w *World) isSentinelError(v *types.Var) bool {
	if v.Pkg() == nil || v.Parent() != v.Pkg().Scope() {
		return false
	}
	if r, ok := w.sentinelMemo[v]; ok {
		return r
	}
	res := false
	for _, p := range w.Pkgs {
		if p.Types != v.Pkg() {
			continue
		}
		for _, file := range p.Syntax {
			for _, d := range file.Decls {
				gd, ok := d.(*ast.GenDecl)
				if !ok || gd.Tok != token.VAR {
					continue
				}
				for _, sp := range gd.Specs {
					vs := sp.(*ast.ValueSpec)
					for i, nm := range vs.Names {
						if p.TypesInfo.Defs[nm] == types.Object(v) && i < len(vs.Values) {
							if call, ok := ast.Unparen(vs.Values[i]).(*ast.CallExpr); ok {
								if sel, ok := call.Fun.(*ast.SelectorExpr); ok {
									if fn, ok := p.TypesInfo.Uses[sel.Sel].(*types.Func); ok && freshErrorCalls[funcKey(fn)] {
										res = true
									}
								}
							}
						}
					}
				}
			}
		}
	}
	if res {
		for _, f := range w.allDeclared() {
			if len(w.writesOf(f, v, true)) > 0 {
				res = false
			}
		}
	}
	if w.sentinelMemo == nil {
		w.sentinelMemo = map[*types.Var]bool{}
	}
	w.sentinelMemo[v] = res
	return res
}
