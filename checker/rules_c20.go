package main

// C20: caches never serve stale data (structural part).

import (
	"fmt"
	"go/ast"
	"go/token"
	"go/types"
	"sort"
	"strings"
)

func init() {
	register("C20", propMeta{
		Explanation:  "Decides how the caches are kept behind the authoritative stores: (R1) a node that is not in the transaction's own caches is resolved through the registry handle's active id, the process-wide MRU shortcut only before commit time and the L1 node cache only on an equal version (shared with C03.R2); (R2) every registry writer of the file-system registry refreshes or evicts what it wrote: Add and UpdateNoLocks touch the caches only after the disk write succeeded and then set L1 and L2 for the written handles, Update evicts L1 and L2 on a failed disk write and refreshes them on success, Remove evicts on every exit (deferred); (R3) positional contract: the callers of Registry.Get index the result in lock-step with the request, so every Registry.Get implementation in scope must return handles in request order: all appends to the result happen in loops over the requested ids and appends of different loops are separated by a reset of the result; (R4) the store repository refreshes or evicts the cached StoreInfo AFTER every successful write of a store's metadata - on the commit path of Update and in its undo closure - and evicts it before the store's folder is removed; (R5) the per-process L1 handle cache (refreshed only by this process's own registry writes) is read by nothing but the pre-commit MRU shortcut of nodeRepositoryBackend.get - in particular no Registry.Get implementation serves handles from it. R4 also requires the record cached after a storeinfo write to be the record that was written. R2 also requires that no iteration over the written handles skips the L2 refresh. (R6) cache.L2InMemoryCache.Set and SetStruct store the entry before every `return nil`, whatever the expiration: the writers above rely on a refresh replacing the cached entry.",
		DoesNotCover: "Cross-process freshness of the time-based caches (L1 handle cache TTL, StoreInfo cache TTL), eviction at arbitrary moments and clustered-vs-standalone cache behaviour are runtime matters and are not decided; the value cache is covered only through C19.R4.",
	}, runC20)
}

func runC20(c *Ctx) {
	w := c.W
	r1 := c.Rule("R1", "reads resolve through the registry handle's active id; MRU shortcut only before commit time; L1 hit requires an equal version", 7)
	readPathRules(c, r1)

	r2 := c.Rule("R2", "file-system registry writers refresh or evict the caches for what they wrote", 10)
	const (
		kL1Set = "cache.Cache.Set"
		kL1Del = "cache.Cache.Delete"
		kL2Set = "sop.L2Cache.SetStruct"
		kL2Del = "sop.L2Cache.Delete"
	)
	registryCacheAfterWriteRule(c, r2)
	registryUpdateRefreshRule(c, r2)
	{
		f := w.Fn("fs.registryOnDisk.Remove")
		g := w.G(f)
		c.Analysed(f)
		rm := g.callNodes("fs.registryMap.remove")
		// a deferred call (of a literal or function) reaching both evictions, registered before the disk removal
		var deferred *GNode
		for _, n := range g.Nodes {
			for _, cs := range n.Calls {
				if !cs.Deferred {
					continue
				}
				var callee *Func
				if v, ok := cs.Callee.(*types.Var); ok {
					for _, d := range localDefs(f)[v] {
						if lit, ok := ast.Unparen(d).(*ast.FuncLit); ok {
							callee = w.byLit[lit]
						}
					}
				} else {
					callee = w.CalleeFunc(cs)
				}
				if callee != nil && w.Reaches(callee, func(x *CallSite) bool {
					return strings.HasSuffix(x.Key, ".Delete") && strings.HasPrefix(x.Key, "cache.")
				}) && w.Reaches(callee, keyIn(kL2Del)) {
					deferred = n
				}
			}
		}
		ok := len(rm) == 1 && deferred != nil && len(g.MustPrecede(func(n *GNode) bool { return n == deferred }, calls("fs.registryMap.remove"))) == 0
		c.Check(ok, r2, "Remove: L1 and L2 eviction is deferred before the disk removal", f.Decl.Pos(), "defer deleteFromCache(...) precedes hashmap.remove", "a removed handle can stay in the caches (evictions are not guaranteed on every exit)", nil)
	}

	r6 := c.Rule("R6", "the in-process L2 cache overwrites on every successful Set: registry and store repository writers rely on SetStruct replacing whatever is cached under the key (Get trusts L2 before the file), so in cache.L2InMemoryCache.Set / SetStruct every `return nil` is preceded by the store of the entry, whatever the expiration", 2)
	for _, k := range []string{"cache.L2InMemoryCache.Set", "cache.L2InMemoryCache.SetStruct"} {
		f := w.Fn(k)
		g := w.G(f)
		c.Analysed(f)
		isStore := func(n *GNode) bool {
			for _, cs := range n.Calls {
				if strings.HasSuffix(cs.Key, ".store") && strings.HasPrefix(cs.Key, "cache.") {
					return true
				}
			}
			return false
		}
		c.Check(len(g.Find(isStore)) >= 1, r6, shortKey(k)+": the entry store is present", f.Decl.Pos(), "present", "no store of the entry found", nil)
		offs := g.MustPrecede(isStore, func(n *GNode) bool { return n.Ret != nil && g.ClassifyReturn(n) == RetNil })
		c.Offences(g, offs, r6, shortKey(k)+": every success return has stored the entry", f.Decl.Pos(), "store precedes `return nil`",
			"Set can report success without replacing the cached entry: a refresh that takes this path leaves the previous handle / store info under the key, and registry.Get (which trusts L2 before the file) keeps serving the pre-commit version and active id to readers and to the commit-time version checks")
	}

	r3 := c.Rule("R3", "every Registry.Get implementation returns handles in request order", 2)
	{
		var impls []*Func
		for _, f := range w.allDeclared() {
			if f.Obj == nil || f.Obj.Name() != "Get" || strings.Contains(f.Key, "mock") || strings.Contains(f.Key, "Mock") {
				continue
			}
			sig := f.Obj.Type().(*types.Signature)
			if sig.Recv() == nil || sig.Params().Len() != 2 || sig.Results().Len() != 2 {
				continue
			}
			if !strings.Contains(sig.Params().At(1).Type().String(), "RegistryPayload[github.com/sharedcode/sop.UUID]") || !strings.Contains(sig.Results().At(0).Type().String(), "RegistryPayload[github.com/sharedcode/sop.Handle]") {
				continue
			}
			impls = append(impls, f)
		}
		sort.Slice(impls, func(i, j int) bool { return impls[i].Key < impls[j].Key })
		for _, f := range impls {
			g := w.G(f)
			c.Analysed(f)
			info := f.Pkg.TypesInfo
			idsFld := w.Field("sop", "RegistryPayload", "IDs")
			// result element variable(s): the slice placed in the IDs field of an appended payload
			resVars := map[*types.Var]bool{}
			ast.Inspect(f.Body, func(x ast.Node) bool {
				kv, ok := x.(*ast.KeyValueExpr)
				if !ok {
					return true
				}
				if id, ok := kv.Key.(*ast.Ident); ok && originOf(info.Uses[id]) == types.Object(idsFld) {
					if vid, ok := ast.Unparen(kv.Value).(*ast.Ident); ok {
						if v, ok := info.Uses[vid].(*types.Var); ok {
							if sl, ok := v.Type().Underlying().(*types.Slice); ok && typeBaseName(sl.Elem()) == "Handle" {
								resVars[v] = true
							}
						}
					}
				}
				return true
			})
			if len(resVars) == 0 {
				// a delegating implementation (e.g. wrapper) is fine when it just forwards
				fw := false
				for _, cs := range w.Sites(f) {
					if cs.Key == kRegGet {
						fw = true
					}
				}
				c.Check(fw, r3, f.Key+": result slice identified", f.Decl.Pos(), "forwards to another Registry.Get", "cannot identify the slice of handles returned per store", nil)
				continue
			}
			type app struct {
				n    *GNode
				head *GNode
			}
			var apps []app
			var resets []*GNode
			for _, n := range g.Nodes {
				as, ok := n.Ast.(*ast.AssignStmt)
				if !ok || len(as.Lhs) != 1 || len(as.Rhs) != 1 {
					continue
				}
				lid, ok := ast.Unparen(as.Lhs[0]).(*ast.Ident)
				if !ok {
					continue
				}
				v, _ := info.Uses[lid].(*types.Var)
				if v == nil {
					v, _ = info.Defs[lid].(*types.Var)
				}
				if v == nil || !resVars[v] {
					continue
				}
				if call, ok := ast.Unparen(as.Rhs[0]).(*ast.CallExpr); ok && w.resolveCall(f, call).Key == "builtin.append" {
					// innermost loop (range or for) containing the append
					apps = append(apps, app{n, innermostLoop(g, n)})
					continue
				}
				resets = append(resets, n) // make(...), x[:0], nil
			}
			ok := len(apps) > 0
			detail := ""
			// the request: a range variable over the method's second parameter, its IDs field
			par := f.Obj.Type().(*types.Signature).Params().At(1)
			overRequest := func(h *GNode) bool {
				if h == nil || h.RangeHead == nil {
					return false
				}
				x := h.RangeHead.X
				if fieldOfSelector(info, x) != idsFld {
					return false
				}
				// x is <v>.IDs where v ranges over the parameter
				sel := ast.Unparen(x).(*ast.SelectorExpr)
				id, ok := ast.Unparen(sel.X).(*ast.Ident)
				if !ok {
					return false
				}
				vv := info.Uses[id]
				okv := false
				ast.Inspect(f.Body, func(y ast.Node) bool {
					if rs, isR := y.(*ast.RangeStmt); isR && mentionsObj(info, rs.X, par) {
						if vid, isID := rs.Value.(*ast.Ident); isID && info.Defs[vid] == vv {
							okv = true
						}
					}
					return true
				})
				return okv
			}
			for _, a := range apps {
				if !overRequest(a.head) {
					ok = false
					detail = fmt.Sprintf("the append at %s is not inside a loop over the requested ids", w.PosStr(a.n.Ast.Pos()))
				}
			}
			if ok {
				for _, a1 := range apps {
					for _, a2 := range apps {
						if a1.head == a2.head || !g.canReach(a1.n.ID, a2.n.ID) {
							continue
						}
						if offs := g.MustFollow([]*GNode{a1.n}, nodeSet(resets), func(n *GNode) bool { return n == a2.n }); len(offs) > 0 {
							// staying inside a1's loop before leaving it is fine: start from the loop exit
							r := g.Reach(branchStarts([]*GNode{a1.head}, 2), nodeSet(resets), nil)
							if r.Seen[a2.n.ID] {
								ok = false
								detail = fmt.Sprintf("handles appended by the loop at %s and by the loop at %s are concatenated without a reset: the result is the first group followed by the second, not the request order", w.PosStr(a1.n.Ast.Pos()), w.PosStr(a2.n.Ast.Pos()))
							}
						}
					}
				}
			}
			c.Check(ok, r3, f.Key+": result follows the order of the requested ids", f.Decl.Pos(), fmt.Sprintf("%d append site(s), all in loops over the request, groups separated by a reset", len(apps)),
				"Registry.Get can return handles in an order other than the request's ("+detail+"); commitUpdatedNodes / commitRemovedNodes / areFetchedItemsIntact / the rollback functions pair result i with node i", nil)
		}
		c.Check(len(impls) >= 2, r3, "Registry.Get implementations found", token.NoPos, fmt.Sprintf("%d", len(impls)), "fewer than two implementations in scope", nil)
	}

	r5 := c.Rule("R5", "the per-process L1 handle cache is read only by the pre-commit MRU shortcut, never as a source for Registry.Get", 1)
	{
		hf := w.Field("cache", "L1Cache", "Handles")
		var readers []string
		for _, f := range w.allDeclared() {
			if f.Pkg.PkgPath == modPrefix+"/cache" {
				continue // the cache's own implementation
			}
			for _, cs := range w.AllSites(f) {
				sel, ok := cs.Call.Fun.(*ast.SelectorExpr)
				if !ok || sel.Sel.Name != "Get" || fieldOfSelector(f.Pkg.TypesInfo, sel.X) != hf {
					continue
				}
				root := cs.In
				for root.Parent != nil {
					root = root.Parent
				}
				readers = append(readers, root.Key)
			}
		}
		sort.Strings(readers)
		readers = dedup(readers)
		c.Check(sameSet(readers, "common.nodeRepositoryBackend.get"), r5, "readers of L1Cache.Handles outside package cache", token.NoPos, fmt.Sprintf("%v", readers),
			fmt.Sprintf("the process-local handle cache is read by %v: it is refreshed only by this process's own registry writes, so serving registry lookups (or anything but the pre-commit MRU shortcut) from it returns handles another process has already replaced", readers), nil)
	}

	r4 := c.Rule("R4", "the store repository refreshes (or evicts) the cached StoreInfo after every successful metadata write, on the commit path and in the undo closure, and evicts it before removing the store", 7)
	{
		updateCacheCoherenceRule(c, r4)
		fr := w.Fn("fs.StoreRepository.Remove")
		gr := w.G(fr)
		c.Analysed(fr)
		offs := gr.MustPrecede(calls(kL2Del), calls("fs.fileIO.removeStore"))
		c.Offences(gr, offs, r4, "StoreRepository.Remove: cache entry evicted before the store folder is removed", fr.Decl.Pos(), "cache.Delete precedes removeStore", "a removed store can stay in the StoreInfo cache")
		fa := w.Fn("fs.StoreRepository.Add")
		ga := w.G(fa)
		c.Analysed(fa)
		okA := len(ga.callNodes(kL2Set)) >= 1 && len(ga.MustPrecede(calls("fs.fileIO.write"), calls(kL2Set))) == 0
		c.Check(okA, r4, "StoreRepository.Add: StoreInfo is cached only after it was written", fa.Decl.Pos(), "write precedes SetStruct", "a store can be cached without having been written", nil)
	}
	_ = kL1Set
	_ = kL1Del
}

// innermostLoop returns the head node of the innermost range loop enclosing n, or a pseudo value
// for a classic for loop (nil RangeHead) when the innermost loop is not a range.
func innermostLoop(g *Graph, n *GNode) *GNode {
	if n.Ast == nil {
		return nil
	}
	var bestRange *ast.RangeStmt
	var bestFor *ast.ForStmt
	ast.Inspect(g.F.Body, func(x ast.Node) bool {
		switch s := x.(type) {
		case *ast.FuncLit:
			return false
		case *ast.RangeStmt:
			if s.Body.Pos() <= n.Ast.Pos() && n.Ast.End() <= s.Body.End() {
				if bestRange == nil || s.Pos() > bestRange.Pos() {
					bestRange = s
				}
			}
		case *ast.ForStmt:
			if s.Body.Pos() <= n.Ast.Pos() && n.Ast.End() <= s.Body.End() {
				if bestFor == nil || s.Pos() > bestFor.Pos() {
					bestFor = s
				}
			}
		}
		return true
	})
	if bestFor != nil && (bestRange == nil || bestFor.Pos() > bestRange.Pos()) {
		return &GNode{ID: -1} // a classic for loop: never "over the request"
	}
	if bestRange == nil {
		return nil
	}
	for _, h := range g.Nodes {
		if h.RangeHead == bestRange {
			return h
		}
	}
	return nil
}

// registryCacheAfterWriteRule (part of C20.R2, shared by C03.R6): Add / UpdateNoLocks of the file-system
// registry publish handles to the L1 / L2 caches only after the registry file write succeeded.
func registryCacheAfterWriteRule(c *Ctx, r2 string) {
	w := c.W
	const kL2Set = "sop.L2Cache.SetStruct"
	l1Key := func(f *Func, suffix string) string {
		for _, cs := range w.AllSites(f) {
			if strings.HasSuffix(cs.Key, "."+suffix) {
				if sel, ok := cs.Call.Fun.(*ast.SelectorExpr); ok && strings.Contains(types.ExprString(sel.X), "l1Cache.Handles") {
					return cs.Key
				}
			}
		}
		return ""
	}
	for _, spec := range []struct{ fn, write string }{
		{"fs.registryOnDisk.Add", "fs.registryMap.add"},
		{"fs.registryOnDisk.UpdateNoLocks", "fs.registryMap.set"},
	} {
		f := w.Fn(spec.fn)
		g := w.G(f)
		c.Analysed(f)
		info := f.Pkg.TypesInfo
		wr := g.callNodes(spec.write)
		setK := l1Key(f, "Set")
		c.Check(len(wr) == 1 && setK != "", r2, shortKey(spec.fn)+": disk write and L1 refresh present", f.Decl.Pos(), "one disk write, L1 Handles.Set", fmt.Sprintf("disk writes %d, L1 set key %q", len(wr), setK), nil)
		if len(wr) != 1 || setK == "" {
			continue
		}
		cacheTouch := calls(setK, kL2Set)
		fail, _, ok := g.ErrBranches(wr[0].n, wr[0].cs)
		okOrder := ok && len(g.MustPrecede(calls(spec.write), cacheTouch)) == 0
		if okOrder {
			r := g.Reach(fail, nil, nil)
			for _, x := range g.Find(cacheTouch) {
				if r.Seen[x.ID] {
					okOrder = false
				}
			}
		}
		c.Check(okOrder, r2, shortKey(spec.fn)+": caches are written only after the disk write succeeded", wr[0].cs.Call.Pos(), "cache refresh unreachable from the failure edge, disk write first", "the caches can be refreshed with handles that did not reach the registry file", nil)
		// both caches are refreshed from the parameter, in loops over it
		sig := f.Obj.Type().(*types.Signature)
		par := sig.Params().At(sig.Params().Len() - 1)
		okAll := true
		for _, k := range []string{setK, kL2Set} {
			ncs := g.callNodes(k)
			if len(ncs) == 0 {
				okAll = false
			}
			for _, nc := range ncs {
				inLoop := false
				for _, h := range g.rangeHeads(nc.n) {
					if mentionsObj(info, h.RangeHead.X, par) {
						inLoop = true
					}
				}
				if !inLoop {
					okAll = false
				}
			}
		}
		c.Check(okAll, r2, shortKey(spec.fn)+": L1 and L2 are refreshed for every written handle", f.Decl.Pos(), "Handles.Set and SetStruct inside loops over the written payload", "a written handle is not propagated to one of the caches (a later read is served the old handle)", nil)
		// ... on every iteration: no path through the loop over the payload skips the L2 refresh (its inner loop)
		for _, nc := range g.callNodes(kL2Set) {
			hs := g.rangeHeads(nc.n)
			var outer, inner *GNode
			for _, h := range hs {
				if mentionsObj(info, h.RangeHead.X, par) {
					outer = h
				} else {
					inner = h
				}
			}
			if outer == nil {
				continue
			}
			target := nc.n
			if inner != nil {
				target = inner
			}
			var body []int
			for _, e := range outer.Succs {
				if e.Cond == 1 {
					body = append(body, e.To)
				}
			}
			offs := g.MustFollowFrom(body, func(x *GNode) bool { return x == target }, func(x *GNode) bool { return x == outer || x.Exit })
			c.Offences(g, offs, r2, shortKey(spec.fn)+": no written handle skips the L2 refresh", nc.cs.Call.Pos(), "every iteration over the written payload reaches the SetStruct loop",
				"an iteration over the written handles can skip the L2 refresh (for a class of writes, say the non-final ones): the same entry point also writes the handles a rollback or the priority rollback RESTORES, so after a restore the shared cache keeps the flipped handle and every process resolves the aborted transaction's node until the entry expires")
		}
	}
}

// updateCacheCoherenceRule (part of C20.R4, shared by C06.R6): in fs.StoreRepository.Update and its closures every
// successful storeinfo write is followed by a cache refresh / eviction of that store, and the record cached is
// the record written.
func updateCacheCoherenceRule(c *Ctx, r4 string) {
	w := c.W
	const (
		kL2Set = "sop.L2Cache.SetStruct"
		kL2Del = "sop.L2Cache.Delete"
	)
	f := w.Fn("fs.StoreRepository.Update")
	_ = w.G(f)
	c.Analysed(f)
	nW := 0
	for _, fn := range append([]*Func{f}, w.allLits(f)...) {
		gf := w.G(fn)
		until := func(n *GNode) bool {
			if n.RangeHead != nil || n.Exit || n.Ret != nil {
				return true
			}
			_, isInc := n.Ast.(*ast.IncDecStmt) // post statement of a counted loop: next store
			return isInc
		}
		name := "StoreRepository.Update"
		if fn != f {
			name = "StoreRepository.Update (undo closure)"
		}
		for _, nc := range gf.callNodes("fs.fileIO.write") {
			nW++
			construct := fmt.Sprintf("%s: successful storeinfo write #%d is followed by a cache refresh or eviction of that store", name, ordinalOf(w, fn, nc.cs))
			_, succ, ok := gf.ErrBranches(nc.n, nc.cs)
			if !ok {
				c.Violated(r4, construct, nc.cs.Call.Pos(), "the result of the write is not tested", nil)
				continue
			}
			// the record cached is the record written: the data written derives from X.Count (in-place patch) or
			// Marshal(X); the next cache refresh on the success path must be handed &X
			{
				defsAll := map[types.Object][]ast.Expr{}
				for _, fx := range append([]*Func{f}, w.allLits(f)...) {
					for k, v := range localDefs(fx) {
						defsAll[k] = append(defsAll[k], v...)
					}
				}
				finfo := fn.Pkg.TypesInfo
				written := ""
				if len(nc.cs.Call.Args) == 3 {
					var visit func(e ast.Expr, depth int)
					seenO := map[types.Object]bool{}
					visit = func(e ast.Expr, depth int) {
						if depth > 4 || written != "" {
							return
						}
						ast.Inspect(e, func(x ast.Node) bool {
							switch y := x.(type) {
							case *ast.CallExpr:
								if cs2 := w.resolveCall(fn, y); cs2 != nil {
									if cs2.Key == "fs.patchJSONNumericField" && len(y.Args) == 3 {
										if sel, ok := ast.Unparen(y.Args[2]).(*ast.SelectorExpr); ok && sel.Sel.Name == "Count" {
											written = types.ExprString(sel.X)
										}
									}
									if cs2.Key == "encoding.Marshal" && len(y.Args) == 1 {
										written = types.ExprString(ast.Unparen(y.Args[0]))
									}
								}
							case *ast.Ident:
								if o := finfo.Uses[y]; o != nil && !seenO[o] {
									seenO[o] = true
									for _, d := range defsAll[o] {
										visit(d, depth+1)
									}
								}
							}
							return written == ""
						})
					}
					visit(nc.cs.Call.Args[2], 0)
				}
				refresh := w.callsReaching(kL2Set)
				r := gf.Reach(succ, func(x *GNode) bool { return refresh(x) || until(x) }, nil)
				cached := ""
				var cpos token.Pos
				for _, x := range gf.Nodes {
					if !r.Seen[x.ID] || !refresh(x) {
						continue
					}
					for _, cs2 := range x.Calls {
						for _, a := range cs2.Call.Args {
							if u, ok := ast.Unparen(a).(*ast.UnaryExpr); ok && u.Op == token.AND {
								if t := finfo.TypeOf(u.X); t != nil && strings.HasSuffix(t.String(), "sop.StoreInfo") {
									cached = types.ExprString(ast.Unparen(u.X))
									cpos = a.Pos()
								}
							}
						}
						// a local helper closure that takes something else (an index, say): look inside it for the
						// SetStruct value and substitute the call's arguments for the closure's parameters
						if cached == "" {
							if cf := w.CalleeFunc(cs2); cf != nil && cf.Lit != nil {
								cdefs := localDefs(cf)
								cinfo := cf.Pkg.TypesInfo
								for _, ics := range w.Sites(cf) {
									if ics.Key != kL2Set || len(ics.Call.Args) < 3 {
										continue
									}
									v := ast.Unparen(ics.Call.Args[2])
									for d := 0; d < 3; d++ {
										if id, ok := v.(*ast.Ident); ok {
											if ds := cdefs[cinfo.Uses[id]]; len(ds) == 1 {
												v = ast.Unparen(ds[0])
												continue
											}
										}
										break
									}
									if u, ok := v.(*ast.UnaryExpr); ok && u.Op == token.AND {
										v = ast.Unparen(u.X)
									}
									txt := types.ExprString(v)
									pi := 0
									for _, fld := range cf.Lit.Type.Params.List {
										for _, nm := range fld.Names {
											if pi < len(cs2.Call.Args) {
												txt = substIdent(txt, nm.Name, types.ExprString(cs2.Call.Args[pi]))
											}
											pi++
										}
									}
									cached = txt
									cpos = cs2.Call.Pos()
								}
							}
						}
					}
				}
				if written != "" && cached != "" {
					c.Check(written == cached, r4, fmt.Sprintf("%s: write #%d - the record cached is the record written", name, ordinalOf(w, fn, nc.cs)), cpos, "cache gets &"+written,
						fmt.Sprintf("the file is written from `%s` but the cache is refreshed with `%s`: after this step the shared cache holds a count that is not the one on disk, readers report it and the next Update adds its delta to it", written, cached), nil)
				}
			}
			offs := gf.MustFollowFrom(succ, func(x *GNode) bool { return calls(kL2Set, kL2Del)(x) || w.callsReaching(kL2Set, kL2Del)(x) }, until)
			c.Offences(gf, offs, r4, construct, nc.cs.Call.Pos(), "SetStruct / Delete after the successful write, before the next store",
				"a store's metadata is rewritten on disk while the shared cache keeps (or was just re-seeded with) the previous record: readers and the next Update, which adds its delta to the cached count, work from a count that is not the one on disk")
		}
	}
	c.Check(nW >= 4, r4, "StoreRepository.Update: storeinfo write sites inventoried", f.Decl.Pos(), fmt.Sprintf("%d write sites (commit path and undo)", nW), fmt.Sprintf("found %d write sites, expected at least 4", nW), nil)
}

// substIdent replaces whole-word occurrences of an identifier in an expression text.
func substIdent(txt, name, repl string) string {
	isWord := func(b byte) bool {
		return b == '_' || (b >= '0' && b <= '9') || (b >= 'a' && b <= 'z') || (b >= 'A' && b <= 'Z')
	}
	var out []byte
	for i := 0; i < len(txt); {
		if strings.HasPrefix(txt[i:], name) && (i == 0 || (!isWord(txt[i-1]) && txt[i-1] != '.')) && (i+len(name) == len(txt) || !isWord(txt[i+len(name)])) {
			out = append(out, repl...)
			i += len(name)
			continue
		}
		out = append(out, txt[i])
		i++
	}
	return string(out)
}

// registryUpdateRefreshRule (C20.R2, shared by C09.R9): fs.registryOnDisk.Update - the locked per-handle registry
// write the replay of a dead transaction's log goes through - refreshes L2 and L1 after a successful disk write
// and evicts both after a failed one, unconditionally.
func registryUpdateRefreshRule(c *Ctx, r2 string) {
	w := c.W
	const (
		kL2Set = "sop.L2Cache.SetStruct"
		kL2Del = "sop.L2Cache.Delete"
	)
	l1Key := func(f *Func, suffix string) string {
		for _, cs := range w.AllSites(f) {
			if strings.HasSuffix(cs.Key, "."+suffix) {
				if sel, ok := cs.Call.Fun.(*ast.SelectorExpr); ok && strings.Contains(types.ExprString(sel.X), "l1Cache.Handles") {
					return cs.Key
				}
			}
		}
		return ""
	}
	{
		f := w.Fn("fs.registryOnDisk.Update")
		g := w.G(f)
		c.Analysed(f)
		wr := g.callNodes("fs.registryMap.set")
		setK, delK := l1Key(f, "Set"), l1Key(f, "Delete")
		c.Check(len(wr) == 1 && setK != "" && delK != "", r2, "Update: disk write, L1 refresh and L1 eviction present", f.Decl.Pos(), "present", fmt.Sprintf("disk writes %d, set %q, delete %q", len(wr), setK, delK), nil)
		if len(wr) == 1 && setK != "" && delK != "" {
			fail, succ, ok := g.ErrBranches(wr[0].n, wr[0].cs)
			c.Check(ok, r2, "Update: result of the disk write is tested", wr[0].cs.Call.Pos(), "tested", "error of hashmap.set not tested", nil)
			if ok {
				for _, k := range []string{delK, kL2Del} {
					offs := g.MustFollowFrom(fail, calls(k), isReturn)
					c.Offences(g, offs, r2, "Update: failed disk write evicts "+shortKey(k), wr[0].cs.Call.Pos(), "eviction precedes the error return", "after a failed (possibly partial) disk write the cached handle is kept")
				}
				offs := g.MustFollowFrom(succ, calls(kL2Set), func(n *GNode) bool { return n.Ret != nil || n.RangeHead != nil })
				c.Offences(g, offs, r2, "Update: successful disk write refreshes L2", wr[0].cs.Call.Pos(), "SetStruct follows the write", "a written handle is not propagated to the L2 cache")
				offs = g.MustFollowFrom(succ, calls(setK), func(n *GNode) bool { return n.Ret != nil && g.ClassifyReturn(n) == RetNil })
				c.Offences(g, offs, r2, "Update: successful disk write refreshes L1 before returning success", wr[0].cs.Call.Pos(), "Handles.Set precedes `return nil`", "Update can succeed without refreshing the L1 handle cache")
			}
		}
	}
}
