package main

// C37: the commit protocol never installs two successors of one node version (structural part).

import (
	"fmt"
	"go/ast"
	"go/constant"
	"go/token"
	"go/types"
)

func init() {
	register("C37", propMeta{
		Explanation:  "Decides the claim discipline of the two-slot handle protocol: (R1) Handle.AllocateID writes a physical id slot only when not both slots are in use and returns NilUUID otherwise; commitUpdatedNodes treats a NilUUID allocation as a conflict (return false) unless the existing reservation has expired, in which case it is cleared first; (R2) the protocol steps this relies on, shared with other properties: the registry version is compared with the node's version before anything is reserved (C02.R2), the reservation is written to the registry before the blob (C03.R1), the active id is flipped only at the single all-or-nothing commit point (C01.R2), pre-images are logged before the in-place flip and restored by priority rollback (C08.R2/R3); (R3) activateInactiveNodes pairs FlipActiveID with Version++ for every handle and touchNodes bumps the version of every removed handle, so a successor always carries a new version; (R4) undo functions that cannot tell this transaction's state from a competitor's (rollbackUpdatedNodes clears whatever reservation the handle holds, rollbackRemovedNodes clears whatever deletion mark it holds, rollbackNewRootNodes removes whatever root is registered) run in the live rollback only in a state that implies the step succeeded FOR THIS transaction: the guard is strictly `committedState > step`, and every later step's log call is reachable only through the success edge of the step's action. A `>=` guard would run the undo after the step returned false on detecting a competitor's reservation - wiping the competitor's staged successor. (R5) phase2Commit does not clear the node keys between a failed commit-point write and its return, because Phase2Commit restores the pre-images only while the keys are held.",
		DoesNotCover: "The interleaving / crash state space itself is not explored; lock expiry timing is a runtime matter.",
	}, runC37)
}

func runC37(c *Ctx) {
	w := c.W
	r1 := c.Rule("R1", "AllocateID claims a slot only when one is free; commitUpdatedNodes treats a failed claim as a conflict unless the old claim expired", 3)
	{
		f := w.Fn("sop.Handle.AllocateID")
		g := w.G(f)
		c.Analysed(f)
		info := f.Pkg.TypesInfo
		inUse := g.condNodes(func(e ast.Expr) bool { return w.mentionsCall(f, e, "sop.Handle.IsAandBinUse") })
		pa, pb := w.Field("sop", "Handle", "PhysicalIDA"), w.Field("sop", "Handle", "PhysicalIDB")
		stores := func(n *GNode) bool { return g.assignsObj(n, pa) || g.assignsObj(n, pb) }
		ok := len(inUse) == 1 && len(g.Find(stores)) == 2
		if ok {
			r := g.Reach(branchStarts(inUse, 1), nil, nil)
			for _, x := range g.Find(stores) {
				if r.Seen[x.ID] {
					ok = false
				}
			}
			for _, x := range g.Nodes {
				if r.Seen[x.ID] && x.Ret != nil {
					id, isID := ast.Unparen(x.Ret.Results[0]).(*ast.Ident)
					if !isID || info.Uses[id] != w.Object("sop", "NilUUID") {
						ok = false
					}
				}
			}
		}
		c.Check(ok, r1, "AllocateID: a slot is written only when not both are in use, otherwise NilUUID", f.Decl.Pos(), "guarded by IsAandBinUse()", "AllocateID can overwrite a physical id slot that is in use (the active blob or a competitor's reservation)", nil)
		// the slot written is the inactive one
		actB := g.condNodes(func(e ast.Expr) bool { return fieldOfSelector(info, e) == w.Field("sop", "Handle", "IsActiveIDB") })
		okSlot := len(actB) == 1
		if okSlot {
			rt := g.Reach(branchStarts(actB, 1), isReturn, nil)
			rf := g.Reach(branchStarts(actB, 2), isReturn, nil)
			for _, x := range g.Nodes {
				if rt.Seen[x.ID] && g.assignsObj(x, pb) {
					okSlot = false
				}
				if rf.Seen[x.ID] && g.assignsObj(x, pa) {
					okSlot = false
				}
			}
		}
		c.Check(okSlot, r1, "AllocateID: the slot written is the inactive one", f.Decl.Pos(), "A when B is active, B otherwise", "AllocateID can overwrite the ACTIVE physical id", nil)
		fc := w.Fn(kNRBcommitUpdated)
		gc := w.G(fc)
		c.Analysed(fc)
		ci := fc.Pkg.TypesInfo
		allocs := gc.callNodes("sop.Handle.AllocateID")
		okC := len(allocs) >= 1
		var idVar *types.Var
		if okC {
			idVar = gc.lhsVarOfCall(allocs[0].n, allocs[0].cs, 0)
			okC = idVar != nil
		}
		if okC {
			nilT := gc.condNodes(func(e ast.Expr) bool {
				be, ok := e.(*ast.BinaryExpr)
				return ok && be.Op == token.EQL && mentionsObj(ci, be.X, idVar) && mentionsObj(ci, be.Y, w.Object("sop", "NilUUID"))
			})
			okC = len(nilT) >= 1
			// the LAST nil test's true edge returns false; the blob key assignment is unreachable with id == nil:
			// cutting all false edges of nil tests... simpler: from the true edge of the last nil test only `return false` is reachable
			last := nilT[len(nilT)-1]
			for _, cn := range nilT {
				if cn.Ast.Pos() > last.Ast.Pos() {
					last = cn
				}
			}
			r := gc.Reach(branchStarts([]*GNode{last}, 1), isReturn, nil)
			for _, x := range gc.Nodes {
				if r.Seen[x.ID] && (x.RangeHead != nil || (x.Ret != nil && !isBoolLit(ci, x.Ret.Results[0], false))) {
					okC = false
				}
			}
			// a second AllocateID (after clearing) only under IsExpiredInactive
			exp := gc.condNodes(func(e ast.Expr) bool { return w.mentionsCall(fc, e, "sop.Handle.IsExpiredInactive") })
			clr := gc.callNodes("sop.Handle.ClearInactiveID")
			for _, cl := range clr {
				if len(gc.notOnlyVia(exp, 1, func(n *GNode) bool { return n == cl.n })) != 0 {
					okC = false
				}
			}
		}
		c.Check(okC, r1, "commitUpdatedNodes: a failed claim is a conflict; a foreign claim is cleared only when expired", fc.Decl.Pos(), "id == NilUUID returns false; ClearInactiveID only under IsExpiredInactive()", "commitUpdatedNodes can proceed although both slots are in use, or clears a competitor's live reservation", nil)
	}

	r2 := c.Rule("R2", "shared protocol steps: version compared before reserving, reservation before blob, flip only at the commit point, pre-images logged before the flip and restored by priority rollback", 20)
	versionLoopRule(c, r2, kNRBcommitUpdated, true)
	versionLoopRule(c, r2, kNRBcommitRemoved, true)
	ruleSingleCommitPoint(c, r2)
	rulePreImagesBeforeFlip(c, r2)
	rulePriorityRestore(c, r2)
	{
		f := w.Fn(kNRBcommitUpdated)
		g := w.G(f)
		offs := g.MustPrecede(calls(kRegUpdNL), calls(kBlobAdd))
		c.Offences(g, offs, r2, "commitUpdatedNodes: reservation is written before the blob", f.Decl.Pos(), "registry.UpdateNoLocks precedes blobStore.Add", "a staged blob can be written without its id being reserved in the registry")
	}

	r3 := c.Rule("R3", "a successor always carries a new version: activateInactiveNodes flips and bumps, touchNodes bumps, for every handle", 2)
	ver := w.Field("sop", "Handle", "Version")
	for _, spec := range []struct {
		fn   string
		flip bool
	}{{kNRBactivate, true}, {kNRBtouch, false}} {
		f := w.Fn(spec.fn)
		g := w.G(f)
		c.Analysed(f)
		info := f.Pkg.TypesInfo
		bump := func(n *GNode) bool {
			s, ok := n.Ast.(*ast.IncDecStmt)
			return ok && s.Tok == token.INC && fieldOfSelector(info, s.X) == ver
		}
		var inner *GNode
		for _, n := range g.Nodes {
			if n.RangeHead != nil && (inner == nil || n.RangeHead.Pos() > inner.RangeHead.Pos()) {
				inner = n
			}
		}
		ok := inner != nil && len(g.Find(bump)) == 1
		if ok {
			ok = len(g.MustFollowFrom(bodyStarts(inner), bump, func(n *GNode) bool { return n == inner })) == 0
			if spec.flip {
				ok = ok && len(g.MustFollowFrom(bodyStarts(inner), calls("sop.Handle.FlipActiveID"), func(n *GNode) bool { return n == inner })) == 0
			} else {
				ok = ok && len(g.callNodes("sop.Handle.FlipActiveID")) == 0
			}
		}
		what := "Version++ for every handle"
		if spec.flip {
			what = "FlipActiveID and Version++ for every handle"
		}
		c.Check(ok, r3, shortKey(spec.fn)+": "+what, f.Decl.Pos(), "in the innermost loop on every iteration", "a handle can be finalised without a new version (two successors of one version become indistinguishable to the version check)", nil)
	}

	r4 := c.Rule("R4", "undos that cannot tell own from foreign state run only when the step succeeded for this transaction (strict `>` guard; later log calls only through the step's success edge)", 6)
	foreignBlindUndoRule(c, r4)

	r5 := c.Rule("R5", "a failed commit-point write reaches the pre-image restore: Phase2Commit restores the handles' pre-images (priorityRollback) only while the node keys are still held (nodesKeysExist), so phase2Commit must not clear them between the failure of the all-or-nothing registry update and its return", 3)
	failedFlipKeepsKeysRule(c, r5)
}

// failedFlipKeepsKeysRule (C37.R5, shared by C08.R3): derived from Phase2Commit's recovery decision.
func failedFlipKeepsKeysRule(c *Ctx, r5 string) {
	w := c.W
	fP2 := w.Fn(kTxP2)
	gP2 := w.G(fP2)
	c.Analysed(fP2)
	// 1. the decision: priorityRollback is reachable only through a test that depends on nodesKeys
	keysF := w.Field("common", "Transaction", "nodesKeys")
	dec := gP2.condNodes(func(e ast.Expr) bool {
		if w.mentionsCall(fP2, e, "common.Transaction.nodesKeysExist") {
			return true
		}
		hit := false
		ast.Inspect(e, func(x ast.Node) bool {
			if sx, ok := x.(ast.Expr); ok && fieldOfSelector(fP2.Pkg.TypesInfo, sx) == keysF {
				hit = true
			}
			return !hit
		})
		return hit
	})
	prb := calls(kPriorityRB)
	gated := len(dec) > 0 && len(gP2.Find(prb)) > 0 && len(gP2.notOnlyVia(dec, 1, prb)) == 0
	c.Check(len(gP2.Find(prb)) > 0, r5, "Phase2Commit: a failed phase 2 can restore the pre-images", fP2.Decl.Pos(), "priorityRollback is called", "Phase2Commit no longer calls priorityRollback", nil)
	if !gated {
		c.Held(r5, "phase2Commit: node keys survive a failed commit-point write", fP2.Decl.Pos(), "Phase2Commit's pre-image restore does not depend on the node keys: nothing to require of phase2Commit")
		return
	}
	// 2. who clears nodesKeys
	var clearers []string
	for _, f := range w.declaredFuncs("common") {
		for _, ws := range w.writesOf(f, keysF, true) {
			if ws.Rhs != nil && isNilLit(f.Pkg.TypesInfo, ws.Rhs) {
				clearers = append(clearers, f.Key)
			}
		}
	}
	clearers = dedup(clearers)
	c.Check(len(clearers) >= 1, r5, "writers that clear Transaction.nodesKeys inventoried", token.NoPos, fmt.Sprintf("%v", shortKeys(clearers)), "none found", nil)
	// 3. in phase2Commit: from the failure edge of the commit-point write no clearer is reachable
	f2 := w.Fn(kTxp2)
	g2 := w.G(f2)
	c.Analysed(f2)
	n := 0
	for _, nc := range g2.callNodes(kRegUpdNL) {
		if len(nc.cs.Call.Args) < 2 || !isBoolLit(f2.Pkg.TypesInfo, nc.cs.Call.Args[1], true) {
			continue
		}
		n++
		fail, _, ok := g2.ErrBranches(nc.n, nc.cs)
		if !ok {
			c.Violated(r5, "phase2Commit: node keys survive a failed commit-point write", nc.cs.Call.Pos(), "the commit-point write's error is not tested", nil)
			continue
		}
		r := g2.Reach(fail, nil, nil)
		var offs []Offence
		for _, x := range g2.Nodes {
			if !r.Seen[x.ID] {
				continue
			}
			if calls(clearers...)(x) || w.callsReaching(clearers...)(x) {
				offs = append(offs, Offence{x, r.Path(x.ID)})
			}
		}
		c.Offences(g2, offs, r5, "phase2Commit: node keys survive a failed commit-point write", nc.cs.Call.Pos(), "no path from the failed all-or-nothing update to the return clears nodesKeys",
			"the node keys are released (nodesKeys = nil) between the failed commit-point write and the return: Phase2Commit then takes the `keys are gone` branch, drops the priority log instead of restoring the pre-images, and the rollback runs against whatever part of the flip reached the registry - flipped handles keep the aborted transaction's successor and their pre-commit blobs are deleted")
	}
	c.Check(n == 1, r5, "phase2Commit: one commit-point write", f2.Decl.Pos(), "found", fmt.Sprintf("found %d", n), nil)
}

// foreignBlindUndoRule (C37.R4, shared by C07.R6).
func foreignBlindUndoRule(c *Ctx, r4 string) {
	w := c.W
	fr := w.Fn(kTxrb)
	gr := w.G(fr)
	c.Analysed(fr)
	infoR := fr.Pkg.TypesInfo
	csFld := w.Field("common", "transactionLog", "committedState")
	live := stateGuards(w, gr, func(e ast.Expr) bool { return fieldOfSelector(infoR, e) == csFld })
	p1 := w.Fn(kTxp1)
	g1 := w.G(p1)
	c.Analysed(p1)
	for _, spec := range []struct{ step, undo, action string }{
		{"commitUpdatedNodes", kNRBrbUpdated, kNRBcommitUpdated},
		{"commitRemovedNodes", kNRBrbRemoved, kNRBcommitRemoved},
		{"commitNewRootNodes", kNRBrbNewRoot, kNRBcommitNewRoot},
	} {
		step := w.Object("common", spec.step)
		var gd *stateGuard
		for i := range live {
			if live[i].k == step {
				gd = &live[i]
			}
		}
		if gd == nil {
			c.Violated(r4, "rollback: "+shortKey(spec.undo)+" has a state guard", fr.Decl.Pos(), "no `committedState OP "+spec.step+"` guard", nil)
			continue
		}
		okGuard := gd.op == token.GTR && len(gr.notOnlyVia([]*GNode{gd.n}, 1, calls(spec.undo))) == 0
		c.Check(okGuard, r4, "rollback: "+shortKey(spec.undo)+" runs only when committedState is strictly past "+spec.step, gd.n.Ast.Pos(), "guard is `>`",
			"the guard lets "+shortKey(spec.undo)+" run while committedState == "+spec.step+": that state is also reached when "+shortKey(spec.action)+" returned false WITHOUT acting because it found a competitor's reservation / root / deletion mark, and the undo (which clears whatever the registry handle holds) then wipes the competitor's staged successor - both commits are acknowledged for one node version", nil)
		// later steps are logged only through the success edge of the action
		acts := g1.callNodes(spec.action)
		if len(acts) != 1 {
			c.Violated(r4, "phase1Commit: one call of "+shortKey(spec.action), p1.Decl.Pos(), fmt.Sprintf("found %d", len(acts)), nil)
			continue
		}
		okVar := g1.lhsVarOfCall(acts[0].n, acts[0].cs, 0)
		if okVar == nil {
			c.Violated(r4, "phase1Commit: result of "+shortKey(spec.action)+" is bound", acts[0].cs.Call.Pos(), "boolean result discarded", nil)
			continue
		}
		// log calls of LATER steps (constant value greater than this step's)
		stepVal := step.(*types.Const).Val()
		bt := g1.trackBools(okVar)
		// start right after the action with ok = false: no later-step log call may be reachable before ok is reassigned
		init := setAt(bt.initial(), 0, 'F')
		ar := bt.Reach(g1.after(acts[0].n), init, func(n *GNode) bool { return n == acts[0].n })
		var offs []Offence
		for _, n := range g1.Nodes {
			if !ar.Node(n.ID) {
				continue
			}
			for _, cs := range n.Calls {
				if cs.Key != kLoggerLog || len(cs.Call.Args) < 2 {
					continue
				}
				if id, ok := ast.Unparen(cs.Call.Args[1]).(*ast.Ident); ok {
					if k, ok := p1.Pkg.TypesInfo.Uses[id].(*types.Const); ok && k != step {
						if cmpConst(k.Val(), stepVal) > 0 {
							// reached with ok still false?
							for _, st := range ar.StatesAt(n.ID) {
								if st[0] == 'F' {
									offs = append(offs, Offence{n, ar.Path(n.ID)})
								}
							}
						}
					}
				}
			}
		}
		c.Offences(g1, offs, r4, "phase1Commit: steps after "+spec.step+" are logged only when it succeeded", acts[0].cs.Call.Pos(), "no later log call reachable with the step's result false",
			"committedState can move past "+spec.step+" although the step returned false: the strict guard then no longer implies the step acted for this transaction")
	}
}

func cmpConst(a, b constant.Value) int {
	if constant.Compare(a, token.GTR, b) {
		return 1
	}
	if constant.Compare(a, token.LSS, b) {
		return -1
	}
	return 0
}
