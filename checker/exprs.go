package main

// Expression-level matchers over typed ASTs (part of P-GUARD / P-SLICE, syntactic version).

import (
	"go/ast"
	"go/token"
	"go/types"
)

// originOf maps fields and methods of instantiated generic types back to their generic origin,
// so that objects resolved from a package scope compare equal to uses inside generic bodies.
func originOf(o types.Object) types.Object {
	switch x := o.(type) {
	case *types.Var:
		return x.Origin()
	case *types.Func:
		return x.Origin()
	}
	return o
}

// mentionsObj: expr contains an identifier or selector resolving to obj (not inside literals).
func mentionsObj(info *types.Info, e ast.Node, obj types.Object) bool {
	obj = originOf(obj)
	found := false
	ast.Inspect(e, func(n ast.Node) bool {
		if found {
			return false
		}
		switch x := n.(type) {
		case *ast.FuncLit:
			return false
		case *ast.Ident:
			if originOf(info.Uses[x]) == obj || originOf(info.Defs[x]) == obj {
				found = true
			}
		case *ast.SelectorExpr:
			if s := info.Selections[x]; s != nil && originOf(s.Obj()) == obj {
				found = true
			}
		}
		return true
	})
	return found
}

// mentionsCall: expr contains a call resolving to one of keys.
func (w *World) mentionsCall(f *Func, e ast.Node, keys ...string) bool {
	m := map[string]bool{}
	for _, k := range keys {
		m[k] = true
	}
	found := false
	ast.Inspect(e, func(n ast.Node) bool {
		if found {
			return false
		}
		switch x := n.(type) {
		case *ast.FuncLit:
			return false
		case *ast.CallExpr:
			if m[w.resolveCall(f, x).Key] {
				found = true
			}
		}
		return true
	})
	return found
}

// condNodes returns the branch-condition nodes whose expression satisfies pred.
func (g *Graph) condNodes(pred func(e ast.Expr) bool) []*GNode {
	var out []*GNode
	for _, n := range g.Nodes {
		if !n.IsCond || n.Ast == nil {
			continue
		}
		if e, ok := n.Ast.(ast.Expr); ok && pred(e) {
			out = append(out, n)
		}
	}
	return out
}

// stripNot returns the expression with leading '!' removed and whether an odd number was removed.
func stripNot(e ast.Expr) (ast.Expr, bool) {
	neg := false
	e = ast.Unparen(e)
	for {
		u, ok := e.(*ast.UnaryExpr)
		if !ok || u.Op != token.NOT {
			return e, neg
		}
		neg = !neg
		e = ast.Unparen(u.X)
	}
}

// edgeCut builds a cut function removing the given branch (1 true / 2 false) of the given nodes.
func edgeCut(nodes []*GNode, branch int) func(*GNode, Edge) bool {
	set := map[*GNode]bool{}
	for _, n := range nodes {
		set[n] = true
	}
	return func(from *GNode, e Edge) bool { return set[from] && e.Cond == branch }
}

// onlyVia reports the target nodes that remain reachable from entry after removing `branch`
// edges of the cond nodes: an empty result means every path to a target takes one of them.
func (g *Graph) notOnlyVia(conds []*GNode, branch int, target NPred) []Offence {
	return g.ReachableWithout(edgeCut(conds, branch), target)
}

// branchStarts returns the successor ids on the given branch of the cond nodes.
func branchStarts(conds []*GNode, branch int) []int {
	var out []int
	for _, c := range conds {
		for _, e := range c.Succs {
			if e.Cond == branch {
				out = append(out, e.To)
			}
		}
	}
	return out
}

// isBoolLit reports whether e is the literal true/false with the given value.
func isBoolLit(info *types.Info, e ast.Expr, val bool) bool {
	id, ok := ast.Unparen(e).(*ast.Ident)
	if !ok {
		return false
	}
	c, ok := info.Uses[id].(*types.Const)
	if !ok || c.Pkg() != nil {
		return false
	}
	return (id.Name == "true") == val && (id.Name == "true" || id.Name == "false")
}

func isNilLit(info *types.Info, e ast.Expr) bool {
	id, ok := ast.Unparen(e).(*ast.Ident)
	if !ok {
		return false
	}
	_, isNil := info.Uses[id].(*types.Nil)
	return isNil
}

// fieldOfSelector returns the field object selected by e (x.f), if any.
func fieldOfSelector(info *types.Info, e ast.Expr) *types.Var {
	s, ok := ast.Unparen(e).(*ast.SelectorExpr)
	if !ok {
		return nil
	}
	if sel := info.Selections[s]; sel != nil {
		if v, ok := sel.Obj().(*types.Var); ok && v.IsField() {
			return v.Origin()
		}
	}
	return nil
}

// lhsVarOfCall returns the variable at LHS index i of the assignment whose single RHS is the
// call cs (node n), or nil.
func (g *Graph) lhsVarOfCall(n *GNode, cs *CallSite, i int) *types.Var {
	as, ok := n.Ast.(*ast.AssignStmt)
	if !ok || len(as.Rhs) != 1 || ast.Unparen(as.Rhs[0]) != ast.Expr(cs.Call) || i >= len(as.Lhs) {
		return nil
	}
	info := g.F.Pkg.TypesInfo
	switch l := ast.Unparen(as.Lhs[i]).(type) {
	case *ast.Ident:
		if v, ok := info.Defs[l].(*types.Var); ok {
			return v
		}
		if v, ok := info.Uses[l].(*types.Var); ok {
			return v
		}
	case *ast.SelectorExpr:
		if s := info.Selections[l]; s != nil {
			if v, ok := s.Obj().(*types.Var); ok {
				return v
			}
		}
	}
	return nil
}

// callNodes returns (node, callsite) pairs for calls with the key in g.
type nodeCall struct {
	n  *GNode
	cs *CallSite
}

func (g *Graph) callNodes(key string) []nodeCall {
	var out []nodeCall
	for _, n := range g.Nodes {
		for _, cs := range n.Calls {
			if cs.Key == key {
				out = append(out, nodeCall{n, cs})
			}
		}
	}
	return out
}

// retResult returns result i of a return node, nil when not explicit.
func retResult(n *GNode, i int) ast.Expr {
	if n.Ret == nil || i >= len(n.Ret.Results) {
		return nil
	}
	return n.Ret.Results[i]
}

// localDefs maps every local variable of f (not descending into literals) to the expressions
// assigned to it (:=, =, var x = e).
func localDefs(f *Func) map[types.Object][]ast.Expr {
	info := f.Pkg.TypesInfo
	defs := map[types.Object][]ast.Expr{}
	ast.Inspect(f.Body, func(n ast.Node) bool {
		switch x := n.(type) {
		case *ast.FuncLit:
			return false
		case *ast.AssignStmt:
			if len(x.Lhs) == len(x.Rhs) {
				for i, l := range x.Lhs {
					if id, ok := ast.Unparen(l).(*ast.Ident); ok {
						o := info.Defs[id]
						if o == nil {
							o = info.Uses[id]
						}
						if o != nil {
							defs[o] = append(defs[o], x.Rhs[i])
						}
					}
				}
			} else if len(x.Rhs) == 1 {
				for _, l := range x.Lhs {
					if id, ok := ast.Unparen(l).(*ast.Ident); ok {
						o := info.Defs[id]
						if o == nil {
							o = info.Uses[id]
						}
						if o != nil {
							defs[o] = append(defs[o], x.Rhs[0])
						}
					}
				}
			}
		case *ast.ValueSpec:
			for i, nm := range x.Names {
				if o := info.Defs[nm]; o != nil && i < len(x.Values) {
					defs[o] = append(defs[o], x.Values[i])
				}
			}
		}
		return true
	})
	return defs
}

// mentionsDeep: e mentions the object (or a call to one of the keys when obj is nil) directly or
// through local variables, following ALL definitions of each variable (any definition counts).
func (w *World) mentionsDeep(f *Func, defs map[types.Object][]ast.Expr, e ast.Node, obj types.Object, callKeys ...string) bool {
	info := f.Pkg.TypesInfo
	seen := map[types.Object]bool{}
	var rec func(e ast.Node) bool
	rec = func(e ast.Node) bool {
		if obj != nil && mentionsObj(info, e, obj) {
			return true
		}
		if len(callKeys) > 0 && w.mentionsCall(f, e, callKeys...) {
			return true
		}
		hit := false
		ast.Inspect(e, func(n ast.Node) bool {
			if hit {
				return false
			}
			if _, ok := n.(*ast.FuncLit); ok {
				return false
			}
			if id, ok := n.(*ast.Ident); ok {
				o := info.Uses[id]
				if o != nil && !seen[o] {
					if ds, ok := defs[o]; ok {
						seen[o] = true
						for _, d := range ds {
							if rec(d) {
								hit = true
							}
						}
					}
				}
			}
			return true
		})
		return hit
	}
	return rec(e)
}
