package main

import (
	"fmt"
	"go/ast"
	"go/token"
	"go/types"
	"sort"
	"strings"
)

func init() {
	register("C34", propMeta{
		Explanation:  "(R1) sop.Authorize: all acyclic control-flow paths to `return true` are enumerated with the branch conditions they take (exhaustive); every such path must have taken the false edge of `Visibility == VisibilitySystem` and must contain one complete justification: admin role; non-empty owner equal to the caller; public-or-empty visibility with action read or list; a role grant of the action or *; a user grant of the action or *. The system branch returns exactly caller.IsSystem and every other return is the literal false. (R2) CheckPolicy returns ErrSystemReadOnly for write/delete on the core system names before consulting the ACL, reaches Authorize otherwise, and returns nil only when Authorize returned true. (R3) the UI map agrees with enforcement: CanPerformAction is CheckPolicy==nil, EnforcePolicy returns CheckPolicy, and ResolveRBACMap's default branch calls CanPerformAction for the same action and asset; custom evaluators registered through RegisterAssetRBAC are listed as not covered. R3 also requires every value stored into the capability map to be the Evaluator's or CanPerformAction's answer.",
		DoesNotCover: "Custom per-asset Evaluator functions, and callers that forget to call CheckPolicy at all.",
		Technique:    "static analysis: exhaustive enumeration of acyclic CFG paths with typed guard classification (decision-table extraction)",
	}, runC34)
}

type guardStep struct {
	n      *GNode
	branch int
}

// pathsTo enumerates the acyclic paths from entry to target, as sequences of condition steps.
func (g *Graph) pathsTo(target *GNode, limit int) [][]guardStep {
	var out [][]guardStep
	onPath := map[int]bool{}
	var cur []guardStep
	var dfs func(id int)
	dfs = func(id int) {
		if len(out) >= limit {
			return
		}
		if id == target.ID {
			out = append(out, append([]guardStep{}, cur...))
			return
		}
		if onPath[id] {
			return
		}
		onPath[id] = true
		n := g.Nodes[id]
		for _, e := range n.Succs {
			if n.IsCond && e.Cond != 0 {
				cur = append(cur, guardStep{n, e.Cond})
				dfs(e.To)
				cur = cur[:len(cur)-1]
			} else {
				dfs(e.To)
			}
		}
		onPath[id] = false
	}
	dfs(g.Entry)
	return out
}

func runC34(c *Ctx) {
	w := c.W
	r1 := c.Rule("R1", "Authorize: every path to `return true` is past the system-visibility branch and carries a complete justification; system branch returns caller.IsSystem; other returns are false", 8)
	f := w.Fn("sop.Authorize")
	g := w.G(f)
	c.Analysed(f)
	info := f.Pkg.TypesInfo
	vis := w.Field("sop", "ResourceAccess", "Visibility")
	owner := w.Field("sop", "ResourceAccess", "OwnerID")
	rolesF := w.Field("sop", "ResourceAccess", "Roles")
	usersF := w.Field("sop", "ResourceAccess", "Users")
	uid := w.Field("sop", "AuthContext", "UserID")
	isSys := w.Field("sop", "AuthContext", "IsSystem")
	sig := f.Obj.Type().(*types.Signature)
	actionP := types.Object(sig.Params().At(2))
	cst := func(n string) types.Object { return w.Object("sop", n) }
	isStr := func(e ast.Expr, v string) bool {
		lit, ok := ast.Unparen(e).(*ast.BasicLit)
		return ok && lit.Value == `"`+v+`"`
	}
	// ok variables of the map lookups
	okOf := map[types.Object]string{}
	ast.Inspect(f.Body, func(n ast.Node) bool {
		as, ok := n.(*ast.AssignStmt)
		if !ok || len(as.Lhs) != 2 || len(as.Rhs) != 1 {
			return true
		}
		ix, ok := ast.Unparen(as.Rhs[0]).(*ast.IndexExpr)
		if !ok {
			return true
		}
		id, ok := as.Lhs[1].(*ast.Ident)
		if !ok {
			return true
		}
		switch fieldOfSelector(info, ix.X) {
		case rolesF:
			okOf[info.Defs[id]] = "roleGrant"
		case usersF:
			if mentionsObj(info, ix.Index, uid) {
				okOf[info.Defs[id]] = "userGrant"
			}
		}
		return true
	})
	atom := func(n *GNode) string {
		e, ok := n.Ast.(ast.Expr)
		if !ok {
			return ""
		}
		if id, ok := e.(*ast.Ident); ok {
			if a, ok := okOf[info.Uses[id]]; ok {
				return a
			}
			return ""
		}
		be, ok := e.(*ast.BinaryExpr)
		if !ok {
			return ""
		}
		m := func(o types.Object) bool { return mentionsObj(info, be, o) }
		switch {
		case be.Op == token.EQL && m(vis) && m(cst("VisibilitySystem")):
			return "system"
		case be.Op == token.EQL && m(vis) && m(cst("VisibilityPublic")):
			return "public"
		case be.Op == token.EQL && m(vis) && (isStr(be.X, "") || isStr(be.Y, "")):
			return "emptyVis"
		case be.Op == token.EQL && m(cst("RoleAdmin")):
			return "admin"
		case be.Op == token.NEQ && m(owner) && (isStr(be.X, "") || isStr(be.Y, "")):
			return "ownerSet"
		case be.Op == token.EQL && m(owner) && m(uid):
			return "ownerEq"
		case be.Op == token.EQL && m(actionP) && m(cst("ActionRead")):
			return "read"
		case be.Op == token.EQL && m(actionP) && m(cst("ActionList")):
			return "list"
		case be.Op == token.EQL && m(actionP) && !m(cst("ActionRead")) && !m(cst("ActionList")):
			// a == string(action)
			if strings.Contains(types.ExprString(be), "string(") {
				return "actionEq"
			}
			return "action?"
		case be.Op == token.EQL && (isStr(be.X, "*") || isStr(be.Y, "*")):
			return "star"
		}
		return "?" + types.ExprString(be)
	}
	nTrue := 0
	for _, n := range g.Nodes {
		if n.Ret == nil || len(n.Ret.Results) != 1 {
			continue
		}
		res := n.Ret.Results[0]
		switch {
		case isBoolLit(info, res, true):
			nTrue++
			paths := g.pathsTo(n, 5000)
			bad := map[string]bool{}
			for _, p := range paths {
				S := map[string]int{}
				for _, st := range p {
					if a := atom(st.n); a != "" {
						if prev, seen := S[a]; seen && prev != st.branch {
							S[a] = 3 // both polarities (loop re-evaluation); treat as true if ever true
						} else if !seen {
							S[a] = st.branch
						}
					}
				}
				T := func(a string) bool { return S[a] == 1 || S[a] == 3 }
				okSys := S["system"] == 2
				just := T("admin") ||
					(T("ownerSet") && T("ownerEq")) ||
					((T("public") || T("emptyVis")) && (T("read") || T("list"))) ||
					(T("roleGrant") && (T("actionEq") || T("star"))) ||
					(T("userGrant") && (T("actionEq") || T("star")))
				if !okSys || !just {
					var ks []string
					for k, v := range S {
						ks = append(ks, fmt.Sprintf("%s=%v", k, v == 1 || v == 3))
					}
					sort.Strings(ks)
					bad[strings.Join(ks, " ")] = true
				}
			}
			var bl []string
			for k := range bad {
				bl = append(bl, "{"+k+"}")
			}
			sort.Strings(bl)
			c.Check(len(bad) == 0 && len(paths) > 0, r1, fmt.Sprintf("Authorize: `return true` #%d is justified on all %d paths", nTrue, len(paths)), n.Ret.Pos(),
				"every path has system=false and a complete justification", "access granted on a path without a complete justification: "+strings.Join(bl, "; "), nil)
		case isBoolLit(info, res, false):
			// default deny
		default:
			// must be caller.IsSystem on the system branch only
			okExpr := fieldOfSelector(info, res) == isSys
			sysConds := g.condNodes(func(e ast.Expr) bool {
				be, ok := e.(*ast.BinaryExpr)
				return ok && be.Op == token.EQL && mentionsObj(info, be, vis) && mentionsObj(info, be, cst("VisibilitySystem"))
			})
			only := len(g.notOnlyVia(sysConds, 1, func(x *GNode) bool { return x == n })) == 0
			c.Check(okExpr && only && len(sysConds) == 1, r1, "Authorize: system-visibility resources are decided by caller.IsSystem alone", n.Ret.Pos(), "return caller.IsSystem on the system branch", "a non-literal decision is returned outside the system branch, or the system branch does not return caller.IsSystem", nil)
		}
	}
	c.Check(nTrue == 5, r1, "Authorize: grant sites inventory", f.Decl.Pos(), "five `return true` sites (admin, owner, public, role grant, user grant)", fmt.Sprintf("found %d `return true` sites", nTrue), nil)
	// the system branch leaves immediately: from its true edge only that return is reachable
	{
		sysConds := g.condNodes(func(e ast.Expr) bool {
			be, ok := e.(*ast.BinaryExpr)
			return ok && be.Op == token.EQL && mentionsObj(info, be, vis) && mentionsObj(info, be, cst("VisibilitySystem"))
		})
		r := g.Reach(branchStarts(sysConds, 1), isReturn, nil)
		var offs []Offence
		for _, x := range g.Nodes {
			if r.Seen[x.ID] && x.Ret != nil && (len(x.Ret.Results) != 1 || fieldOfSelector(info, x.Ret.Results[0]) != isSys) {
				offs = append(offs, Offence{x, r.Path(x.ID)})
			}
		}
		c.Offences(g, offs, r1, "Authorize: nothing but caller.IsSystem decides a system resource", f.Decl.Pos(), "system branch returns caller.IsSystem", "a system-visibility resource can be decided by something else")
		// caller comes from the context
		okCaller := w.Reaches(f, keyIn("sop.GetAuthFromContext"))
		c.Check(okCaller, r1, "Authorize: caller identity is read from the context", f.Decl.Pos(), "GetAuthFromContext(ctx)", "caller identity no longer taken from the context", nil)
	}

	r2 := c.Rule("R2", "CheckPolicy: core system names are read-only before the ACL; nil only when Authorize returned true", 4)
	{
		fc := w.Fn("sop.CheckPolicy")
		gc := w.G(fc)
		c.Analysed(fc)
		ci := fc.Pkg.TypesInfo
		csig := fc.Obj.Type().(*types.Signature)
		act := types.Object(csig.Params().At(3))
		ro := gc.condNodes(func(e ast.Expr) bool { return w.mentionsCall(fc, e, "sop.IsSystemReadOnly") })
		wr := gc.condNodes(func(e ast.Expr) bool {
			be, ok := e.(*ast.BinaryExpr)
			return ok && be.Op == token.EQL && mentionsObj(ci, be, act) && mentionsObj(ci, be, cst("ActionWrite"))
		})
		dl := gc.condNodes(func(e ast.Expr) bool {
			be, ok := e.(*ast.BinaryExpr)
			return ok && be.Op == token.EQL && mentionsObj(ci, be, act) && mentionsObj(ci, be, cst("ActionDelete"))
		})
		c.Check(len(ro) == 1 && len(wr) == 1 && len(dl) == 1, r2, "CheckPolicy: system read-only guard present", fc.Decl.Pos(), "IsSystemReadOnly && (write || delete)", "system read-only guard changed", nil)
		// from RO=true & (write=true | delete=true): only `return ErrSystemReadOnly`
		errRO := w.Object("sop", "ErrSystemReadOnly")
		for _, cn := range [][]*GNode{wr, dl} {
			r := gc.Reach(branchStarts(cn, 1), isReturn, nil)
			var offs []Offence
			for _, x := range gc.Nodes {
				if r.Seen[x.ID] && (calls("sop.Authorize")(x) || (x.Ret != nil && !(len(x.Ret.Results) == 1 && mentionsObj(ci, x.Ret.Results[0], errRO)))) {
					offs = append(offs, Offence{x, r.Path(x.ID)})
				}
			}
			nm := "write"
			if len(cn) > 0 && cn[0] == dl[0] {
				nm = "delete"
			}
			c.Offences(gc, offs, r2, "CheckPolicy: "+nm+" on a core system resource is refused before the ACL", fc.Decl.Pos(), "returns ErrSystemReadOnly", "a "+nm+" on a core system resource can reach the ACL or another result")
		}
		// the action tests are reached only when IsSystemReadOnly is true, and RO is evaluated on every path to Authorize
		offs := gc.MustPrecede(nodeSet(ro), calls("sop.Authorize"))
		c.Offences(gc, offs, r2, "CheckPolicy: system invariant evaluated before the ACL", fc.Decl.Pos(), "IsSystemReadOnly dominates Authorize", "ACL consulted without evaluating the system invariant")
		au := gc.condNodes(func(e ast.Expr) bool { return w.mentionsCall(fc, e, "sop.Authorize") })
		offs = gc.notOnlyVia(au, 1, func(n *GNode) bool {
			return n.Ret != nil && gc.ClassifyReturn(n) != RetNonNil && !(len(n.Ret.Results) == 1 && mentionsObj(ci, n.Ret.Results[0], errRO))
		})
		c.Check(len(au) == 1, r2, "CheckPolicy: consults Authorize", fc.Decl.Pos(), "one Authorize branch", "Authorize is no longer branched on", nil)
		c.Offences(gc, offs, r2, "CheckPolicy: nil only when Authorize returned true", fc.Decl.Pos(), "nil return only on Authorize's true edge", "CheckPolicy can allow without Authorize having returned true")
		// IsSystemReadOnly names
		fr := w.Fn("sop.IsSystemReadOnly")
		names := map[string]bool{}
		ast.Inspect(fr.Body, func(n ast.Node) bool {
			if be, ok := n.(*ast.BinaryExpr); ok && be.Op == token.EQL {
				if lit, ok := ast.Unparen(be.Y).(*ast.BasicLit); ok {
					names[strings.Trim(lit.Value, `"`)] = true
				}
			}
			return true
		})
		c.Check(names["SOP"] && names["LongTermMemory"], r2, "IsSystemReadOnly covers the core system resources", fr.Decl.Pos(), fmt.Sprintf("%v", names), fmt.Sprintf("core names now %v", names), nil)
	}

	r3 := c.Rule("R3", "UI capability map agrees with enforcement", 4)
	{
		fcan := w.Fn("sop.CanPerformAction")
		c.Analysed(fcan)
		ok := false
		if len(fcan.Body.List) == 1 {
			if rs, isR := fcan.Body.List[0].(*ast.ReturnStmt); isR && len(rs.Results) == 1 {
				if be, isB := rs.Results[0].(*ast.BinaryExpr); isB && be.Op == token.EQL && w.mentionsCall(fcan, be.X, "sop.CheckPolicy") && isNilLit(fcan.Pkg.TypesInfo, be.Y) {
					ok = passThroughArgs(fcan, be.X)
				}
			}
		}
		c.Check(ok, r3, "CanPerformAction is CheckPolicy(...) == nil on the same arguments", fcan.Decl.Pos(), "same decision", "CanPerformAction no longer mirrors CheckPolicy", nil)
		fen := w.Fn("sop.EnforcePolicy")
		ok = false
		if len(fen.Body.List) == 1 {
			if rs, isR := fen.Body.List[0].(*ast.ReturnStmt); isR && len(rs.Results) == 1 && w.mentionsCall(fen, rs.Results[0], "sop.CheckPolicy") {
				ok = passThroughArgs(fen, rs.Results[0])
			}
		}
		c.Check(ok, r3, "EnforcePolicy returns CheckPolicy on the same arguments", fen.Decl.Pos(), "same decision", "EnforcePolicy no longer mirrors CheckPolicy", nil)
		frm := w.Fn("sop.ResolveRBACMap")
		grm := w.G(frm)
		c.Analysed(frm)
		cp := grm.callNodes("sop.CanPerformAction")
		okArgs := false
		if len(cp) == 1 {
			args := cp[0].cs.Call.Args
			head := enclosingRangeHead(grm, cp[0].n)
			if len(args) == 4 && head != nil {
				if av, isID := head.RangeHead.Value.(*ast.Ident); isID {
					rinfo := frm.Pkg.TypesInfo
					okArgs = mentionsObj(rinfo, args[3], rinfo.Defs[av]) && strings.HasSuffix(types.ExprString(args[1]), ".AssetID")
				}
			}
		}
		c.Check(okArgs, r3, "ResolveRBACMap's default branch asks CanPerformAction for the same action and asset", frm.Decl.Pos(), "CanPerformAction(ctx, AssetID, localAccess, action)", "the UI map is not computed from the enforcement decision for the same action/asset", nil)
		// every entry of the map is an enforcement decision: capabilities[k] = Evaluator(...) | CanPerformAction(...)
		{
			rinfo := frm.Pkg.TypesInfo
			nStores := 0
			var bad []string
			var pos token.Pos
			ast.Inspect(frm.Body, func(x ast.Node) bool {
				as, ok := x.(*ast.AssignStmt)
				if !ok {
					return true
				}
				for i, l := range as.Lhs {
					ix, ok := ast.Unparen(l).(*ast.IndexExpr)
					if !ok {
						continue
					}
					if _, isMap := rinfo.TypeOf(ix.X).Underlying().(*types.Map); !isMap {
						continue
					}
					nStores++
					if i >= len(as.Rhs) {
						continue
					}
					call, isCall := ast.Unparen(as.Rhs[i]).(*ast.CallExpr)
					okV := false
					if isCall {
						if cs := w.resolveCall(frm, call); cs != nil && cs.Key == "sop.CanPerformAction" {
							okV = true
						}
						if sel, isSel := ast.Unparen(call.Fun).(*ast.SelectorExpr); isSel && sel.Sel.Name == "Evaluator" {
							okV = true
						}
					}
					if !okV {
						bad = append(bad, types.ExprString(as.Rhs[i]))
						pos = as.Pos()
					}
				}
				return true
			})
			c.Check(nStores >= 2 && len(bad) == 0, r3, "ResolveRBACMap: every capability stored is the Evaluator's or CanPerformAction's answer for that action", pos, fmt.Sprintf("%d stores, all enforcement decisions", nStores),
				fmt.Sprintf("a capability is stored from %v instead of an enforcement decision (of %d stores): the UI map can show an action as allowed that CheckPolicy denies (the read-only rule for core system resources lives in CheckPolicy, outside Authorize)", bad, nStores), nil)
		}
		// custom evaluators
		n := 0
		for _, fn := range w.allDeclared() {
			for _, cs := range w.AllSites(fn) {
				if cs.Key == "sop.RegisterAssetRBAC" {
					n++
				}
			}
		}
		c.Note(fmt.Sprintf("%d RegisterAssetRBAC call sites in the analysed packages; custom Evaluator functions are not covered by R3", n))
	}
}

// passThroughArgs: the call inside e passes the enclosing function's parameters, in order.
func passThroughArgs(f *Func, e ast.Expr) bool {
	call, ok := ast.Unparen(e).(*ast.CallExpr)
	if !ok {
		return false
	}
	sig := f.Obj.Type().(*types.Signature)
	if len(call.Args) != sig.Params().Len() {
		return false
	}
	for i, a := range call.Args {
		id, ok := ast.Unparen(a).(*ast.Ident)
		if !ok || f.Pkg.TypesInfo.Uses[id] != types.Object(sig.Params().At(i)) {
			return false
		}
	}
	return true
}
