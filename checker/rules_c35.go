package main

import (
	"fmt"
	"go/ast"
	"go/token"
	"go/types"
	"strings"
)

func init() {
	register("C35", propMeta{
		Explanation:  "(R1) SessionStore.ValidateToken: every success return must be dominated by a lookup of the presented token in the session store that found it (a token revoked or rotated away is no longer there); (R2) every call of signAccessToken passes an expiry that derives from the current time plus the configured TTL, never a stored timestamp, and the stored record's ExpiresAt is the same expression; (R3) parseAndVerifySignedAccessToken returns claims only after hmac.Equal accepted the signature computed with the server secret over header.payload and after the exp claim was checked against the clock; Refresh rejects unknown and expired refresh tokens, removes the old access and refresh tokens before committing, and RevokeToken removes both tokens of the session. (R4) a session record is stored under exactly the two tokens it names (CreateSession, Refresh): revocation and rotation delete by the names in the record. R3 also requires the comparison to be between the presented signature text itself and the canonical encoding of the expected MAC (or a strict decoding).",
		DoesNotCover: "Strength of the secret, the HTTP layer's use of these functions, and clock skew.",
	}, runC35)
}

func runC35(c *Ctx) {
	w := c.W
	pkg := "tools/httpserver"
	r1 := c.Rule("R1", "ValidateToken: success only after the presented token was found in the session store", 2)
	fv := w.Fn(pkg + ".SessionStore.ValidateToken")
	gv := w.G(fv)
	c.Analysed(fv)
	vinfo := fv.Pkg.TypesInfo
	tokP := types.Object(fv.Obj.Type().(*types.Signature).Params().At(1))
	var finds []nodeCall
	for _, nc := range gv.callNodes("btree.BtreeInterface.Find") {
		if len(nc.cs.Call.Args) >= 2 && mentionsObj(vinfo, nc.cs.Call.Args[1], tokP) {
			finds = append(finds, nc)
		}
	}
	c.Check(len(finds) == 1, r1, "ValidateToken: looks the presented token up in the session store", fv.Decl.Pos(), "store.Find(ctx, token, ...)", fmt.Sprintf("found %d lookups of the presented token", len(finds)), nil)
	if len(finds) == 1 {
		fvar := gv.lhsVarOfCall(finds[0].n, finds[0].cs, 0)
		foundConds := gv.condNodes(func(e ast.Expr) bool { id, ok := e.(*ast.Ident); return ok && vinfo.Uses[id] == fvar })
		success := func(n *GNode) bool {
			return n.Ret != nil && len(n.Ret.Results) == 2 && !isNilLit(vinfo, n.Ret.Results[0]) && gv.ClassifyReturn(n) == RetNil
		}
		n := 0
		for _, s := range gv.Find(success) {
			n++
			offs := gv.notOnlyVia(foundConds, 1, func(x *GNode) bool { return x == s })
			var wit []string
			if len(offs) > 0 {
				wit = offs[0].Path
			}
			c.Check(len(offs) == 0 && len(foundConds) > 0, r1, fmt.Sprintf("ValidateToken: success return #%d requires the session record", n), s.Ret.Pos(),
				"dominated by found == true",
				"a token whose signature verifies is accepted without consulting the session store: after RevokeToken (logout) or Refresh (rotation) removed its record it is still accepted until its exp claim passes", wit)
		}
	}

	r2 := c.Rule("R2", "access tokens are signed with an expiry computed from the current time", 4)
	for _, fk := range []string{".SessionStore.CreateToken", ".SessionStore.CreateSession", ".SessionStore.Refresh"} {
		f := w.Fn(pkg + fk)
		c.Analysed(f)
		info := f.Pkg.TypesInfo
		// variables assigned from time.Now()
		nowVars := map[types.Object]bool{}
		ast.Inspect(f.Body, func(n ast.Node) bool {
			if as, ok := n.(*ast.AssignStmt); ok && len(as.Lhs) == 1 && len(as.Rhs) == 1 && w.mentionsCall(f, as.Rhs[0], "time.Now") {
				if id, ok := as.Lhs[0].(*ast.Ident); ok {
					if o := info.Defs[id]; o != nil {
						nowVars[o] = true
					}
				}
			}
			return true
		})
		// derived variables: x := <expr mentioning a now-variable> (fixpoint)
		defOf := map[types.Object]ast.Expr{}
		for changed := true; changed; {
			changed = false
			ast.Inspect(f.Body, func(n ast.Node) bool {
				as, ok := n.(*ast.AssignStmt)
				if !ok || len(as.Lhs) != 1 || len(as.Rhs) != 1 {
					return true
				}
				id, ok := as.Lhs[0].(*ast.Ident)
				if !ok {
					return true
				}
				o := info.Defs[id]
				if o == nil || nowVars[o] {
					return true
				}
				for nv := range nowVars {
					if mentionsObj(info, as.Rhs[0], nv) {
						nowVars[o] = true
						defOf[o] = as.Rhs[0]
						changed = true
						break
					}
				}
				return true
			})
		}
		resolve := func(e ast.Expr) ast.Expr {
			if id, ok := ast.Unparen(e).(*ast.Ident); ok {
				if d, ok := defOf[info.Uses[id]]; ok {
					return d
				}
			}
			return e
		}
		fromNow := func(e ast.Expr) bool {
			if w.mentionsCall(f, e, "time.Now") {
				return true
			}
			for o := range nowVars {
				if mentionsObj(info, e, o) {
					return true
				}
			}
			return false
		}
		for _, cs := range w.Sites(f) {
			if cs.Key != pkg+".signAccessToken" || len(cs.Call.Args) != 5 {
				continue
			}
			exp := cs.Call.Args[3]
			c.Check(fromNow(exp) && w.mentionsCall(f, resolve(exp), "time.Time.Add"), r2, shortKey(f.Key)+": signed expiry = now + ttl", cs.Call.Pos(), types.ExprString(exp),
				"the access token is signed with expiry `"+types.ExprString(exp)+"`, which is not derived from the current time: a refresh performed after the old access token expired returns a token that is already expired", nil)
		}
		// record literal ExpiresAt
		ast.Inspect(f.Body, func(n ast.Node) bool {
			cl, ok := n.(*ast.CompositeLit)
			if !ok {
				return true
			}
			if tv := info.Types[cl]; tv.Type == nil || typeBaseName(tv.Type) != "SessionRecord" {
				return true
			}
			for _, el := range cl.Elts {
				kv, ok := el.(*ast.KeyValueExpr)
				if !ok {
					continue
				}
				if id, ok := kv.Key.(*ast.Ident); ok && id.Name == "ExpiresAt" {
					c.Check(fromNow(kv.Value), r2, shortKey(f.Key)+": stored ExpiresAt = now + ttl", kv.Pos(), types.ExprString(kv.Value),
						"the stored session's ExpiresAt `"+types.ExprString(kv.Value)+"` is not derived from the current time", nil)
				}
			}
			return true
		})
	}

	r3 := c.Rule("R3", "signature (as presented, against the canonical encoding of the expected MAC) and exp are verified before claims are returned; Refresh rotates; RevokeToken removes both tokens", 9)
	{
		f := w.Fn(pkg + ".parseAndVerifySignedAccessToken")
		g := w.G(f)
		c.Analysed(f)
		info := f.Pkg.TypesInfo
		success := func(n *GNode) bool { return n.Ret != nil && g.ClassifyReturn(n) == RetNil }
		eq := g.condNodes(func(e ast.Expr) bool { return w.mentionsCall(f, e, "crypto/hmac.Equal") })
		c.Check(len(eq) == 1, r3, "verify: constant-time signature comparison", f.Decl.Pos(), "hmac.Equal", "signature no longer compared with hmac.Equal", nil)
		c.Offences(g, g.notOnlyVia(eq, 1, success), r3, "verify: claims returned only when the signature matched", f.Decl.Pos(), "success only on hmac.Equal's true edge", "claims can be returned without a matching signature")
		// the comparison is on the presented signature text itself: one operand is []byte(<part of the token>)
		// with no call applied to it (decoding it first accepts every non-canonical spelling of the same bytes),
		// the other is the canonical encoding of the computed MAC
		if len(eq) == 1 {
			defs := localDefs(f)
			tokenP := f.Obj.Type().(*types.Signature).Params().At(0)
			var call *ast.CallExpr
			ast.Inspect(eq[0].Ast, func(x ast.Node) bool {
				if ce, ok := x.(*ast.CallExpr); ok && call == nil {
					if cs := w.resolveCall(f, ce); cs != nil && cs.Key == "crypto/hmac.Equal" {
						call = ce
					}
				}
				return true
			})
			okCmp := false
			detail := "hmac.Equal call not found"
			if call != nil && len(call.Args) == 2 {
				// raw: a conversion []byte(x) where x flows from the token parameter through Split/index only
				isRaw := func(e ast.Expr) bool {
					ce, ok := ast.Unparen(e).(*ast.CallExpr)
					if !ok || len(ce.Args) != 1 {
						return false
					}
					if tv, isT := info.Types[ce.Fun]; !isT || !tv.IsType() {
						return false
					}
					if !w.mentionsDeep(f, defs, ce.Args[0], tokenP) {
						return false
					}
					// no call other than strings.Split between the parameter and the operand
					return !w.mentionsDeep(f, defs, ce.Args[0], nil, pkg+".base64urlDecode", "encoding/base64.Encoding.DecodeString", "strings.TrimRight", "strings.TrimSpace", "strings.ToLower", "strings.Trim")
				}
				isExpected := func(e ast.Expr) bool {
					return w.mentionsDeep(f, defs, e, nil, pkg+".base64urlEncode") && w.mentionsDeep(f, defs, e, nil, "hash.Hash.Sum") && !w.mentionsDeep(f, defs, e, tokenP)
				}
				okCmp = (isRaw(call.Args[0]) && isExpected(call.Args[1])) || (isRaw(call.Args[1]) && isExpected(call.Args[0]))
				// accepted alternative: raw MAC bytes compared with a STRICT decoding of the presented text
				isStrict := func(e ast.Expr) bool {
					return w.mentionsDeep(f, defs, e, tokenP) && w.mentionsDeep(f, defs, e, nil, "encoding/base64.Encoding.Strict")
				}
				isSum := func(e ast.Expr) bool {
					return w.mentionsDeep(f, defs, e, nil, "hash.Hash.Sum") && !w.mentionsDeep(f, defs, e, tokenP)
				}
				if (isStrict(call.Args[0]) && isSum(call.Args[1])) || (isStrict(call.Args[1]) && isSum(call.Args[0])) {
					okCmp = true
				}
				detail = fmt.Sprintf("operands are %s and %s", types.ExprString(call.Args[0]), types.ExprString(call.Args[1]))
			}
			c.Check(okCmp, r3, "verify: the presented signature text is compared with the canonical encoding of the expected MAC", eq[0].Ast.Pos(), "[]byte(signature part) vs base64urlEncode(mac.Sum(nil))",
				detail+": the presented signature is transformed (decoded / trimmed) before the comparison, so every other spelling that decodes to the same bytes - a different last character, trailing padding, line breaks - is accepted although the server never issued that token", nil)
		}
		// expected signature = HMAC(secret, header.payload)
		okMac := w.Reaches(f, keyIn(pkg+".tokenSigningSecret")) && w.Reaches(f, keyIn("crypto/hmac.New"))
		c.Check(okMac, r3, "verify: MAC keyed with the server secret", f.Decl.Pos(), "hmac.New(sha256.New, tokenSigningSecret())", "MAC no longer keyed with the server secret", nil)
		expF := w.Field(pkg, "signedAccessClaims", "ExpiresAt")
		exp := g.condNodes(func(e ast.Expr) bool {
			be, ok := e.(*ast.BinaryExpr)
			return ok && mentionsObj(info, be, expF) && w.mentionsCall(f, be, "time.Now")
		})
		okExp := len(exp) == 1
		if okExp {
			be := exp[0].Ast.(*ast.BinaryExpr)
			// now >= exp (true => expired) or exp <= now
			nowLeft := w.mentionsCall(f, be.X, "time.Now")
			expired := 0
			switch {
			case nowLeft && (be.Op == token.GEQ || be.Op == token.GTR):
				expired = 1
			case !nowLeft && (be.Op == token.LEQ || be.Op == token.LSS):
				expired = 1
			case nowLeft && (be.Op == token.LSS || be.Op == token.LEQ):
				expired = 2
			case !nowLeft && (be.Op == token.GTR || be.Op == token.GEQ):
				expired = 2
			}
			okExp = expired != 0 && len(g.notOnlyVia(exp, 3-expired, success)) == 0
		}
		c.Check(okExp, r3, "verify: expired tokens are rejected", f.Decl.Pos(), "success only when now < exp", "an expired signed token can be accepted", nil)
	}
	{
		f := w.Fn(pkg + ".SessionStore.Refresh")
		g := w.G(f)
		c.Analysed(f)
		info := f.Pkg.TypesInfo
		success := func(n *GNode) bool { return n.Ret != nil && g.ClassifyReturn(n) == RetNil }
		tokF := w.Field(pkg, "SessionRecord", "Token")
		rtokF := w.Field(pkg, "SessionRecord", "RefreshToken")
		rexpF := w.Field(pkg, "SessionRecord", "RefreshExpiresAt")
		rm := func(fld *types.Var) NPred {
			return func(n *GNode) bool {
				for _, cs := range n.Calls {
					if cs.Key == "btree.BtreeInterface.Remove" && len(cs.Call.Args) == 2 && fieldOfSelector(info, cs.Call.Args[1]) == fld {
						return true
					}
				}
				return false
			}
		}
		c.Offences(g, g.MustPrecede(rm(tokF), success), r3, "Refresh: old access token removed before success", f.Decl.Pos(), "store.Remove(r.Token) dominates success", "refresh can succeed leaving the old access token's record")
		c.Offences(g, g.MustPrecede(rm(rtokF), success), r3, "Refresh: old refresh token removed before success", f.Decl.Pos(), "store.Remove(r.RefreshToken) dominates success", "the old refresh token keeps working after a refresh")
		c.Offences(g, g.MustPrecede(calls("sop.Transaction.Commit"), success), r3, "Refresh: rotation committed before success", f.Decl.Pos(), "Commit dominates success", "refresh can succeed without committing the rotation")
		fnd := g.callNodes("btree.BtreeInterface.Find")
		okFound := false
		if len(fnd) == 1 {
			fvar := g.lhsVarOfCall(fnd[0].n, fnd[0].cs, 0)
			conds := g.condNodes(func(e ast.Expr) bool { id, ok := e.(*ast.Ident); return ok && info.Uses[id] == fvar })
			okFound = len(conds) > 0 && len(g.notOnlyVia(conds, 1, success)) == 0
		}
		c.Check(okFound, r3, "Refresh: unknown refresh token rejected", f.Decl.Pos(), "success only when found", "refresh succeeds for an unknown refresh token", nil)
		expc := g.condNodes(func(e ast.Expr) bool { return w.mentionsCall(f, e, "time.Time.After") && mentionsObj(info, e, rexpF) })
		c.Check(len(expc) == 1 && len(g.notOnlyVia(expc, 2, success)) == 0, r3, "Refresh: expired refresh token rejected", f.Decl.Pos(), "success only when now is not after RefreshExpiresAt", "an expired refresh token can be used", nil)
	}
	{
		f := w.Fn(pkg + ".SessionStore.RevokeToken")
		g := w.G(f)
		c.Analysed(f)
		info := f.Pkg.TypesInfo
		n := 0
		for _, nd := range g.Nodes {
			for _, cs := range nd.Calls {
				if cs.Key == "btree.BtreeInterface.Remove" && len(cs.Call.Args) == 2 {
					if fl := fieldOfSelector(info, cs.Call.Args[1]); fl != nil && (fl.Name() == "Token" || fl.Name() == "RefreshToken") {
						n++
					}
				}
			}
		}
		rmv := g.Find(calls("btree.BtreeInterface.Remove"))
		offs := g.MustFollow(rmv, calls("sop.Transaction.Commit"), isExit)
		c.Check(n == 2, r3, "RevokeToken: removes the session's access and refresh tokens", f.Decl.Pos(), "both removed", fmt.Sprintf("%d of the two tokens removed", n), nil)
		c.Offences(g, offs, r3, "RevokeToken: removal is committed", f.Decl.Pos(), "Commit follows the removals", "revocation can return without committing")
	}
	r4 := c.Rule("R4", "a session record is stored under exactly the two tokens it names: in CreateSession and Refresh the record handed to store.Add has Token and RefreshToken set to the very values used as the keys of the two Adds (revocation and rotation delete by the names in the record)", 2)
	for _, k := range []string{pkg + ".SessionStore.CreateSession", pkg + ".SessionStore.Refresh"} {
		f := w.Fn(k)
		c.Analysed(f)
		info := f.Pkg.TypesInfo
		tokF := w.Field(pkg, "SessionRecord", "Token")
		refF := w.Field(pkg, "SessionRecord", "RefreshToken")
		// Adds: store.Add(ctx, key, rec)
		var keys []types.Object
		var recVar types.Object
		okShape := true
		for _, cs := range w.Sites(f) {
			if !strings.HasSuffix(cs.Key, ".Add") || len(cs.Call.Args) != 3 {
				continue
			}
			kid, ok1 := ast.Unparen(cs.Call.Args[1]).(*ast.Ident)
			rid, ok2 := ast.Unparen(cs.Call.Args[2]).(*ast.Ident)
			if !ok1 || !ok2 {
				okShape = false
				continue
			}
			keys = append(keys, info.Uses[kid])
			if recVar != nil && recVar != info.Uses[rid] {
				okShape = false
			}
			recVar = info.Uses[rid]
		}
		// values of the two fields of recVar
		fieldVal := func(fld *types.Var) types.Object {
			var val types.Object
			n := 0
			ast.Inspect(f.Body, func(x ast.Node) bool {
				switch st := x.(type) {
				case *ast.AssignStmt:
					for i, l := range st.Lhs {
						// rec := SessionRecord{...}
						if id, ok := ast.Unparen(l).(*ast.Ident); ok && (info.Defs[id] == recVar || info.Uses[id] == recVar) && len(st.Rhs) == len(st.Lhs) {
							if cl, ok := ast.Unparen(st.Rhs[i]).(*ast.CompositeLit); ok {
								for _, el := range cl.Elts {
									if kv, ok := el.(*ast.KeyValueExpr); ok {
										if kid, ok := kv.Key.(*ast.Ident); ok && originOf(info.Uses[kid]) == types.Object(fld) {
											n++
											if vid, ok := ast.Unparen(kv.Value).(*ast.Ident); ok {
												val = info.Uses[vid]
											} else {
												val = nil
											}
										}
									}
								}
							}
						}
						// rec.F = v
						if sel, ok := ast.Unparen(l).(*ast.SelectorExpr); ok && fieldOfSelector(info, sel) == fld && len(st.Rhs) == len(st.Lhs) {
							if xid, ok := ast.Unparen(sel.X).(*ast.Ident); ok && info.Uses[xid] == recVar {
								n++
								if vid, ok := ast.Unparen(st.Rhs[i]).(*ast.Ident); ok {
									val = info.Uses[vid]
								} else {
									val = nil
								}
							}
						}
					}
				}
				return true
			})
			if n != 1 {
				return nil
			}
			return val
		}
		ok := okShape && recVar != nil && len(keys) == 2
		detail := ""
		if ok {
			tv, rv := fieldVal(tokF), fieldVal(refF)
			ok = tv != nil && rv != nil && tv != rv && ((tv == keys[0] && rv == keys[1]) || (tv == keys[1] && rv == keys[0]))
			if !ok {
				detail = fmt.Sprintf("record.Token=%v record.RefreshToken=%v, keys %v / %v", tv, rv, keys[0], keys[1])
			}
		} else {
			detail = fmt.Sprintf("expected two store.Add(ctx, <var>, <record var>) calls, found %d", len(keys))
		}
		c.Check(ok, r4, shortKey(k)+": the record stored names the two keys it is stored under", f.Decl.Pos(), "Token and RefreshToken are the variables used as Add keys",
			"the session record is stored under a token it does not name ("+detail+"): Refresh and RevokeToken delete the names recorded in the record, so the un-named token stays valid after rotation / logout", nil)
	}

}
