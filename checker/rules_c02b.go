package main

import (
	"fmt"
	"go/ast"
	"go/token"
	"go/types"
	"strings"
)

const (
	kB3AddItem     = "btree.Btree.AddItem"
	kB3FindWithID  = "btree.Btree.FindWithID"
	kB3GetCurItem  = "btree.Btree.GetCurrentItem"
	kB3RemoveCur   = "btree.Btree.RemoveCurrentItem"
	kB3UpdateCurWI = "btree.Btree.UpdateCurrentItemWithItem"
	kL2GetStructs  = "sop.L2Cache.GetStructs"
	kL2SetStructs  = "sop.L2Cache.SetStructs"
)

// failStartsOfBoolErrCall returns the start nodes of the failure paths of a call returning
// (bool, error): the true edges of `!ok` and of `err != nil` for the variables bound at n.
func (g *Graph) failStartsOfBoolErrCall(n *GNode, cs *CallSite) ([]int, bool) {
	info := g.F.Pkg.TypesInfo
	okv := g.lhsVarOfCall(n, cs, 0)
	if okv == nil {
		return nil, false
	}
	var starts []int
	tested := false
	seen := map[int]bool{}
	var walk func(id int)
	walk = func(id int) {
		if seen[id] {
			return
		}
		seen[id] = true
		x := g.Nodes[id]
		if x.IsCond && x.Ast != nil {
			if e, ok := x.Ast.(ast.Expr); ok {
				inner, neg := stripNot(e)
				if idn, ok := inner.(*ast.Ident); ok && info.Uses[idn] == okv {
					tested = true
					for _, ed := range x.Succs {
						if (ed.Cond == 1) == neg { // edge on which ok is false
							starts = append(starts, ed.To)
						} else {
							walk(ed.To)
						}
					}
					return
				}
			}
		}
		if x != n && g.assigns(x, okv) {
			return
		}
		if x.Ret != nil || x.Exit || x.RangeHead != nil {
			return
		}
		for _, ed := range x.Succs {
			walk(ed.To)
		}
	}
	for _, ed := range n.Succs {
		walk(ed.To)
	}
	if fail, _, ok := g.ErrBranches(n, cs); ok {
		starts = append(starts, fail...)
	} else {
		// `!ok || err != nil` form: the err test is on the false edge of !ok; find it
		ev := g.errVarOfCall(n, cs)
		if ev != nil {
			for _, x := range g.Nodes {
				if cv, tm, isT := g.condNilTest(x); isT && cv == ev {
					for _, ed := range x.Succs {
						if (ed.Cond == 1) == tm {
							starts = append(starts, ed.To)
						}
					}
				}
			}
		}
	}
	return starts, tested
}

func mergeRules(c *Ctx, r4 string) {
	w := c.W
	var f *Func
	for _, l := range w.Fn("common.refetchAndMergeClosure").lits {
		f = l
		break
	}
	if f == nil {
		panic(undecided{"refetchAndMergeClosure no longer returns a function literal"})
	}
	g := w.G(f)
	c.Analysed(f)
	info := f.Pkg.TypesInfo
	itemVersion := w.Field("btree", "Item", "Version")
	vInDB := w.Field("common", "cacheItem", "versionInDB")
	conds := g.condNodes(func(e ast.Expr) bool {
		be, ok := ast.Unparen(e).(*ast.BinaryExpr)
		return ok && be.Op == token.NEQ && mentionsObj(info, be, itemVersion) && mentionsObj(info, be, vInDB)
	})
	if len(conds) != 1 {
		c.Violated(r4, "refetchAndMerge: item version comparison present", f.Lit.Pos(), fmt.Sprintf("expected one `item.Version != ci.versionInDB` branch, found %d", len(conds)), nil)
		return
	}
	c.Held(r4, "refetchAndMerge: item version comparison present", conds[0].Ast.Pos(), "item.Version != ci.versionInDB")
	// mismatch => only non-nil returns before the next item
	head := enclosingRangeHead(g, conds[0])
	nonNilOnly := func(starts []int) []Offence {
		r := g.Reach(starts, isReturn, nil)
		var offs []Offence
		for _, n := range g.Nodes {
			if !r.Seen[n.ID] {
				continue
			}
			if n == head || n.Exit || (n.Ret != nil && g.ClassifyReturn(n) != RetNonNil) {
				offs = append(offs, Offence{n, r.Path(n.ID)})
			}
		}
		return offs
	}
	c.Offences(g, nonNilOnly(branchStarts(conds, 1)), r4, "refetchAndMerge: newer item version fails the merge", conds[0].Ast.Pos(), "the mismatch edge reaches only error returns", "after detecting a newer item version the merge can continue or succeed (lost update)")
	// the comparison precedes the replay of remove / update
	offs := g.MustPrecede(func(n *GNode) bool { return n == conds[0] }, calls(kB3RemoveCur, kB3UpdateCurWI))
	c.Offences(g, offs, r4, "refetchAndMerge: version compared before replaying remove/update", conds[0].Ast.Pos(), "RemoveCurrentItem / UpdateCurrentItemWithItem are reachable only after the comparison", "a remove/update is replayed without comparing item versions")
	// it compares the item fetched from the backend: GetCurrentItem precedes the cond
	offs = g.MustPrecede(calls(kB3GetCurItem), func(n *GNode) bool { return n == conds[0] })
	c.Offences(g, offs, r4, "refetchAndMerge: compared item is re-read from the backend", conds[0].Ast.Pos(), "GetCurrentItem precedes the comparison", "comparison without re-reading the current item")
	// the replay re-positions on the SAME item (by the tracked item id), not merely on an item with an equal key:
	// after another transaction removed and re-added the key, the new item has the same key and may have the
	// same (initial) version, so identity is the only thing that tells them apart
	{
		offs := g.MustPrecede(calls(kB3FindWithID), calls(kB3GetCurItem, kB3RemoveCur, kB3UpdateCurWI))
		c.Offences(g, offs, r4, "refetchAndMerge: non-add actions are re-positioned with FindWithID", f.Lit.Pos(), "FindWithID precedes GetCurrentItem / the replayed remove / update", "a tracked item can be re-positioned by key only: a different item with an equal key (removed and re-added by another committed transaction) is taken for the one that was read (lost update / torn read)")
		okID := len(g.callNodes(kB3FindWithID)) >= 1
		for _, nc := range g.callNodes(kB3FindWithID) {
			h := enclosingRangeHead(g, nc.n)
			if h == nil || len(nc.cs.Call.Args) != 3 {
				okID = false
				continue
			}
			kid, isID := h.RangeHead.Key.(*ast.Ident)
			aid, isID2 := ast.Unparen(nc.cs.Call.Args[2]).(*ast.Ident)
			if !isID || !isID2 || info.Defs[kid] != info.Uses[aid] {
				okID = false
			}
		}
		c.Check(okID, r4, "refetchAndMerge: FindWithID is given the tracked item's id", f.Lit.Pos(), "id argument is the key of the tracked-items map", "the identity lookup does not use the tracked item's id", nil)
		var plain []string
		for _, cs := range w.Sites(f) {
			if cs.Key == "btree.Btree.Find" || cs.Key == "btree.Btree.FindInDescendingOrder" {
				plain = append(plain, w.PosStr(cs.Call.Pos()))
			}
		}
		c.Check(len(plain) == 0, r4, "refetchAndMerge: no key-only lookup in the replay", f.Lit.Pos(), "none", fmt.Sprintf("key-only Find at %v", plain), nil)
	}
	// the replay runs on freshly fetched nodes only: every transaction-local node cache of the backend node
	// repository (map- or Cache-typed fields) and the tracked-items map are reset before the first replayed action
	{
		var head *GNode
		for _, n := range g.Nodes {
			if n.RangeHead != nil && (head == nil || n.RangeHead.Pos() < head.RangeHead.Pos()) {
				head = n
			}
		}
		nrb := w.Object("common", "nodeRepositoryBackend").Type().Underlying().(*types.Struct)
		for i := 0; i < nrb.NumFields(); i++ {
			fld := nrb.Field(i)
			isCache := false
			switch fld.Type().Underlying().(type) {
			case *types.Map:
				isCache = true
			}
			if strings.Contains(fld.Type().String(), "cache.Cache[") {
				isCache = true
			}
			if !isCache {
				continue
			}
			reset := func(n *GNode) bool {
				// x.fld = make(...) / nil, or x.fld.Clear()
				if as, ok := n.Ast.(*ast.AssignStmt); ok {
					for _, l := range as.Lhs {
						if fieldOfSelector(info, l) == fld {
							return true
						}
					}
				}
				for _, cs := range n.Calls {
					if strings.HasSuffix(cs.Key, ".Clear") {
						if sel, ok := cs.Call.Fun.(*ast.SelectorExpr); ok && fieldOfSelector(info, sel.X) == fld {
							return true
						}
					}
				}
				return false
			}
			ok := head != nil && len(g.Find(reset)) >= 1 && len(g.MustPrecede(reset, func(n *GNode) bool { return n == head })) == 0
			c.Check(ok, r4, "refetchAndMerge: node cache `"+fld.Name()+"` is emptied before the replay", f.Lit.Pos(), "reset (make / Clear) dominates the replay loop",
				"the transaction-local node cache `"+fld.Name()+"` is not emptied before the tracked actions are replayed: a stale ancestor read earlier routes a replayed add into a leaf that no longer owns the key range, where the duplicate check finds nothing (duplicate key in a unique store), and nothing validates the stale ancestor", nil)
		}
	}
	// every replayed call's failure fails the merge
	for _, k := range []string{kB3AddItem, kB3FindWithID, kB3RemoveCur, kB3UpdateCurWI} {
		ncs := g.callNodes(k)
		if len(ncs) == 0 {
			c.Violated(r4, "refetchAndMerge: replays through "+shortKey(k), f.Lit.Pos(), "no call found", nil)
			continue
		}
		for _, nc := range ncs {
			starts, tested := g.failStartsOfBoolErrCall(nc.n, nc.cs)
			construct := fmt.Sprintf("refetchAndMerge: failed %s #%d fails the merge", shortKey(k), ordinalOf(w, f, nc.cs))
			if !tested || len(starts) == 0 {
				c.Violated(r4, construct, nc.cs.Call.Pos(), "the (ok, err) result is not tested", nil)
				continue
			}
			c.Offences(g, nonNilOnly(starts), r4, construct, nc.cs.Call.Pos(), "`!ok` and `err != nil` reach only error returns", "a failed replay does not fail the merge")
		}
	}
}

func itemLockRules(c *Ctx, r5 string) {
	w := c.W
	lockID := w.Field("common", "lockRecord", "LockID")
	isOwner := w.Field("common", "cacheItem", "isLockOwner")
	getAct := w.Object("common", "getAction")
	// ---- lock ----
	f := w.Fn("common.itemActionTracker.lock")
	g := w.G(f)
	c.Analysed(f)
	info := f.Pkg.TypesInfo
	gets := g.callNodes(kL2GetStructs)
	sets := g.callNodes(kL2SetStructs)
	c.Check(len(gets) == 2 && len(sets) == 1, r5, "lock: fetch-set-fetch inventory", f.Decl.Pos(), "two GetStructs and one SetStructs", fmt.Sprintf("found %d GetStructs / %d SetStructs", len(gets), len(sets)), nil)
	if len(sets) == 1 {
		_, succ, ok := g.ErrBranches(sets[0].n, sets[0].cs)
		if !ok {
			c.Violated(r5, "lock: SetStructs error tested", sets[0].cs.Call.Pos(), "error result not tested", nil)
		} else {
			// accepted idiom: `if len(verifyKeys) == 0 { return nil }` where verifyKeys (the keys
			// of the verifying read) is appended in the same basic block as the keys that are
			// written, so it is empty exactly when nothing was written.
			var nothingToVerify []*GNode
			if len(gets) == 2 && len(gets[1].cs.Call.Args) > 1 && len(sets[0].cs.Call.Args) > 1 {
				vk, _ := ast.Unparen(gets[1].cs.Call.Args[1]).(*ast.Ident)
				sk, _ := ast.Unparen(sets[0].cs.Call.Args[1]).(*ast.Ident)
				if vk != nil && sk != nil {
					vv, sv := info.Uses[vk], info.Uses[sk]
					paired := true
					nApp := 0
					for _, n := range g.Nodes {
						if n.Ast != nil && g.assignsObj(n, sv) {
							nApp++
							same := false
							for _, m := range g.Nodes {
								if m.Block == n.Block && m.Ast != nil && g.assignsObj(m, vv) {
									same = true
								}
							}
							if !same {
								paired = false
							}
						}
					}
					if paired && nApp > 0 {
						nothingToVerify = g.condNodes(func(e ast.Expr) bool {
							be, ok := e.(*ast.BinaryExpr)
							if !ok || be.Op != token.EQL {
								return false
							}
							call, ok := ast.Unparen(be.X).(*ast.CallExpr)
							if !ok || len(call.Args) != 1 || w.resolveCall(f, call).Key != "builtin.len" {
								return false
							}
							id, ok := ast.Unparen(call.Args[0]).(*ast.Ident)
							lit, isLit := ast.Unparen(be.Y).(*ast.BasicLit)
							return ok && info.Uses[id] == vv && isLit && lit.Value == "0"
						})
					}
				}
			}
			r := g.Reach(succ, calls(kL2GetStructs), edgeCut(nothingToVerify, 1))
			var offs []Offence
			for _, n := range g.Nodes {
				if r.Seen[n.ID] && !calls(kL2GetStructs)(n) && (n.Exit || (n.Ret != nil && g.ClassifyReturn(n) != RetNonNil)) {
					offs = append(offs, Offence{n, r.Path(n.ID)})
				}
			}
			c.Offences(g, offs, r5, "lock: write is verified by a second read", sets[0].cs.Call.Pos(), "after SetStructs succeeded, every non-error exit passes another GetStructs", "lock returns success after SetStructs without reading back who won")
		}
		// the first read precedes the write
		offs := g.MustPrecede(calls(kL2GetStructs), calls(kL2SetStructs))
		c.Offences(g, offs, r5, "lock: existing locks are read before writing", sets[0].cs.Call.Pos(), "GetStructs precedes SetStructs", "SetStructs reachable without first reading existing locks")
	}
	mismatchStarts := func(g *Graph, info *types.Info) ([]int, int) {
		var starts []int
		n := 0
		for _, x := range g.Nodes {
			if !x.IsCond || x.Ast == nil {
				continue
			}
			be, ok := ast.Unparen(x.Ast.(ast.Expr)).(*ast.BinaryExpr)
			if !ok || (be.Op != token.EQL && be.Op != token.NEQ) {
				continue
			}
			if fieldOfSelector(info, be.X) != lockID || fieldOfSelector(info, be.Y) != lockID {
				continue
			}
			n++
			for _, e := range x.Succs {
				if (e.Cond == 1) == (be.Op == token.NEQ) {
					starts = append(starts, e.To)
				}
			}
		}
		return starts, n
	}
	compatCut := func(g *Graph, info *types.Info) func(*GNode, Edge) bool {
		conds := g.condNodes(func(e ast.Expr) bool { return mentionsObj(info, e, getAct) })
		return edgeCut(conds, 1)
	}
	ownerTrue := func(g *Graph, info *types.Info) NPred {
		return func(n *GNode) bool {
			as, ok := n.Ast.(*ast.AssignStmt)
			if !ok || len(as.Lhs) != 1 || len(as.Rhs) != 1 {
				return false
			}
			o, _ := lhsObject(info, as.Lhs[0])
			return o == isOwner && isBoolLit(info, as.Rhs[0], true)
		}
	}
	starts, nm := mismatchStarts(g, info)
	c.Check(nm == 2, r5, "lock: LockID comparisons", f.Decl.Pos(), "LockID of the stored record is compared with ours in both passes", fmt.Sprintf("found %d LockID comparisons, expected 2", nm), nil)
	r := g.Reach(starts, isReturn, compatCut(g, info))
	var offs []Offence
	for _, n := range g.Nodes {
		if !r.Seen[n.ID] {
			continue
		}
		if n.RangeHead != nil || n.Exit || (n.Ret != nil && g.ClassifyReturn(n) != RetNonNil) || ownerTrue(g, info)(n) {
			offs = append(offs, Offence{n, r.Path(n.ID)})
		}
	}
	c.Offences(g, offs, r5, "lock: foreign incompatible lock is a conflict", f.Decl.Pos(), "a LockID mismatch that is not get/get reaches only error returns", "after a LockID mismatch (not get/get) lock() can continue, succeed or claim ownership")
	own := g.Find(ownerTrue(g, info))
	c.Check(len(own) == 1, r5, "lock: ownership assignment", f.Decl.Pos(), "one isLockOwner=true site", fmt.Sprintf("found %d", len(own)), nil)
	if len(own) == 1 {
		// ownership only after the verifying (second) read: every path passes two GetStructs... check it is not reachable before SetStructs-less paths: must be preceded by GetStructs that itself follows the set phase
		offs := g.MustPrecede(func(n *GNode) bool { return len(gets) == 2 && n == gets[1].n }, func(n *GNode) bool { return n == own[0] })
		c.Offences(g, offs, r5, "lock: ownership granted only after the verifying read", own[0].Ast.Pos(), "isLockOwner=true is dominated by the second GetStructs", "ownership can be claimed without the verifying read")
	}
	// ---- checkTrackedItems ----
	f2 := w.Fn("common.itemActionTracker.checkTrackedItems")
	g2 := w.G(f2)
	c.Analysed(f2)
	info2 := f2.Pkg.TypesInfo
	starts2, nm2 := mismatchStarts(g2, info2)
	c.Check(nm2 == 1, r5, "checkTrackedItems: LockID comparison", f2.Decl.Pos(), "stored LockID compared with ours", fmt.Sprintf("found %d comparisons", nm2), nil)
	// the returned variable
	var retVar *types.Var
	for _, n := range g2.Nodes {
		if n.Ret != nil {
			if e := g2.ErrOperand(n); e != nil {
				if id, ok := ast.Unparen(e).(*ast.Ident); ok {
					if v, ok := info2.Uses[id].(*types.Var); ok {
						retVar = v
					}
				}
			}
		}
	}
	setsErr := func(n *GNode) bool {
		as, ok := n.Ast.(*ast.AssignStmt)
		if !ok || len(as.Lhs) != 1 || len(as.Rhs) != 1 || retVar == nil {
			return false
		}
		o, _ := lhsObject(info2, as.Lhs[0])
		if o != retVar {
			return false
		}
		call, ok := ast.Unparen(as.Rhs[0]).(*ast.CallExpr)
		return ok && freshErrorCalls[w.resolveCall(f2, call).Key]
	}
	r2 := g2.Reach(starts2, setsErr, compatCut(g2, info2))
	offs = nil
	for _, n := range g2.Nodes {
		if r2.Seen[n.ID] && (n.RangeHead != nil || n.Ret != nil || n.Exit || ownerTrue(g2, info2)(n)) {
			offs = append(offs, Offence{n, r2.Path(n.ID)})
		}
	}
	c.Offences(g2, offs, r5, "checkTrackedItems: foreign incompatible lock is reported", f2.Decl.Pos(), "a LockID mismatch that is not get/get always records an error that the function returns", "a foreign lock found at re-check time does not produce an error")
	// every tracked item except this transaction's own adds is locked / re-checked
	addAct := w.Object("common", "addAction")
	itemsFld := w.Field("common", "itemActionTracker", "items")
	for _, fg := range []struct {
		f *Func
		g *Graph
	}{{f, g}, {f2, g2}} {
		ff, gg := fg.f, fg.g
		inf := ff.Pkg.TypesInfo
		name := ff.Obj.Name()
		gs := gg.callNodes(kL2GetStructs)
		if len(gs) == 0 || len(gs[0].cs.Call.Args) < 2 {
			c.Violated(r5, name+": every non-add item is covered", ff.Decl.Pos(), "no GetStructs call", nil)
			continue
		}
		kid, _ := ast.Unparen(gs[0].cs.Call.Args[1]).(*ast.Ident)
		if kid == nil {
			c.Violated(r5, name+": every non-add item is covered", ff.Decl.Pos(), "GetStructs keys argument is not a variable", nil)
			continue
		}
		kv := inf.Uses[kid]
		var head *GNode
		for _, h := range gg.Nodes {
			if h.RangeHead != nil && mentionsObj(inf, h.RangeHead.X, itemsFld) {
				// the loop that fills the keys
				fills := false
				for _, n := range gg.Nodes {
					if n.Ast != nil && n.Ast.Pos() >= h.RangeHead.Body.Pos() && n.Ast.End() <= h.RangeHead.Body.End() && gg.assignsObj(n, kv) {
						fills = true
					}
				}
				if fills {
					head = h
					break
				}
			}
		}
		if head == nil {
			c.Violated(r5, name+": every non-add item is covered", ff.Decl.Pos(), "no loop over t.items fills the keys passed to GetStructs", nil)
			continue
		}
		addConds := gg.condNodes(func(e ast.Expr) bool {
			be, ok := e.(*ast.BinaryExpr)
			return ok && be.Op == token.EQL && mentionsObj(inf, be, addAct)
		})
		r := gg.Reach(bodyStarts(head), func(n *GNode) bool { return n.Ast != nil && gg.assignsObj(n, kv) }, edgeCut(addConds, 1))
		var offs []Offence
		if r.Seen[head.ID] {
			offs = append(offs, Offence{head, r.Path(head.ID)})
		}
		c.Offences(gg, offs, r5, name+": every non-add item is covered", head.RangeHead.Pos(), "only items with Action == addAction are skipped when collecting the lock keys", "an item other than this transaction's own adds can be skipped when collecting the lock keys")
	}
	// no reassignment of the error variable to nil later
	nilAssign := 0
	for _, ws := range w.writesOf(f2, retVar, false) {
		if ws.Rhs != nil && isNilLit(info2, ws.Rhs) {
			nilAssign++
		}
	}
	c.Check(retVar != nil && nilAssign == 0, r5, "checkTrackedItems: recorded conflict is returned", f2.Decl.Pos(), "the error variable is returned and never reset", "the recorded conflict error can be lost", nil)
}
