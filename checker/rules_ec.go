package main

import (
	"fmt"
	"go/ast"
	"go/constant"
	"go/token"
	"go/types"
	"strings"
)

func init() {
	register("C25", propMeta{
		Explanation:  "Decides the clause 'a read never crashes the process' and the structural conditions of damage tolerance, not reconstruction itself: (R1) every slice/index of bytes that come from a shard file (the ReadFile result in GetOne, the per-shard metadata handed to Decode, the pad byte used to size the result) is dominated by a nil/length guard on the same expression; (R2) a write fails exactly when the number of failed shard writes exceeds ParityShardsCount (counter compared with `>` against that field, counter incremented once per received error); (R3) the three sites that know the shard file layout agree: Add and the repair branch write metadata||shard, GetOne splits at erasure.MetaDataSize, ComputeShardMetadata returns 1+md5.Size = MetaDataSize bytes, and all sites build the file name with the same format over the shard index; (R4) checksum-based detection examines every shard (the loop ranges over the whole shards parameter), a shard is discarded only on checksum mismatch, and every failure of the final verification yields a non-nil error. (R5) every ComputeShardMetadata call receives len(E) for the very blob E whose Encode produced the shards it is computed over (the pad count a later read applies comes from this metadata). (R6) a failed first reconstruction pass can fall through to the checksum-guided pass (a shard of the wrong length is a damaged shard), and that pass is gated by verification results only.",
		DoesNotCover: "That Reed-Solomon reconstruction returns the stored bytes (library behaviour and arithmetic) is not decided.",
	}, runC25)
	register("C26", propMeta{
		Explanation:  "Decides only 'the repairing read rewrites what it reconstructed, in the on-disk format': (R1) in GetOne the repair block is entered exactly under repairCorruptedShards && len(ReconstructedShardsIndeces) > 0, iterates over all reported indices and for each writes ComputeShardMetadata(len(decoded), encoded, i) || encoded[i] to the path of shard i; (R2) Decode's reported index set on the success path includes the shards found missing AND those found corrupt (the second phase must not discard the first phase's list). Every DecodeResult returned by detectBadShardsThenReconstruct sets Error or carries the list of corrupt shards. A second-phase result assigned straight over the first phase's (without merging the index lists) is reported too.",
		DoesNotCover: "That every shard file is intact afterwards and that p further failures are then tolerated (runtime, library).",
	}, runC26)
}

// guardedBy: node n is dominated by a branch whose condition mentions len(<expr>) or compares
// <expr> with nil, for the printed form of expr.
func (g *Graph) guardedByLenOrNil(n *GNode, exprStr string) bool {
	info := g.F.Pkg.TypesInfo
	conds := g.condNodes(func(e ast.Expr) bool {
		ok := false
		ast.Inspect(e, func(x ast.Node) bool {
			switch y := x.(type) {
			case *ast.CallExpr:
				if id, isID := y.Fun.(*ast.Ident); isID && id.Name == "len" && len(y.Args) == 1 && types.ExprString(y.Args[0]) == exprStr {
					ok = true
				}
			case *ast.BinaryExpr:
				if (y.Op == token.EQL || y.Op == token.NEQ) && ((types.ExprString(y.X) == exprStr && isNilLit(info, y.Y)) || (types.ExprString(y.Y) == exprStr && isNilLit(info, y.X))) {
					ok = true
				}
			}
			return true
		})
		return ok
	})
	if len(conds) == 0 {
		return false
	}
	// dominated by some edge of those conds: removing the cond nodes disconnects n from entry
	r := g.Reach([]int{g.Entry}, nodeSet(conds), nil)
	return !r.Seen[n.ID]
}

// lenGuardFor: node n is reachable only through an edge on which len(<exprStr>) >= need is known.
func (g *Graph) lenGuardFor(n *GNode, exprStr string, need int64) bool {
	info := g.F.Pkg.TypesInfo
	type ge struct {
		n      *GNode
		branch int
	}
	var guards []ge
	for _, cn := range g.Nodes {
		if !cn.IsCond || cn.Ast == nil {
			continue
		}
		be, ok := cn.Ast.(*ast.BinaryExpr)
		if !ok {
			continue
		}
		isLen := func(e ast.Expr) bool {
			call, ok := ast.Unparen(e).(*ast.CallExpr)
			if !ok || len(call.Args) != 1 {
				return false
			}
			id, ok := call.Fun.(*ast.Ident)
			return ok && id.Name == "len" && types.ExprString(call.Args[0]) == exprStr
		}
		op, l, r := be.Op, be.X, be.Y
		if !isLen(l) && isLen(r) {
			// mirror: C OP len(x)  ==  len(x) OP' C
			l, r = r, l
			switch op {
			case token.LSS:
				op = token.GTR
			case token.GTR:
				op = token.LSS
			case token.LEQ:
				op = token.GEQ
			case token.GEQ:
				op = token.LEQ
			}
		}
		if !isLen(l) {
			continue
		}
		tv := info.Types[r]
		if tv.Value == nil {
			continue
		}
		cv, ok2 := constant.Int64Val(constant.ToInt(tv.Value))
		if !ok2 {
			continue
		}
		switch op {
		case token.LSS: // len < C : false edge => len >= C
			if cv >= need {
				guards = append(guards, ge{cn, 2})
			}
		case token.GEQ:
			if cv >= need {
				guards = append(guards, ge{cn, 1})
			}
		case token.LEQ: // len <= C : false => len >= C+1
			if cv+1 >= need {
				guards = append(guards, ge{cn, 2})
			}
		case token.GTR:
			if cv+1 >= need {
				guards = append(guards, ge{cn, 1})
			}
		case token.EQL: // len == C (C>=need): true edge
			if cv >= need {
				guards = append(guards, ge{cn, 1})
			}
		}
	}
	if len(guards) == 0 {
		return false
	}
	cut := func(from *GNode, e Edge) bool {
		for _, gd := range guards {
			if gd.n == from && e.Cond == gd.branch {
				return true
			}
		}
		return false
	}
	r := g.Reach([]int{g.Entry}, nil, cut)
	return !r.Seen[n.ID]
}

// neededLen returns the minimum length of the operand that makes the slice/index expression safe,
// when its bounds are constants.
func neededLen(info *types.Info, e ast.Expr) (int64, bool) {
	val := func(x ast.Expr) (int64, bool) {
		if x == nil {
			return 0, true
		}
		tv := info.Types[x]
		if tv.Value == nil {
			return 0, false
		}
		return constant.Int64Val(constant.ToInt(tv.Value))
	}
	switch x := e.(type) {
	case *ast.SliceExpr:
		lo, ok1 := val(x.Low)
		hi, ok2 := val(x.High)
		if !ok1 || !ok2 {
			return 0, false
		}
		if hi > lo {
			return hi, true
		}
		return lo, true
	case *ast.IndexExpr:
		i, ok := val(x.Index)
		return i + 1, ok
	}
	return 0, false
}

// sliceSites finds slice/index expressions in f whose operand prints as one of the given forms.
type sliceSite struct {
	n    *GNode
	expr ast.Expr
	op   string
}

func (g *Graph) sliceSites(match func(operand ast.Expr) bool) []sliceSite {
	var out []sliceSite
	for _, n := range g.Nodes {
		if n.Ast == nil {
			continue
		}
		ast.Inspect(n.Ast, func(x ast.Node) bool {
			switch y := x.(type) {
			case *ast.FuncLit:
				return false
			case *ast.SliceExpr:
				if match(y.X) {
					out = append(out, sliceSite{n, y, types.ExprString(y.X)})
				}
			case *ast.IndexExpr:
				if match(y.X) {
					out = append(out, sliceSite{n, y, types.ExprString(y.X)})
				}
			}
			return true
		})
	}
	return out
}

func runC25(c *Ctx) {
	w := c.W
	r1 := c.Rule("R1", "untrusted shard bytes: every slice/index of file-derived bytes is dominated by a nil/length guard on the same expression", 4)
	// (a) GetOne reader closure
	fGet := w.Fn("fs.BlobStoreWithEC.GetOne")
	var reader *Func
	for _, l := range fGet.lits {
		for _, cs := range w.Sites(l) {
			if strings.HasSuffix(cs.Key, "FileIO.ReadFile") {
				reader = l
			}
		}
	}
	if reader == nil {
		panic(undecided{"GetOne's shard reader closure (calling FileIO.ReadFile) not found"})
	}
	{
		g := w.G(reader)
		c.Analysed(reader)
		info := reader.Pkg.TypesInfo
		var rv *types.Var
		for _, nc := range g.Nodes {
			for _, cs := range nc.Calls {
				if strings.HasSuffix(cs.Key, "FileIO.ReadFile") {
					rv = g.lhsVarOfCall(nc, cs, 0)
				}
			}
		}
		sites := g.sliceSites(func(op ast.Expr) bool {
			id, ok := ast.Unparen(op).(*ast.Ident)
			return ok && rv != nil && info.Uses[id] == rv
		})
		c.Check(len(sites) >= 2, r1, "GetOne: shard file split sites", reader.Lit.Pos(), fmt.Sprintf("%d slicing sites of the bytes read", len(sites)), "the bytes read from a shard file are no longer split here", nil)
		for i, s := range sites {
			need, okN := neededLen(info, s.expr)
			c.Check(okN && g.lenGuardFor(s.n, s.op, need), r1, fmt.Sprintf("GetOne: slice #%d of the shard file bytes is length-guarded", i+1), s.expr.Pos(),
				"dominated by a len() check", "a shard file shorter than the metadata prefix makes "+types.ExprString(s.expr)+" panic inside the reader goroutine (process crash on a truncated shard)", nil)
		}
	}
	// (b) detectBadShardsThenReconstruct: shardsMetaData[i][1:]
	fDet := w.Fn("fs/erasure.Erasure.detectBadShardsThenReconstruct")
	{
		g := w.G(fDet)
		c.Analysed(fDet)
		sig := fDet.Obj.Type().(*types.Signature)
		md := sig.Params().At(1)
		info := fDet.Pkg.TypesInfo
		sites := g.sliceSites(func(op ast.Expr) bool {
			ix, ok := ast.Unparen(op).(*ast.IndexExpr)
			if !ok {
				return false
			}
			id, ok := ast.Unparen(ix.X).(*ast.Ident)
			return ok && info.Uses[id] == md
		})
		c.Check(len(sites) >= 1, r1, "detectBadShards: metadata slicing sites", fDet.Decl.Pos(), fmt.Sprintf("%d sites", len(sites)), "metadata no longer sliced here", nil)
		for i, s := range sites {
			need, okN := neededLen(info, s.expr)
			c.Check(okN && g.lenGuardFor(s.n, s.op, need), r1, fmt.Sprintf("detectBadShards: metadata slice #%d is nil/length-guarded", i+1), s.expr.Pos(),
				"dominated by a nil/len check", "the metadata of a shard whose file was missing is nil: "+types.ExprString(s.expr)+" panics with slice bounds out of range (one shard missing + one corrupted)", nil)
		}
	}
	// (c) Decode: result sized with the pad byte
	fDec := w.Fn("fs/erasure.Erasure.Decode")
	{
		g := w.G(fDec)
		c.Analysed(fDec)
		n := 0
		for _, nd := range g.Nodes {
			for _, cs := range nd.Calls {
				if cs.Key != "builtin.make" || len(cs.Call.Args) < 2 {
					continue
				}
				be, ok := ast.Unparen(cs.Call.Args[1]).(*ast.BinaryExpr)
				if !ok || be.Op != token.SUB {
					continue
				}
				n++
				// the subtrahend must be bounded: a dominating comparison mentioning it
				sub := types.ExprString(be.Y)
				conds := g.condNodes(func(e ast.Expr) bool { return strings.Contains(types.ExprString(e), sub) })
				r := g.Reach([]int{g.Entry}, nodeSet(conds), nil)
				c.Check(len(conds) > 0 && !r.Seen[nd.ID], r1, fmt.Sprintf("Decode: result length #%d cannot go negative", n), cs.Call.Pos(), "the pad count is compared with the joined length first",
					"make([]byte, "+types.ExprString(cs.Call.Args[1])+") with an unchecked pad byte read from a shard file: a corrupted pad byte makes the length negative (makeslice panic)", nil)
			}
		}
		c.Check(n >= 1, r1, "Decode: result sizing site", fDec.Decl.Pos(), "found", "result is no longer sized from the pad byte here", nil)
	}

	// ---- R2 ----
	r2 := c.Rule("R2", "Add fails exactly when failed shard writes exceed ParityShardsCount", 2)
	fAdd := w.Fn("fs.BlobStoreWithEC.Add")
	{
		parity := w.Field("fs/erasure", "Erasure", "ParityShardsCount")
		found := 0
		for _, l := range w.allLits(fAdd) {
			g := w.G(l)
			info := l.Pkg.TypesInfo
			for _, n := range g.Nodes {
				if !n.IsCond || n.Ast == nil {
					continue
				}
				be, ok := n.Ast.(*ast.BinaryExpr)
				if !ok || !mentionsObj(info, be, parity) {
					continue
				}
				found++
				c.Analysed(l)
				okOp := be.Op == token.GTR && fieldOfSelector(info, be.Y) == parity
				c.Check(okOp, r2, "Add: tolerance comparison", be.Pos(), "failures > ParityShardsCount", "tolerance is compared as `"+types.ExprString(be)+"`: a write then fails with p or fewer failed shards, or succeeds with more than p", nil)
				// the counter is incremented once per received error: an IncDec of the compared variable inside the receive branch
				id, _ := ast.Unparen(be.X).(*ast.Ident)
				inc := 0
				if id != nil {
					for _, ws := range w.writesOf(l, info.Uses[id], false) {
						if _, ok := ws.Stmt.(*ast.IncDecStmt); ok {
							inc++
						}
					}
				}
				c.Check(inc == 1, r2, "Add: failure counter incremented once per error", be.Pos(), "one c++ site", fmt.Sprintf("%d increment sites for the failure counter", inc), nil)
				// true edge returns a non-nil error (lastErr set with the received error)
				r := g.Reach(branchStarts([]*GNode{n}, 1), isReturn, nil)
				okRet := false
				for _, x := range g.Nodes {
					if r.Seen[x.ID] && x.Ret != nil {
						okRet = g.ClassifyReturn(x) != RetNil
					}
				}
				c.Check(okRet, r2, "Add: exceeding the tolerance returns the error", be.Pos(), "returns the last error", "exceeding the tolerance does not fail the write", nil)
			}
		}
		c.Check(found == 1, r2, "Add: one tolerance comparison", fAdd.Decl.Pos(), "found", fmt.Sprintf("found %d comparisons with ParityShardsCount", found), nil)
	}

	// ---- R3 layout agreement ----
	r3 := c.Rule("R3", "shard file layout agreement between Add, GetOne and the repair branch", 5)
	{
		mds := w.Object("fs/erasure", "MetaDataSize").(*types.Const)
		mdv, _ := constant.Int64Val(mds.Val())
		// ComputeShardMetadata: make([]byte, K) with K constant
		fc := w.Fn("fs/erasure.Erasure.ComputeShardMetadata")
		c.Analysed(fc)
		var k int64 = -1
		for _, cs := range w.Sites(fc) {
			if cs.Key == "builtin.make" && len(cs.Call.Args) == 2 {
				if tv := fc.Pkg.TypesInfo.Types[cs.Call.Args[1]]; tv.Value != nil {
					k, _ = constant.Int64Val(tv.Value)
				}
			}
		}
		c.Check(k == mdv, r3, "ComputeShardMetadata returns MetaDataSize bytes", fc.Decl.Pos(), fmt.Sprintf("%d bytes", k), fmt.Sprintf("metadata is %d bytes but readers split at MetaDataSize=%d", k, mdv), nil)
		// GetOne splits at MetaDataSize: both slice bounds mention the constant
		g := w.G(reader)
		info := reader.Pkg.TypesInfo
		nb := 0
		for _, n := range g.Nodes {
			if n.Ast == nil {
				continue
			}
			ast.Inspect(n.Ast, func(x ast.Node) bool {
				if se, ok := x.(*ast.SliceExpr); ok {
					if (se.High != nil && mentionsObj(info, se.High, mds)) || (se.Low != nil && mentionsObj(info, se.Low, mds)) {
						nb++
					}
				}
				return true
			})
		}
		c.Check(nb == 2, r3, "GetOne splits the shard file at MetaDataSize", reader.Lit.Pos(), "ba[0:MetaDataSize] / ba[MetaDataSize:]", fmt.Sprintf("found %d slice bounds using MetaDataSize, expected 2", nb), nil)
		// writers: copy(buf, md); copy(buf[len(md):], shard) with md from ComputeShardMetadata
		for _, wf := range []struct {
			name string
			fs   []*Func
		}{{"Add", w.allLits(fAdd)}, {"GetOne repair", []*Func{fGet}}} {
			ok := false
			for _, f := range wf.fs {
				finfo := f.Pkg.TypesInfo
				var mdVar types.Object
				for _, n := range w.G(f).Nodes {
					for _, cs := range n.Calls {
						if cs.Key == "fs/erasure.Erasure.ComputeShardMetadata" {
							if v := w.G(f).lhsVarOfCall(n, cs, 0); v != nil {
								mdVar = v
							}
						}
					}
				}
				if mdVar == nil {
					continue
				}
				c1, c2 := false, false
				for _, cs := range w.Sites(f) {
					if cs.Key != "builtin.copy" || len(cs.Call.Args) != 2 {
						continue
					}
					if id, isID := ast.Unparen(cs.Call.Args[1]).(*ast.Ident); isID && finfo.Uses[id] == mdVar {
						if _, isSl := ast.Unparen(cs.Call.Args[0]).(*ast.SliceExpr); !isSl {
							c1 = true
						}
					}
					if se, isSl := ast.Unparen(cs.Call.Args[0]).(*ast.SliceExpr); isSl && se.Low != nil && se.High == nil {
						if types.ExprString(se.Low) == "len("+mdVar.Name()+")" {
							c2 = true
						}
					}
				}
				if c1 && c2 {
					ok = true
				}
			}
			c.Check(ok, r3, wf.name+": writes metadata || shard", fGet.Decl.Pos(), "copy(buf, md); copy(buf[len(md):], shard)", "the shard file is no longer written as metadata followed by the shard", nil)
		}
		// file name format agreement
		formats := map[string]int{}
		for _, f := range append(append(w.allLits(fAdd), fAdd, fGet, w.Fn("fs.BlobStoreWithEC.Remove")), w.allLits(fGet)...) {
			for _, cs := range w.Sites(f) {
				if cs.Key == "fmt.Sprintf" && len(cs.Call.Args) >= 1 {
					if tv := f.Pkg.TypesInfo.Types[cs.Call.Args[0]]; tv.Value != nil {
						s := constant.StringVal(tv.Value)
						if strings.HasSuffix(s, "_%d") {
							formats[s]++
						}
					}
				}
			}
		}
		okF := len(formats) == 1
		tot := 0
		for _, n := range formats {
			tot += n
		}
		c.Check(okF && tot >= 4, r3, "shard file name format is the same at all sites", fGet.Decl.Pos(), fmt.Sprintf("%v", formats), fmt.Sprintf("shard file name formats differ or sites missing: %v", formats), nil)
	}

	// ---- R4 ----
	r5 := c.Rule("R5", "shard metadata (pad count, checksum) is computed from the length of the very blob whose Encode produced the shards it is computed over", 2)
	{
		nSites := 0
		for _, root := range []string{"fs.BlobStoreWithEC.Add", "fs.BlobStoreWithEC.GetOne"} {
			fr := w.Fn(root)
			c.Analysed(fr)
			defs := map[types.Object][]ast.Expr{}
			fns := append([]*Func{fr}, w.allLits(fr)...)
			for _, fn := range fns {
				for k, v := range localDefs(fn) {
					defs[k] = append(defs[k], v...)
				}
			}
			// tuple definitions `x, err := call(...)`: localDefs records the call for every left-hand side
			canon := func(info *types.Info, e ast.Expr) string {
				for i := 0; i < 4; i++ {
					id, ok := ast.Unparen(e).(*ast.Ident)
					if !ok {
						break
					}
					ds := defs[info.Uses[id]]
					if len(ds) != 1 {
						break
					}
					if _, isCall := ast.Unparen(ds[0]).(*ast.CallExpr); isCall {
						break
					}
					e = ds[0]
				}
				return types.ExprString(ast.Unparen(e))
			}
			for _, fn := range fns {
				info := fn.Pkg.TypesInfo
				for _, cs := range w.Sites(fn) {
					if cs.Key != "fs/erasure.Erasure.ComputeShardMetadata" || len(cs.Call.Args) != 3 {
						continue
					}
					nSites++
					construct := fmt.Sprintf("%s: ComputeShardMetadata #%d gets the encoded blob's own length", shortKey(root), nSites)
					// the shards: defined by Encode(E)
					var encArg ast.Expr
					if id, ok := ast.Unparen(cs.Call.Args[1]).(*ast.Ident); ok {
						for _, d := range defs[info.Uses[id]] {
							if call, ok := ast.Unparen(d).(*ast.CallExpr); ok {
								if ecs := w.resolveCall(fn, call); ecs != nil && ecs.Key == "fs/erasure.Erasure.Encode" && len(call.Args) == 1 {
									encArg = call.Args[0]
								}
							}
						}
					}
					// the size: len(E') directly or through one local
					var sizeArg ast.Expr
					se := cs.Call.Args[0]
					if id, ok := ast.Unparen(se).(*ast.Ident); ok {
						if ds := defs[info.Uses[id]]; len(ds) == 1 {
							se = ds[0]
						}
					}
					if call, ok := ast.Unparen(se).(*ast.CallExpr); ok && len(call.Args) == 1 {
						if id, ok := ast.Unparen(call.Fun).(*ast.Ident); ok {
							if b, isB := info.Uses[id].(*types.Builtin); isB && b.Name() == "len" {
								sizeArg = call.Args[0]
							}
						}
					}
					okM := encArg != nil && sizeArg != nil && canon(info, encArg) == canon(info, sizeArg)
					detail := "size is not len(<the blob passed to Encode>)"
					if encArg != nil && sizeArg != nil {
						detail = fmt.Sprintf("size is len(%s) but the shards come from Encode(%s)", canon(info, sizeArg), canon(info, encArg))
					} else if encArg == nil {
						detail = "the shards passed are not the result of an Encode call in this function (e.g. the padded shards Decode reconstructed): their total length is a multiple of the data shard count, so the pad count stored in the metadata becomes 0"
					}
					c.Check(okM, r5, construct, cs.Call.Pos(), "len(E) with shards := Encode(E)", detail+": a later read takes the pad count from this shard's metadata and returns the blob with trailing zero bytes", nil)
				}
			}
		}
		c.Check(nSites >= 2, r5, "ComputeShardMetadata call sites inventoried", token.NoPos, fmt.Sprintf("%d", nSites), fmt.Sprintf("only %d", nSites), nil)
	}

	r6 := c.Rule("R6", "a shard of the wrong length is a damaged shard, not a failed read: when the first reconstruction (missing shards only) fails, Decode can still reach the checksum-guided pass, which nulls the shards whose checksum does not match and reconstructs them - not every failure of the first pass returns", 2)
	{
		fdec := w.Fn("fs/erasure.Erasure.Decode")
		gdec := w.G(fdec)
		c.Analysed(fdec)
		first := gdec.callNodes("fs/erasure.Erasure.reconstructMissingShards")
		second := gdec.Find(calls("fs/erasure.Erasure.detectBadShardsThenReconstruct"))
		c.Check(len(first) == 1 && len(second) >= 1, r6, "Decode: two reconstruction passes present", fdec.Decl.Pos(), "reconstructMissingShards then detectBadShardsThenReconstruct", "passes missing", nil)
		if len(first) == 1 && len(second) >= 1 {
			rv := gdec.lhsVarOfCall(first[0].n, first[0].cs, 0)
			errF := w.Field("fs/erasure", "DecodeResult", "Error")
			dinfo := fdec.Pkg.TypesInfo
			failTests := gdec.condNodes(func(e ast.Expr) bool {
				be, ok := e.(*ast.BinaryExpr)
				return ok && be.Op == token.NEQ && fieldOfSelector(dinfo, be.X) == errF && rv != nil && mentionsObj(dinfo, be.X, rv) && isNilLit(dinfo, be.Y)
			})
			reach := false
			if len(failTests) > 0 {
				r := gdec.Reach(branchStarts(failTests, 1), nil, nil)
				for _, x := range second {
					if r.Seen[x.ID] {
						reach = true
					}
				}
			}
			pos := fdec.Decl.Pos()
			if len(failTests) > 0 {
				pos = failTests[0].Ast.Pos()
			}
			// the checksum-guided pass is gated by verification results only (Verify's ok, the first pass's error)
			{
				var okVars []types.Object
				for _, nc := range gdec.callNodes("github.com/klauspost/reedsolomon.Encoder.Verify") {
					if v := gdec.lhsVarOfCall(nc.n, nc.cs, 0); v != nil {
						okVars = append(okVars, v)
					}
				}
				var extra []string
				var xpos token.Pos
				for _, cn := range gdec.Nodes {
					if !cn.IsCond || cn.Ast == nil {
						continue
					}
					e, _ := cn.Ast.(ast.Expr)
					if e == nil {
						continue
					}
					gates := false
					for _, br := range []int{1, 2} {
						if len(gdec.ReachableWithout(edgeCut([]*GNode{cn}, br), func(x *GNode) bool { return x == second[0] })) == 0 {
							gates = true
						}
					}
					if !gates {
						continue
					}
					okCond := w.mentionsCall(fdec, e, "errors.Is")
					for _, v := range okVars {
						if mentionsObj(dinfo, e, v) {
							okCond = true
						}
					}
					ast.Inspect(e, func(x ast.Node) bool {
						if sx, ok := x.(ast.Expr); ok && fieldOfSelector(dinfo, sx) == errF {
							okCond = true
						}
						return true
					})
					if be, ok := e.(*ast.BinaryExpr); ok && be.Op == token.EQL && strings.Contains(types.ExprString(be), "len(shards)") {
						okCond = true // the empty-input guard at the top
					}
					if !okCond {
						extra = append(extra, types.ExprString(e))
						if xpos == token.NoPos {
							xpos = cn.Ast.Pos()
						}
					}
				}
				if xpos == token.NoPos {
					xpos = second[0].Ast.Pos()
				}
				c.Check(len(extra) == 0, r6, "Decode: the checksum-guided pass runs whenever verification failed", xpos, "gated by Verify's result and the first pass's error only",
					fmt.Sprintf("the checksum-guided pass additionally depends on `%s`: when it is skipped (say because a shard was missing and got rebuilt) a second, bit-rotted shard is never detected - the missing shard was rebuilt FROM it and the read returns wrong bytes with a nil error", strings.Join(extra, "`, `")), nil)
			}
			c.Check(len(failTests) == 0 || reach, r6, "Decode: a failed first pass can fall through to the checksum-guided pass", pos, "detectBadShardsThenReconstruct reachable from the failure of reconstructMissingShards",
				"every failure of the first reconstruction returns: one shard file truncated mid-payload (longer than its header, shorter than its siblings) makes the library report `shard sizes do not match` and the whole read fails although a single shard is damaged and parity is available - the checksum-guided pass, which would null and rebuild that shard, is never reached", nil)
		}
	}

	r4 := c.Rule("R4", "checksum detection examines every shard, discards only on mismatch, and a failed final verification is an error", 4)
	{
		g := w.G(fDet)
		info := fDet.Pkg.TypesInfo
		sig := fDet.Obj.Type().(*types.Signature)
		shardsP := sig.Params().At(0)
		sum := g.callNodes("crypto/md5.Sum")
		if len(sum) != 1 {
			c.Violated(r4, "detectBadShards: checksum computed", fDet.Decl.Pos(), fmt.Sprintf("expected one md5.Sum, found %d", len(sum)), nil)
		} else {
			head := enclosingRangeHead(g, sum[0].n)
			okAll := false
			if head != nil {
				if id, ok := ast.Unparen(head.RangeHead.X).(*ast.Ident); ok && info.Uses[id] == shardsP {
					okAll = true
				}
			}
			c.Check(okAll, r4, "detectBadShards: every shard is checksum-verified", sum[0].cs.Call.Pos(), "the loop ranges over the whole shards parameter", "the checksum loop does not range over all shards (e.g. data shards only): a corrupted parity shard is never detected and is used for reconstruction", nil)
			// shards[i] = nil only on the mismatch edge of bytes.Equal, or when the shard has no
			// metadata to verify it against (it was missing when read; accepted idiom)
			eq := g.condNodes(func(e ast.Expr) bool { return w.mentionsCall(fDet, e, "bytes.Equal") })
			noMeta := g.condNodes(func(e ast.Expr) bool {
				be, ok := e.(*ast.BinaryExpr)
				if !ok {
					return false
				}
				md := sig.Params().At(1)
				return mentionsObj(info, be, md) && (w.mentionsCall(fDet, be, "builtin.len") || isNilLit(info, be.Y))
			})
			nilAssign := func(n *GNode) bool {
				as, ok := n.Ast.(*ast.AssignStmt)
				if !ok || len(as.Lhs) != 1 || len(as.Rhs) != 1 || !isNilLit(info, as.Rhs[0]) {
					return false
				}
				o, elem := lhsObject(info, as.Lhs[0])
				return o == types.Object(shardsP) && elem
			}
			if head != nil {
				offs := g.MustFollowFrom(bodyStarts(head), func(n *GNode) bool { return n == sum[0].n || nilAssign(n) }, func(n *GNode) bool { return n == head })
				c.Offences(g, offs, r4, "detectBadShards: no shard is skipped", sum[0].cs.Call.Pos(), "each iteration computes the checksum or discards the shard", "an iteration can keep a shard without verifying its checksum")
			}
			cutEq := edgeCut(eq, 2)
			cutNM := func(from *GNode, e Edge) bool {
				for _, nm := range noMeta {
					if from == nm {
						be := nm.Ast.(*ast.BinaryExpr)
						// the edge on which the metadata is absent/short: `<`/`==` true edge, `>=`/`!=` false edge
						if ((be.Op == token.LSS || be.Op == token.EQL || be.Op == token.LEQ) && e.Cond == 1) || ((be.Op == token.GEQ || be.Op == token.NEQ || be.Op == token.GTR) && e.Cond == 2) {
							return true
						}
					}
				}
				return false
			}
			offs := g.ReachableWithout(func(from *GNode, e Edge) bool { return cutEq(from, e) || cutNM(from, e) }, nilAssign)
			c.Check(len(eq) == 1 && len(g.Find(nilAssign)) >= 1, r4, "detectBadShards: compares stored and computed checksum", fDet.Decl.Pos(), "bytes.Equal on the checksums", "checksum comparison missing", nil)
			c.Offences(g, offs, r4, "detectBadShards: a shard is discarded only on checksum mismatch or missing metadata", fDet.Decl.Pos(), "shards[i]=nil only on the mismatch edge (or when there is no metadata to verify against)", "a shard can be discarded without a checksum mismatch")
		}
		// final Verify: !ok => non-nil Error
		ver := g.callNodes("github.com/klauspost/reedsolomon.Encoder.Verify")
		if len(ver) != 1 {
			c.Violated(r4, "detectBadShards: final verification", fDet.Decl.Pos(), fmt.Sprintf("expected one Verify, found %d", len(ver)), nil)
		} else {
			okv := g.lhsVarOfCall(ver[0].n, ver[0].cs, 0)
			conds := g.condNodes(func(e ast.Expr) bool { id, ok := e.(*ast.Ident); return ok && info.Uses[id] == okv })
			r := g.Reach(branchStarts(conds, 2), isReturn, nil)
			bad := 0
			tot := 0
			var pos token.Pos = ver[0].cs.Call.Pos()
			for _, x := range g.Nodes {
				if r.Seen[x.ID] && x.Ret != nil {
					tot++
					if !returnsFreshErrorField(w, fDet, x.Ret) && !returnsNonNilVarField(g, x) {
						bad++
						pos = x.Ret.Pos()
					}
				}
			}
			c.Check(tot >= 1 && bad == 0, r4, "detectBadShards: failed final verification yields a non-nil error", pos, "Error is a fresh error on the !ok edge",
				"on the !ok edge the result's Error is the error returned by Verify, which is nil when verification merely fails: Decode then treats the unverified shards as success and returns wrong bytes", nil)
		}
	}
}

// returnsFreshErrorField: return &T{Error: X} where X is a fresh error expression.
func returnsFreshErrorField(w *World, f *Func, rs *ast.ReturnStmt) bool {
	if len(rs.Results) != 1 {
		return false
	}
	var cl *ast.CompositeLit
	switch x := ast.Unparen(rs.Results[0]).(type) {
	case *ast.UnaryExpr:
		cl, _ = x.X.(*ast.CompositeLit)
	case *ast.CompositeLit:
		cl = x
	}
	if cl == nil {
		return false
	}
	for _, el := range cl.Elts {
		kv, ok := el.(*ast.KeyValueExpr)
		if !ok {
			continue
		}
		if id, ok := kv.Key.(*ast.Ident); ok && id.Name == "Error" {
			if call, ok := ast.Unparen(kv.Value).(*ast.CallExpr); ok && freshErrorCalls[w.resolveCall(f, call).Key] {
				return true
			}
		}
	}
	return false
}

// returnsNonNilVarField: return &T{Error: v} where v is a variable tested non-nil on every
// path to this return.
func returnsNonNilVarField(g *Graph, n *GNode) bool {
	if n.Ret == nil || len(n.Ret.Results) != 1 {
		return false
	}
	var cl *ast.CompositeLit
	switch x := ast.Unparen(n.Ret.Results[0]).(type) {
	case *ast.UnaryExpr:
		cl, _ = x.X.(*ast.CompositeLit)
	case *ast.CompositeLit:
		cl = x
	}
	if cl == nil {
		return false
	}
	for _, el := range cl.Elts {
		kv, ok := el.(*ast.KeyValueExpr)
		if !ok {
			continue
		}
		if id, ok := kv.Key.(*ast.Ident); ok && id.Name == "Error" {
			if vid, ok := ast.Unparen(kv.Value).(*ast.Ident); ok {
				if v, ok := g.F.Pkg.TypesInfo.Uses[vid].(*types.Var); ok {
					return g.NonNilAt(n, v)
				}
			}
		}
	}
	return false
}

func (w *World) allLits(f *Func) []*Func {
	var out []*Func
	for _, l := range f.lits {
		out = append(out, l)
		out = append(out, w.allLits(l)...)
	}
	return out
}

func runC26(c *Ctx) {
	w := c.W
	r1 := c.Rule("R1", "GetOne: repair block guarded by repairCorruptedShards && len(ReconstructedShardsIndeces)>0, ranges over all reported indices, writes metadata||shard to shard i's path", 4)
	f := w.Fn("fs.BlobStoreWithEC.GetOne")
	g := w.G(f)
	c.Analysed(f)
	info := f.Pkg.TypesInfo
	repairFld := w.Field("fs", "BlobStoreWithEC", "repairCorruptedShards")
	idxFld := w.Field("fs/erasure", "DecodeResult", "ReconstructedShardsIndeces")
	var wr []nodeCall
	for _, n := range g.Nodes {
		for _, cs := range n.Calls {
			if strings.HasSuffix(cs.Key, "FileIO.WriteFile") {
				wr = append(wr, nodeCall{n, cs})
			}
		}
	}
	if len(wr) != 1 {
		c.Violated(r1, "GetOne: repair write site", f.Decl.Pos(), fmt.Sprintf("expected one WriteFile in GetOne, found %d", len(wr)), nil)
		return
	}
	c1 := g.condNodes(func(e ast.Expr) bool { return fieldOfSelector(info, e) == repairFld })
	c2 := g.condNodes(func(e ast.Expr) bool {
		be, ok := e.(*ast.BinaryExpr)
		return ok && be.Op == token.GTR && mentionsObj(info, be.X, idxFld) && w.mentionsCall(f, be.X, "builtin.len")
	})
	isWr := func(n *GNode) bool { return n == wr[0].n }
	c.Check(len(c1) == 1 && len(c2) == 1, r1, "GetOne: repair guard present", wr[0].cs.Call.Pos(), "both conjuncts found", "repair guard changed", nil)
	c.Offences(g, g.notOnlyVia(c1, 1, isWr), r1, "GetOne: repair only when enabled", wr[0].cs.Call.Pos(), "write reachable only with repairCorruptedShards", "shards rewritten although repair is disabled")
	// when enabled and indices non-empty the loop is entered: from the true edge of c2 the range head over the indices is reached unless Encode failed
	head := enclosingRangeHead(g, wr[0].n)
	okRange := head != nil && fieldOfSelector(info, head.RangeHead.X) == idxFld
	c.Check(okRange, r1, "GetOne: repair loop ranges over all reported indices", wr[0].cs.Call.Pos(), "for _, i := range dr.ReconstructedShardsIndeces", "the repair loop does not range over the full list of reconstructed shard indices", nil)
	if head != nil {
		offs := g.MustFollowFrom(bodyStarts(head), isWr, func(n *GNode) bool { return n == head })
		c.Offences(g, offs, r1, "GetOne: every reported shard is rewritten", wr[0].cs.Call.Pos(), "each iteration writes the shard file", "an iteration can skip the rewrite")
		// the written buffer is md||encoded[i] and the path uses the loop variable
		iv, _ := head.RangeHead.Value.(*ast.Ident)
		okIdx := false
		if iv != nil {
			ivo := info.Defs[iv]
			for _, n := range g.Nodes {
				for _, cs := range n.Calls {
					if cs.Key == "fs/erasure.Erasure.ComputeShardMetadata" && len(cs.Call.Args) == 3 && mentionsObj(info, cs.Call.Args[2], ivo) {
						okIdx = true
					}
				}
			}
			okPath := false
			for _, cs := range w.Sites(f) {
				if cs.Key == "fmt.Sprintf" && len(cs.Call.Args) >= 2 && mentionsObj(info, cs.Call.Args[len(cs.Call.Args)-1], ivo) {
					if tv := info.Types[cs.Call.Args[0]]; tv.Value != nil && strings.HasSuffix(constant.StringVal(tv.Value), "_%d") {
						okPath = true
					}
				}
			}
			okIdx = okIdx && okPath
		}
		c.Check(okIdx, r1, "GetOne: shard i's metadata and path are used for shard i", wr[0].cs.Call.Pos(), "metadata and file name both derive from the loop index", "metadata or file name of the rewritten shard does not derive from the shard's own index", nil)
	}

	r2 := c.Rule("R2", "Decode reports the shards found missing and the shards found corrupt", 1)
	fd := w.Fn("fs/erasure.Erasure.Decode")
	gd := w.G(fd)
	c.Analysed(fd)
	dinfo := fd.Pkg.TypesInfo
	det := gd.callNodes("fs/erasure.Erasure.detectBadShardsThenReconstruct")
	mis := gd.callNodes("fs/erasure.Erasure.reconstructMissingShards")
	if len(det) != 1 || len(mis) != 1 {
		c.Violated(r2, "Decode: two-phase structure", fd.Decl.Pos(), "expected reconstructMissingShards then detectBadShardsThenReconstruct", nil)
		return
	}
	rv := gd.lhsVarOfCall(mis[0].n, mis[0].cs, 0)
	dv := gd.lhsVarOfCall(det[0].n, det[0].cs, 0)
	// find `r = dr`
	var overwrite *GNode
	for _, n := range gd.Nodes {
		as, ok := n.Ast.(*ast.AssignStmt)
		if !ok || len(as.Lhs) != 1 || len(as.Rhs) != 1 {
			continue
		}
		l, _ := ast.Unparen(as.Lhs[0]).(*ast.Ident)
		r, _ := ast.Unparen(as.Rhs[0]).(*ast.Ident)
		if l != nil && r != nil && dinfo.Uses[l] == rv && dinfo.Uses[r] == dv {
			overwrite = n
		}
	}
	// the second phase's result assigned straight into the variable that holds the first phase's result
	if rv != nil && dv != nil && rv == dv {
		overwrite = det[0].n
	}
	merged := false
	for _, n := range gd.Nodes {
		as, ok := n.Ast.(*ast.AssignStmt)
		if !ok || len(as.Rhs) != 1 {
			continue
		}
		if w.mentionsCall(fd, as.Rhs[0], "builtin.append") && mentionsObj(dinfo, as.Rhs[0], rv) && mentionsObj(dinfo, as.Rhs[0], dv) && mentionsObj(dinfo, as.Rhs[0], idxFld) {
			merged = true
		}
	}
	pos := fd.Decl.Pos()
	if overwrite != nil {
		pos = overwrite.Ast.Pos()
	}
	// detectBadShardsThenReconstruct: every result either reports an error or names the shards it found corrupt
	{
		fdet := w.Fn("fs/erasure.Erasure.detectBadShardsThenReconstruct")
		gdet := w.G(fdet)
		c.Analysed(fdet)
		di := fdet.Pkg.TypesInfo
		errFld := w.Field("fs/erasure", "DecodeResult", "Error")
		corr := w.localVar(fdet, "corruptedShardsIndices")
		// the list is the only slice appended to with a shard index inside the checksum loop: fall back to any local
		// []int appended to in the function when the name changed
		if corr == nil {
			for o, ds := range localDefs(fdet) {
				if sl, ok := o.Type().Underlying().(*types.Slice); ok && types.Identical(sl.Elem(), types.Typ[types.Int]) {
					for _, d := range ds {
						if w.mentionsCall(fdet, d, "builtin.append") {
							corr, _ = o.(*types.Var)
						}
					}
				}
			}
		}
		var offs []Offence
		nRet := 0
		for _, n := range gdet.Nodes {
			if n.Ret == nil || len(n.Ret.Results) != 1 {
				continue
			}
			nRet++
			okRet := false
			ast.Inspect(n.Ret.Results[0], func(x ast.Node) bool {
				cl, ok := x.(*ast.CompositeLit)
				if !ok {
					return true
				}
				for _, el := range cl.Elts {
					kv, ok := el.(*ast.KeyValueExpr)
					if !ok {
						continue
					}
					id, _ := kv.Key.(*ast.Ident)
					if id == nil {
						continue
					}
					fo := originOf(di.Uses[id])
					if fo == types.Object(errFld) && !isNilLit(di, kv.Value) {
						okRet = true
					}
					if fo == types.Object(idxFld) && corr != nil && mentionsObj(di, kv.Value, corr) {
						okRet = true
					}
				}
				return true
			})
			if !okRet {
				offs = append(offs, Offence{n, nil})
			}
		}
		c.Check(nRet >= 3, r2, "detectBadShardsThenReconstruct: returns inventoried", fdet.Decl.Pos(), fmt.Sprintf("%d returns", nRet), fmt.Sprintf("only %d returns", nRet), nil)
		c.Offences(gdet, offs, r2, "detectBadShardsThenReconstruct: every result carries an error or the list of corrupt shards", fdet.Decl.Pos(), "each returned DecodeResult sets Error or ReconstructedShardsIndeces: <the corrupt list>",
			"a result without error and without the corrupt shards' indices: the repairing read does not learn that shard files are corrupt and never rewrites them, so the redundancy stays degraded")
	}
	c.Check(overwrite == nil || merged, r2, "Decode: second phase keeps the first phase's reconstructed indices", pos, "index lists are merged",
		"`r = dr` replaces the result of reconstructMissingShards by the result of detectBadShardsThenReconstruct: the indices of shards that were missing are dropped from ReconstructedShardsIndeces, so the repairing read never rewrites them", nil)
}
