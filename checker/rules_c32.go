package main

// C32: text search returns exactly the matching documents, ranked by BM25 (structural part).

import (
	"fmt"
	"go/ast"
	"go/token"
	"go/types"
	"strings"
)

func init() {
	register("C32", propMeta{
		Explanation:  "Decides index maintenance completeness and the shape of the result; the BM25 arithmetic itself is NOT decided (a symbolic match of the score expression would fire on algebraically equivalent rewrites): (R1) Index.Add: every nil-returning path has updated all five statistics - docStats.Add, for every distinct term postings.Add and termStats (UpdateCurrentValue(count+1) when found, Add(term, 1) otherwise), global total_docs (+1) and total_len (+docLen); (R2) Index.Search: the returned slice is built by ranging the per-document score map (each document at most once), contributions are accumulated with +=, and the slice is sorted by sort.Slice with less = Score(i) > Score(j) after the last append, with nothing in between that reorders it; (R3) writer/reader agreement on the postings key: Add builds term + \"|\" + docID, Search scans from term + \"|\", stops at the first key without that prefix and cuts the document id at the same length; (R4) Add and Search see the same terms: both tokenise through the index's tokenizer field, and SimpleTokenizer lower-cases every token with strings.ToLower (total over Unicode) unconditionally before the stop-word test and the append. (R5) the Index keeps no derived state that can go stale: a field assigned outside the constructor must be assigned on every successful path of Add.",
		DoesNotCover: "Score values (the BM25 formula, IDF, average length), tokenisation quality, and behaviour for documents indexed twice are not decided.",
	}, runC32)
}

func runC32(c *Ctx) {
	w := c.W
	const bi = "btree.BtreeInterface."
	f := w.Fn("search.Index.Add")
	g := w.G(f)
	c.Analysed(f)
	info := f.Pkg.TypesInfo
	fieldCall := func(field, method string) NPred {
		fld := w.Field("search", "Index", field)
		return func(n *GNode) bool {
			for _, cs := range n.Calls {
				if cs.Key != bi+method {
					continue
				}
				if sel, ok := cs.Call.Fun.(*ast.SelectorExpr); ok && fieldOfSelector(info, sel.X) == fld {
					return true
				}
			}
			return false
		}
	}
	success := func(n *GNode) bool { return n.Ret != nil && g.ClassifyReturn(n) == RetNil }
	r1 := c.Rule("R1", "Index.Add updates all five statistics on every successful path", 6)
	c.Check(len(g.Find(success)) >= 1, r1, "Add: success return present", f.Decl.Pos(), "present", "no nil return", nil)
	offs := g.MustPrecede(fieldCall("docStats", "Add"), success)
	c.Offences(g, offs, r1, "Add: document length recorded", f.Decl.Pos(), "docStats.Add precedes success", "a document can be indexed without its length (BM25 normalisation uses a fallback)")
	for _, key := range []string{"total_docs", "total_len"} {
		k := key
		up := func(n *GNode) bool {
			for _, cs := range n.Calls {
				if cs.Key == bi+"Upsert" && len(cs.Call.Args) == 3 {
					if lit, ok := ast.Unparen(cs.Call.Args[1]).(*ast.BasicLit); ok && strings.Trim(lit.Value, `"`) == k {
						if be, ok := ast.Unparen(cs.Call.Args[2]).(*ast.BinaryExpr); ok && be.Op == token.ADD {
							return true
						}
					}
				}
			}
			return false
		}
		offs := g.MustPrecede(up, success)
		c.Offences(g, offs, r1, "Add: global "+k+" is increased", f.Decl.Pos(), "Upsert("+k+", old + delta) precedes success", "a document can be indexed without updating "+k)
	}
	// per term loop: postings.Add and termStats update on every iteration that continues
	var termLoop *GNode
	for _, n := range g.Nodes {
		if n.RangeHead != nil {
			for _, x := range g.Find(fieldCall("postings", "Add")) {
				if enclosingRangeHead(g, x) == n {
					termLoop = n
				}
			}
		}
	}
	c.Check(termLoop != nil, r1, "Add: per-term loop with postings.Add", f.Decl.Pos(), "found", "no loop writes postings", nil)
	if termLoop != nil {
		offs := g.MustFollowFrom(bodyStarts(termLoop), fieldCall("postings", "Add"), func(n *GNode) bool { return n == termLoop })
		c.Offences(g, offs, r1, "Add: every term of the document gets a posting", termLoop.RangeHead.Pos(), "postings.Add on every iteration", "a term can be skipped: the document is not found by that term")
		ts := or(fieldCall("termStats", "UpdateCurrentValue"), fieldCall("termStats", "Add"))
		offs = g.MustFollowFrom(bodyStarts(termLoop), ts, func(n *GNode) bool { return n == termLoop })
		c.Offences(g, offs, r1, "Add: every term's document count is increased", termLoop.RangeHead.Pos(), "termStats.UpdateCurrentValue / Add on every iteration", "a term's document count can stay unchanged (IDF drifts)")
		// the loop ranges over the per-document frequency map (distinct terms)
		okMap := false
		if tv, ok := info.Types[termLoop.RangeHead.X]; ok {
			_, okMap = tv.Type.Underlying().(*types.Map)
		}
		c.Check(okMap, r1, "Add: the per-term loop ranges over the distinct terms of the document", termLoop.RangeHead.Pos(), "range over the frequency map", "the loop is not over distinct terms: a repeated term would be posted / counted more than once per document", nil)
		// success only after the loop
		offs = g.MustPrecede(func(n *GNode) bool { return n == termLoop }, success)
		c.Offences(g, offs, r1, "Add: success only after the term loop", f.Decl.Pos(), "loop precedes success", "success return reachable before the postings are written")
	}

	r2 := c.Rule("R2", "Search returns each scored document once, sorted by descending score", 4)
	fs := w.Fn("search.Index.Search")
	gs := w.G(fs)
	c.Analysed(fs)
	si := fs.Pkg.TypesInfo
	{
		// results = append(results, ...) inside a range over a map[string]float64
		var apps []*GNode
		for _, n := range gs.Nodes {
			if calls("builtin.append")(n) {
				if h := enclosingRangeHead(gs, n); h != nil {
					if tv, ok := si.Types[h.RangeHead.X]; ok {
						if _, isMap := tv.Type.Underlying().(*types.Map); isMap {
							apps = append(apps, n)
						}
					}
				}
			}
		}
		c.Check(len(apps) == 1, r2, "Search: the result is built by ranging the score map", fs.Decl.Pos(), "one append inside a range over a map", fmt.Sprintf("found %d such appends", len(apps)), nil)
		sorts := gs.callNodes("sort.Slice")
		okSort := len(sorts) == 1
		if okSort {
			okSort = false
			if lit, ok := ast.Unparen(sorts[0].cs.Call.Args[1]).(*ast.FuncLit); ok && len(lit.Body.List) == 1 {
				if rs, ok := lit.Body.List[0].(*ast.ReturnStmt); ok && len(rs.Results) == 1 {
					if be, ok := ast.Unparen(rs.Results[0]).(*ast.BinaryExpr); ok && be.Op == token.GTR {
						score := w.Field("search", "TextSearchResult", "Score")
						li, lj := lit.Type.Params.List[0].Names[0].Name, ""
						if len(lit.Type.Params.List[0].Names) > 1 {
							lj = lit.Type.Params.List[0].Names[1].Name
						} else if len(lit.Type.Params.List) > 1 {
							lj = lit.Type.Params.List[1].Names[0].Name
						}
						if fieldOfSelector(si, be.X) == score && fieldOfSelector(si, be.Y) == score &&
							strings.Contains(types.ExprString(be.X), "["+li+"]") && strings.Contains(types.ExprString(be.Y), "["+lj+"]") {
							okSort = true
						}
					}
				}
			}
		}
		c.Check(okSort, r2, "Search: sorted with less = Score[i] > Score[j]", fs.Decl.Pos(), "descending by score", "results are not sorted by descending score", nil)
		if len(sorts) == 1 && len(apps) == 1 {
			okOrder := len(gs.MustPrecede(func(n *GNode) bool { return n == sorts[0].n }, func(n *GNode) bool {
				return n.Ret != nil && len(n.Ret.Results) == 2 && !isNilLit(si, n.Ret.Results[0]) && gs.ClassifyReturn(n) == RetNil
			})) == 0 && !gs.Reach(gs.after(sorts[0].n), nil, nil).Seen[apps[0].ID]
			c.Check(okOrder, r2, "Search: the sort is the last thing done to the result", fs.Decl.Pos(), "sort after the last append, before the return", "results can be returned unsorted or appended to after sorting", nil)
		}
		// accumulation with +=
		acc := 0
		ast.Inspect(fs.Body, func(x ast.Node) bool {
			if as, ok := x.(*ast.AssignStmt); ok && as.Tok == token.ADD_ASSIGN {
				if _, isIx := ast.Unparen(as.Lhs[0]).(*ast.IndexExpr); isIx {
					acc++
				}
			}
			return true
		})
		c.Check(acc == 1, r2, "Search: per-document contributions are accumulated", fs.Decl.Pos(), "scores[doc] += score", "term contributions overwrite each other instead of adding up", nil)
	}

	r3 := c.Rule("R3", "postings key: writer and reader agree on term|docID", 3)
	{
		okW := false
		ast.Inspect(f.Body, func(x ast.Node) bool {
			if call, ok := x.(*ast.CallExpr); ok && w.resolveCall(f, call).Key == "fmt.Sprintf" && len(call.Args) == 3 {
				if lit, ok := ast.Unparen(call.Args[0]).(*ast.BasicLit); ok && lit.Value == `"%s|%s"` {
					sig := f.Obj.Type().(*types.Signature)
					if mentionsObj(info, call.Args[2], sig.Params().At(1)) {
						okW = true
					}
				}
			}
			return true
		})
		c.Check(okW, r3, "Add: postings key is term|docID", f.Decl.Pos(), `Sprintf("%s|%s", term, docID)`, "the postings key is not term|docID", nil)
		// Search: startKey := term + "|"; prefix test; docID := key[len(startKey):]
		defs := localDefs(fs)
		var startKey types.Object
		for o, ds := range defs {
			for _, d := range ds {
				if be, ok := ast.Unparen(d).(*ast.BinaryExpr); ok && be.Op == token.ADD {
					if lit, ok := ast.Unparen(be.Y).(*ast.BasicLit); ok && lit.Value == `"|"` {
						startKey = o
					}
				}
			}
		}
		c.Check(startKey != nil, r3, "Search: scan starts at term|", fs.Decl.Pos(), `startKey := term + "|"`, "the reader's prefix is not term|", nil)
		if startKey != nil {
			okCut, okStop := false, false
			ast.Inspect(fs.Body, func(x ast.Node) bool {
				if se, ok := x.(*ast.SliceExpr); ok && se.Low != nil && se.High == nil {
					if call, ok := ast.Unparen(se.Low).(*ast.CallExpr); ok && len(call.Args) == 1 && mentionsObj(si, call.Args[0], startKey) {
						okCut = true
					}
				}
				return true
			})
			stop := gs.condNodes(func(e ast.Expr) bool {
				be, ok := e.(*ast.BinaryExpr)
				return ok && be.Op == token.NEQ && mentionsObj(si, be.Y, startKey)
			})
			if len(stop) == 1 {
				// the mismatch edge leaves the scan loop without scoring
				r := gs.Reach(branchStarts(stop, 1), func(n *GNode) bool { return n.RangeHead != nil }, nil)
				okStop = true
				for _, x := range gs.Nodes {
					if r.Seen[x.ID] {
						if as, isAs := x.Ast.(*ast.AssignStmt); isAs && as.Tok == token.ADD_ASSIGN {
							okStop = false
						}
					}
				}
			}
			c.Check(okCut && okStop, r3, "Search: stops at the first key without the prefix and cuts the id after it", fs.Decl.Pos(), "prefix test leaves the scan; docID = key[len(prefix):]", "the scan can score postings of another term, or cuts the document id at the wrong place", nil)
		}
	}

	r4 := c.Rule("R4", "Add and Search tokenise identically; case folding is unconditional and total", 3)
	{
		tok := w.Field("search", "Index", "tokenizer")
		for _, fn := range []*Func{f, fs} {
			ok := false
			for _, cs := range w.Sites(fn) {
				if strings.HasSuffix(cs.Key, "Tokenizer.Tokenize") {
					if sel, isSel := cs.Call.Fun.(*ast.SelectorExpr); isSel && fieldOfSelector(fn.Pkg.TypesInfo, sel.X) == tok {
						ok = true
					}
				}
			}
			c.Check(ok, r4, shortKey(fn.Key)+" tokenises through the index's tokenizer", fn.Decl.Pos(), "idx.tokenizer.Tokenize", "indexing and searching may use different tokenisers", nil)
		}
		ft := w.Fn("search.SimpleTokenizer.Tokenize")
		gt := w.G(ft)
		c.Analysed(ft)
		ti := ft.Pkg.TypesInfo
		defs := localDefs(ft)
		okLower := false
		n := 0
		for _, nd := range gt.Nodes {
			if !calls("builtin.append")(nd) {
				continue
			}
			n++
			as, isAs := nd.Ast.(*ast.AssignStmt)
			if !isAs {
				continue
			}
			call := ast.Unparen(as.Rhs[0]).(*ast.CallExpr)
			if len(call.Args) != 2 {
				continue
			}
			id, isID := ast.Unparen(call.Args[1]).(*ast.Ident)
			if !isID {
				continue
			}
			ds := defs[ti.Uses[id]]
			if len(ds) == 1 {
				if lc, isCall := ast.Unparen(ds[0]).(*ast.CallExpr); isCall && w.resolveCall(ft, lc).Key == "strings.ToLower" {
					okLower = true
				}
			}
		}
		c.Check(n == 1 && okLower, r4, "Tokenize: every emitted token is strings.ToLower of its field", ft.Decl.Pos(), "token := strings.ToLower(field)",
			"tokens are not folded with strings.ToLower unconditionally: case variants of the same word (in particular with non-ASCII capitals) become different terms, so queries miss documents and term statistics are split", nil)
	}

	r5 := c.Rule("R5", "the Index keeps no derived state that can go stale: a field of search.Index assigned outside the constructor (a memo of corpus statistics, say) must be assigned on every successful path of Add as well; today no method assigns any field", 1)
	{
		ist, _ := w.Object("search", "Index").Type().Underlying().(*types.Struct)
		if ist == nil {
			panic(undecided{"search.Index is not a struct"})
		}
		fa := w.Fn("search.Index.Add")
		ga := w.G(fa)
		okAdd := func(n *GNode) bool { return n.Ret != nil && ga.ClassifyReturn(n) == RetNil }
		nF := 0
		for i := 0; i < ist.NumFields(); i++ {
			fld := ist.Field(i)
			nF++
			var writers []string
			var pos token.Pos
			for _, fn := range w.declaredFuncs("search") {
				for _, ws := range w.writesOf(fn, fld, true) {
					writers = append(writers, shortKey(fn.Key))
					pos = ws.Pos
				}
			}
			writers = dedup(writers)
			if len(writers) == 0 {
				continue
			}
			// maintained by Add on every success path?
			ainfo := fa.Pkg.TypesInfo
			setsF := func(n *GNode) bool {
				if as, ok := n.Ast.(*ast.AssignStmt); ok {
					for _, l := range as.Lhs {
						if fieldOfSelector(ainfo, l) == fld {
							return true
						}
					}
				}
				return false
			}
			maintained := len(ga.Find(setsF)) > 0 && len(ga.MustPrecede(setsF, okAdd)) == 0
			c.Check(maintained, r5, "Index."+fld.Name()+": state kept in the Index is maintained by Add", pos, "assigned on every successful path of Add",
				fmt.Sprintf("Index.%s is assigned by %v but not on every successful path of Add: a Search that follows an Add on the same Index object works from the remembered value (N, total length) while document frequencies and lengths are live - the scores are not BM25 any more, and an N remembered as 0 makes every later Search return nothing", fld.Name(), writers), nil)
		}
		c.Check(nF >= 4, r5, "Index fields inventoried", token.NoPos, fmt.Sprintf("%d fields", nF), fmt.Sprintf("only %d fields", nF), nil)
	}
}
