package main

// C10 (no live reference to deleted or partial data) and C11 (no orphans after crash-free histories).

import (
	"fmt"
	"go/ast"
	"go/token"
	"go/types"
	"sort"
	"strings"
)

func init() {
	register("C10", propMeta{
		Explanation:  "Decides which data each deletion site can delete and that decode failures surface: (R1) who-may-delete table: the BlobStore.Remove / Registry.Remove call sites of package common are exactly the seven known deletion functions, and each deletion function is called only from its justified callers (live rollback, post-commit cleanup, dead-transaction log replay); (R2) deletions of data a committed state may reference happen only behind the commit point: in phase2Commit the cleanup is unreachable from the failure edge of the all-or-nothing registry update, and the log replay re-runs deleteObsoleteEntries / deleteTrackedItemsValues only when the dead transaction's last logged step shows it had passed the commit point; (R3) the node blobs declared obsolete after a commit are the post-flip INACTIVE ids of the updated handles and the ACTIVE ids (plus logical ids) of the removed handles, taken from the slices returned by activateInactiveNodes / touchNodes; (R4) value blobs: itemActionTracker.manage queues the old value id for deletion only on the path on which the item is re-keyed with a fresh id before its new value is written, so the live id is never queued; the deletion queue is reset only by getForRollbackTrackedItemsValues, which phase1Commit invokes in every attempt before (re)staging values - the ids queued by an abandoned attempt or by the merge replay are thereby dropped before they can reach cleanup; (R6) the undo functions that cannot tell own from foreign state run only under a strict guard that implies the step succeeded for this transaction (shared with C37.R4); (R5) decode failures on the read path are reported, not swallowed: every Unmarshal reachable in nodeRepositoryBackend.get and itemActionTracker.Get has its error returned. (R7) the priority log is removed before the commit's obsolete blobs are deleted (phase2Commit and cleanup). (R8) the rollback inside the phase-1 conflict retry passes rollbackTrackedItemsValues=false: the retried attempt does not write the tracked items' value blobs again (refetch-and-merge marks them persisted), so deleting them there would commit items with dangling value ids.",
		DoesNotCover: "That every id a deletion function receives at run time is unreferenced (a property of histories) is not decided; crash points are not enumerated (C08).",
	}, runC10)
	register("C11", propMeta{
		Explanation:  "Decides that every artifact class a transaction stages has an undo and that logs are removed on every terminal path: (R1) the undo table (shared with C07.R1): every persistent commit step has a guarded undo block calling the matching undo function in the live rollback and in the dead-transaction log replay; (R2) partial steps (shared with C07.R2); (R3) transaction logs are removed on every terminal path - rollback, cleanup, log replay (shared with C07.R4) - and the priority log is removed after a successful commit and by the live rollback once it may have been written; (R4) obsolete data is actually handed to deletion after a commit: cleanup passes getToBeObsoleteEntries() to deleteObsoleteEntries and getObsoleteTrackedItemsValues() to deleteTrackedItemsValues, and the functions that only BUILD log payloads do not consume the deletion queue that a later step reads. (R5) Undo discoverability, derived from the undo functions: rollbackUpdatedNodes finds the blobs it deletes through the inactive ids recorded in the registry, so commitUpdatedNodes must record them in the registry before, and only if that succeeded then, write the blobs. (R6) every step is announced (logged) before it acts, on first and repeated execution (shared with C08.R1): the rollback decides from the announced step whether the previous step's artifacts must be removed. (R7) a removed item's value blob is queued for deletion whatever its fetch state (known finding F39a); (R8) the deletion queue is not cleared by the log-payload getters (known finding F39b, shared with C07.R11). (R9) the file-system blob stores' Remove (plain and erasure coded) never leaves its loops over tables, blobs and drives early - no break, no success return inside them - so every shard of a removed blob is visited.",
		DoesNotCover: "Comparing the blob store / registry contents with the reachable set is a runtime matter and is not decided.",
	}, runC11)
}

func rootOf(f *Func) *Func {
	for f.Parent != nil {
		f = f.Parent
	}
	return f
}

func runC10(c *Ctx) {
	w := c.W
	r1 := c.Rule("R1", "who-may-delete: deletion call sites and the callers of the deletion functions are the known, justified ones", 8)
	delFuncs := []string{kNRBrbNewRoot, kNRBrbAdded, kNRBrbUpdated, kNRBremoveNodes, kTLRollback, kTxDelValues, kTxDelObsolete}
	{
		got := map[string]bool{}
		for _, f := range w.declaredFuncs("common") {
			for _, cs := range w.AllSites(f) {
				if cs.Key == kBlobRemove || cs.Key == kRegRemove {
					got[rootOf(cs.In).Key] = true
				}
			}
		}
		var gl []string
		for k := range got {
			gl = append(gl, k)
		}
		sort.Strings(gl)
		var extra []string
		for _, k := range gl {
			if !contains(delFuncs, k) {
				extra = append(extra, k)
			}
		}
		c.Check(len(extra) == 0 && len(gl) >= 6, r1, "package common: functions that delete blobs / registry entries", token.NoPos, fmt.Sprintf("%v", shortKeys(gl)), fmt.Sprintf("unexpected deletion site(s) %v (known: %v)", shortKeys(extra), shortKeys(delFuncs)), nil)
	}
	allowed := map[string][]string{
		kTxDelObsolete:  {"common.Transaction.cleanup", kTLRollback},
		kTxDelValues:    {"common.Transaction.cleanup", kTxrb, kTLRollback},
		kNRBremoveNodes: {kTLRollback},
		kNRBrbNewRoot:   {kTxrb, kTLRollback},
		kNRBrbAdded:     {kTxrb, kTLRollback},
		kNRBrbUpdated:   {kTxrb},
		kNRBrbRemoved:   {kTxrb, kTLRollback},
	}
	var keys []string
	for k := range allowed {
		keys = append(keys, k)
	}
	sort.Strings(keys)
	for _, k := range keys {
		cs := callersOf(w, k)
		var extra []string
		for _, x := range cs {
			if !contains(allowed[k], x) {
				extra = append(extra, x)
			}
		}
		c.Check(len(extra) == 0 && len(cs) >= 1, r1, "callers of "+shortKey(k), w.Fn(k).Decl.Pos(), fmt.Sprintf("%v", shortKeys(cs)), fmt.Sprintf("called from %v; justified callers are %v", shortKeys(extra), shortKeys(allowed[k])), nil)
	}

	r2 := c.Rule("R2", "deletions of possibly referenced data happen only behind the commit point", 4)
	{
		f := w.Fn(kTxp2)
		g := w.G(f)
		c.Analysed(f)
		var cp nodeCall
		n := 0
		for _, nc := range g.callNodes(kRegUpdNL) {
			if len(nc.cs.Call.Args) >= 2 && isBoolLit(f.Pkg.TypesInfo, nc.cs.Call.Args[1], true) {
				cp = nc
				n++
			}
		}
		c.Check(n == 1, r2, "phase2Commit: commit point present", f.Decl.Pos(), "one UpdateNoLocks(true)", fmt.Sprintf("found %d", n), nil)
		if n == 1 {
			fail, _, ok := g.ErrBranches(cp.n, cp.cs)
			okC := ok
			if ok {
				r := g.Reach(fail, nil, nil)
				for _, x := range g.Find(w.callsReaching(kTxDelObsolete, kTxDelValues, kBlobRemove, kRegRemove)) {
					if r.Seen[x.ID] {
						okC = false
					}
				}
			}
			c.Check(okC, r2, "phase2Commit: nothing is deleted when the commit point failed", cp.cs.Call.Pos(), "cleanup unreachable from the failure edge", "obsolete-entry deletion is reachable although the all-or-nothing registry update failed: blobs the still-current handles reference are deleted", nil)
			offs := g.MustPrecede(calls(kLoggerLog), w.callsReaching(kTxDelObsolete, kTxDelValues))
			c.Offences(g, offs, r2, "phase2Commit: finalizeCommit is logged before anything is deleted", f.Decl.Pos(), "log precedes cleanup", "deletions can start without the finalizeCommit record that lets recovery finish them")
		}
		ft := w.Fn(kTLRollback)
		gt := w.G(ft)
		c.Analysed(ft)
		info := ft.Pkg.TypesInfo
		last := w.localVar(ft, "lastCommittedFunctionLog")
		for _, spec := range []struct {
			call string
			step string
			ops  []token.Token
		}{
			{kTxDelObsolete, "deleteObsoleteEntries", []token.Token{token.GEQ}},
		} {
			step := w.Object("common", spec.step)
			guard := gt.condNodes(func(e ast.Expr) bool {
				be, ok := e.(*ast.BinaryExpr)
				if !ok || !mentionsObj(info, be.Y, step) {
					return false
				}
				id, ok := ast.Unparen(be.X).(*ast.Ident)
				if !ok || last == nil || info.Uses[id] != types.Object(last) {
					return false
				}
				for _, op := range spec.ops {
					if be.Op == op {
						return true
					}
				}
				return false
			})
			offs := gt.notOnlyVia(guard, 1, calls(spec.call))
			if len(guard) == 0 {
				offs = []Offence{{gt.Nodes[gt.Entry], nil}}
			}
			c.Offences(gt, offs, r2, "log replay: "+shortKey(spec.call)+" only for a transaction that had passed the commit point", ft.Decl.Pos(), "guarded by lastCommittedFunctionLog >= "+spec.step, "the replay of a dead transaction can delete its 'obsolete' entries although that transaction never reached the commit point (they are the live data)")
		}
	}

	rootBlobBeforeHandleRule(c, r2)

	r3 := c.Rule("R3", "obsolete node blobs are the post-flip inactive ids of updated handles and the active ids of removed handles", 4)
	{
		f := w.Fn("common.Transaction.getToBeObsoleteEntries")
		c.Analysed(f)
		info := f.Pkg.TypesInfo
		upd := w.Field("common", "Transaction", "updatedNodeHandles")
		rem := w.Field("common", "Transaction", "removedNodeHandles")
		okU, okR, nU, nR := true, true, 0, 0
		ast.Inspect(f.Body, func(x ast.Node) bool {
			as, ok := x.(*ast.AssignStmt)
			if !ok || len(as.Lhs) != 1 || len(as.Rhs) != 1 {
				return true
			}
			if _, isIx := ast.Unparen(as.Lhs[0]).(*ast.IndexExpr); !isIx {
				return true
			}
			call, isCall := ast.Unparen(as.Rhs[0]).(*ast.CallExpr)
			if !isCall {
				return true
			}
			k := w.resolveCall(f, call).Key
			if k != "sop.Handle.GetInActiveID" && k != "sop.Handle.GetActiveID" {
				return true
			}
			if mentionsObj(info, call, upd) {
				nU++
				if k != "sop.Handle.GetInActiveID" {
					okU = false
				}
			}
			if mentionsObj(info, call, rem) {
				nR++
				if k != "sop.Handle.GetActiveID" {
					okR = false
				}
			}
			return true
		})
		c.Check(nU == 1 && okU, r3, "getToBeObsoleteEntries: updated nodes give up their (post-flip) INACTIVE id", f.Decl.Pos(), "GetInActiveID of updatedNodeHandles", "the blob declared obsolete for an updated node is not the post-flip inactive id: the freshly committed node blob would be deleted", nil)
		c.Check(nR == 1 && okR, r3, "getToBeObsoleteEntries: removed nodes give up their ACTIVE id", f.Decl.Pos(), "GetActiveID of removedNodeHandles", "the blob declared obsolete for a removed node is not its active id", nil)
		// provenance of the two fields: assigned from activateInactiveNodes / touchNodes results only
		for _, spec := range []struct {
			fld *types.Var
			src string
		}{{upd, kNRBactivate}, {rem, kNRBtouch}} {
			ok := true
			n := 0
			for _, fn := range w.declaredFuncs("common") {
				for _, ws := range w.writesOf(fn, spec.fld, true) {
					n++
					if ws.Rhs == nil {
						ok = false
						continue
					}
					if isNilLit(fn.Pkg.TypesInfo, ws.Rhs) {
						continue
					}
					if !w.mentionsDeep(rootOf(ws.In), localDefs(rootOf(ws.In)), ws.Rhs, nil, spec.src) {
						ok = false
					}
				}
			}
			c.Check(ok && n >= 1, r3, "Transaction."+spec.fld.Name()+" holds the handles returned by "+shortKey(spec.src), token.NoPos, fmt.Sprintf("%d write(s), all from %s", n, shortKey(spec.src)), "the handles whose ids are declared obsolete are not (only) the flipped handles of this commit", nil)
		}
	}

	r4 := c.Rule("R4", "value blobs: the old id is queued for deletion only when the item is re-keyed; the queue is reset in every commit attempt before values are staged", 6)
	{
		f := w.Fn("common.itemActionTracker.manage")
		g := w.G(f)
		c.Analysed(f)
		info := f.Pkg.TypesInfo
		queue := w.Field("common", "itemActionTracker", "forDeletionItems")
		itemID := w.Field("btree", "Item", "ID")
		isAppend := func(n *GNode) bool { return g.assignsObj(n, queue) && calls("builtin.append")(n) }
		rekey := func(n *GNode) bool {
			as, ok := n.Ast.(*ast.AssignStmt)
			return ok && len(as.Lhs) == 1 && len(as.Rhs) == 1 && fieldOfSelector(info, as.Lhs[0]) == itemID && w.mentionsCall(f, as.Rhs[0], "sop.NewUUID")
		}
		apps := g.Find(isAppend)
		rk := g.Find(rekey)
		c.Check(len(apps) == 2 && len(rk) == 1, r4, "manage: deletion-queue appends and the re-key site", f.Decl.Pos(), "two appends (remove, update) and one re-key", fmt.Sprintf("found %d appends, %d re-key sites", len(apps), len(rk)), nil)
		if len(rk) == 1 {
			// the append on the update path is followed by the re-key before the item is stored / marshalled
			upd := w.Object("common", "updateAction")
			rmv := w.Object("common", "removeAction")
			_ = rmv
			for _, a := range apps {
				// which case clause?
				inUpdate := false
				for _, cn := range g.Nodes {
					if cn.SwitchTag != nil && cn.Ast != nil && mentionsObj(info, cn.Ast, upd) {
						if g.Reach(branchStarts([]*GNode{cn}, 1), func(x *GNode) bool { return x.SwitchTag != nil }, nil).Seen[a.ID] {
							inUpdate = true
						}
					}
				}
				if !inUpdate {
					continue
				}
				offs := g.MustFollow([]*GNode{a}, rekey, func(n *GNode) bool { return n.Ret != nil || calls("encoding.Marshal")(n) })
				c.Offences(g, offs, r4, "manage: an updated item whose old value id is queued gets a fresh id before its value is written", a.Ast.Pos(), "re-key follows the append on every path", "the old value blob id is queued for deletion while the item keeps that id: cleanup then deletes the blob the committed item references")
				offs = g.MustPrecede(func(n *GNode) bool { return n == a }, rekey)
				c.Offences(g, offs, r4, "manage: an item is re-keyed only after its old id was queued", rk[0].Ast.Pos(), "append precedes re-key", "an updated item is re-keyed without queueing the old value blob (orphan) ")
			}
			// the blob written is keyed by the item's (possibly fresh) id
			okKey := false
			ast.Inspect(f.Body, func(x ast.Node) bool {
				if kv, ok := x.(*ast.KeyValueExpr); ok {
					if id, ok := kv.Key.(*ast.Ident); ok && id.Name == "Key" && fieldOfSelector(info, kv.Value) == itemID {
						okKey = true
					}
				}
				return true
			})
			c.Check(okKey, r4, "manage: the value blob is keyed by the item's id", f.Decl.Pos(), "Key: item.ID", "value blob not keyed by the item id", nil)
		}
		// reset sites of the queue
		var resets []string
		for _, fn := range w.declaredFuncs("common") {
			for _, ws := range w.writesOf(fn, queue, true) {
				if ws.Rhs != nil && isNilLit(fn.Pkg.TypesInfo, ws.Rhs) {
					resets = append(resets, rootOf(ws.In).Key)
				}
			}
		}
		sort.Strings(resets)
		resets = dedup(resets)
		getter := "common.itemActionTracker.getForRollbackTrackedItemsValues"
		c.Check(sameSet(resets, getter), r4, "the deletion queue is reset only by getForRollbackTrackedItemsValues", token.NoPos, fmt.Sprintf("%v", shortKeys(resets)),
			fmt.Sprintf("reset site(s) %v: today's protocol relies on the getter that builds the commitTrackedItemsValues log payload dropping, in every commit attempt, the ids queued by an abandoned attempt or by the merge replay (they name blobs the retried commit still references); with the reset elsewhere those ids survive into cleanup", shortKeys(resets)), nil)
		// phase1Commit: in every loop iteration the getter runs before values are staged
		p1 := w.Fn(kTxp1)
		g1 := w.G(p1)
		tg := "common.Transaction.getForRollbackTrackedItemsValues"
		offs := g1.MustPrecede(calls(tg), calls(kTxCommitValues))
		c.Offences(g1, offs, r4, "phase1Commit: the queue-resetting getter runs before values are staged", p1.Decl.Pos(), "getForRollbackTrackedItemsValues precedes commitTrackedItemsValues", "values can be staged in an attempt that did not first reset the deletion queue")
		for _, nc := range g1.callNodes(kTxCommitValues) {
			// re-entering the loop from the retry edge passes the getter again
			offs := g1.MustFollow([]*GNode{nc.n}, calls(tg), func(n *GNode) bool { return n == nc.n })
			c.Offences(g1, offs, r4, "phase1Commit: every further attempt resets the queue again", nc.cs.Call.Pos(), "getter on every cycle back to commitTrackedItemsValues", "a retried attempt can stage values on top of the previous attempt's deletion queue")
		}
		ft := w.Fn(tg)
		c.Analysed(ft)
		c.Check(w.Reaches(ft, func(cs *CallSite) bool {
			return cs.Key == "var:common.getForRollbackTrackedItemsValues" || cs.Key == "field:common.getForRollbackTrackedItemsValues"
		}), r4,
			"Transaction.getForRollbackTrackedItemsValues delegates to every backend's getter", ft.Decl.Pos(), "calls the backend function value", "the transaction-level getter no longer reaches the per-store getters", nil)
	}

	r6 := c.Rule("R6", "undo functions that delete or clear whatever the registry / blob store holds under a node id (rollbackUpdatedNodes, rollbackRemovedNodes, rollbackNewRootNodes) run only in a state that implies the step succeeded for THIS transaction (shared with C37.R4): otherwise the loser of a conflict deletes the winner's committed data", 6)
	foreignBlindUndoRule(c, r6)

	r7 := c.Rule("R7", "a surviving priority log means `undo this transaction's flip`, so it is removed before the commit's obsolete (pre-commit) blobs are deleted: in phase2Commit and in cleanup every call that reaches deleteObsoleteEntries is preceded by one that reaches PriorityLog.Remove", 2)
	priorityLogBeforeDeletionRule(c, r7)

	r8 := c.Rule("R8", "the in-commit retry keeps the value blobs it staged: refetch-and-merge marks the replayed items as already persisted (so manage does not write their values again), therefore the rollback inside phase1Commit's retry loop is called with rollbackTrackedItemsValues = false", 2)
	{
		marks := false
		fm := w.Fn("common.refetchAndMergeClosure")
		persisted := w.Field("common", "cacheItem", "persisted")
		for _, fn := range append([]*Func{fm}, w.allLits(fm)...) {
			for _, ws := range w.writesOf(fn, persisted, true) {
				if ws.Rhs != nil && isBoolLit(fn.Pkg.TypesInfo, ws.Rhs, true) {
					marks = true
				}
			}
		}
		f1 := w.Fn(kTxp1)
		g1 := w.G(f1)
		c.Analysed(f1)
		n := 0
		for _, nc := range g1.callNodes(kTxrb) {
			// inside a for loop of phase1Commit = the retry path
			if innermostLoop(g1, nc.n) == nil {
				continue
			}
			n++
			okArg := len(nc.cs.Call.Args) == 2 && isBoolLit(f1.Pkg.TypesInfo, nc.cs.Call.Args[1], false)
			c.Check(!marks || okArg, r8, fmt.Sprintf("phase1Commit: retry rollback #%d keeps the staged value blobs", n), nc.cs.Call.Pos(), "t.rollback(ctx, false)",
				"the retry's rollback deletes the value blobs the failed attempt wrote, while refetch-and-merge marks the replayed items as already persisted: the next attempt commits nodes whose added items point at deleted blobs - readers fail with `unexpected end of JSON input`", nil)
		}
		c.Check(n >= 1 && marks, r8, "phase1Commit: retry rollback and the persisted mark inventoried", f1.Decl.Pos(), fmt.Sprintf("%d retry rollback call(s), replay marks persisted: %v", n, marks), fmt.Sprintf("retry rollback calls %d, replay marks persisted %v (rule has nothing to decide)", n, marks), nil)
	}

	r5 := c.Rule("R5", "decode failures on the read path are returned", 2)
	decodeErrorsRule(c, r5)
}

func runC11(c *Ctx) {
	w := c.W
	r1 := c.Rule("R1", "undo table: every persistent commit step has a guarded undo block, calling the matching undo function, in the live rollback and in the dead-transaction log replay (shared with C07.R1)", 25)
	r2 := c.Rule("R2", "partial step: a step whose action performs two persistent effects must be undone by the live rollback also when only the first effect happened (shared with C07.R2)", 3)
	r3 := c.Rule("R3", "transaction logs are removed on every terminal path (shared with C07.R4); the priority log is removed after a successful commit and by the live rollback once it may exist", 5)
	commitUndoRules(c, r1, r2, "", "", r3)
	{
		f := w.Fn(kTxp2)
		g := w.G(f)
		c.Analysed(f)
		// success return is preceded by PriorityLog().Remove or by cleanup->removeLogs ... the priority log:
		okP := false
		for _, nc := range g.callNodes(kRegUpdNL) {
			if len(nc.cs.Call.Args) >= 2 && isBoolLit(f.Pkg.TypesInfo, nc.cs.Call.Args[1], true) {
				if _, succ, ok := g.ErrBranches(nc.n, nc.cs); ok {
					okP = len(g.MustFollowFrom(succ, w.callsReaching(kPLogRemove), func(n *GNode) bool { return n.Ret != nil && g.ClassifyReturn(n) == RetNil })) == 0
				}
			}
		}
		c.Check(okP, r3, "phase2Commit: the priority log is removed before success is reported", f.Decl.Pos(), "after the commit point, PriorityLog().Remove precedes `return nil`", "a committed transaction can leave its priority log behind (it would be 'rolled back' by recovery later)", nil)
		fr := w.Fn(kTxrb)
		gr := w.G(fr)
		info := fr.Pkg.TypesInfo
		state := w.Field("common", "transactionLog", "committedState")
		bf := w.Object("common", "beforeFinalize")
		guard := gr.condNodes(func(e ast.Expr) bool {
			be, ok := e.(*ast.BinaryExpr)
			return ok && be.Op == token.GEQ && fieldOfSelector(info, be.X) == state && mentionsObj(info, be.Y, bf)
		})
		okR := len(guard) == 1 && len(gr.MustFollowFrom(branchStarts(guard, 1), calls(kPLogRemove), isExit)) == 0
		c.Check(okR, r3, "rollback: the priority log is removed once it may have been written", fr.Decl.Pos(), "committedState >= beforeFinalize implies PriorityLog().Remove", "a rolled-back transaction can leave its priority log behind", nil)
	}

	r4 := c.Rule("R4", "obsolete data is handed to deletion after a commit, and payload builders do not consume the deletion queue", 4)
	{
		f := w.Fn("common.Transaction.cleanup")
		g := w.G(f)
		c.Analysed(f)
		pairs := []struct{ del, src string }{
			{kTxDelObsolete, "common.Transaction.getToBeObsoleteEntries"},
			{kTxDelValues, "common.Transaction.getObsoleteTrackedItemsValues"},
		}
		defs := localDefs(f)
		for _, p := range pairs {
			ncs := g.callNodes(p.del)
			ok := len(ncs) == 1
			if ok {
				ok = false
				for _, a := range ncs[0].cs.Call.Args[1:] {
					if w.mentionsDeep(f, defs, a, nil, p.src) {
						ok = true
					}
				}
			}
			c.Check(ok, r4, "cleanup: "+shortKey(p.del)+" receives "+shortKey(p.src)+"()", f.Decl.Pos(), "argument derives from the builder", "the post-commit cleanup does not delete what the commit made obsolete (orphans)", nil)
		}
		offs := g.MustPrecede(calls(kTxDelObsolete), func(n *GNode) bool { return n.Ret != nil && g.ClassifyReturn(n) == RetNil })
		c.Offences(g, offs, r4, "cleanup: obsolete entries are deleted before success", f.Decl.Pos(), "deleteObsoleteEntries precedes `return nil`", "cleanup can succeed without deleting the obsolete entries")
		// purity of the payload builders w.r.t. the deletion queue: functions that run BEFORE the queue's consumer
		queue := w.Field("common", "itemActionTracker", "forDeletionItems")
		consumer := w.Fn("common.itemActionTracker.getObsoleteTrackedItemsValues")
		c.Analysed(consumer)
		c.Check(len(w.usesOf(consumer, queue, false)) >= 1 && len(w.writesOf(consumer, queue, true)) == 0, r4, "getObsoleteTrackedItemsValues reads the deletion queue without consuming it", consumer.Decl.Pos(), "reads, does not write", "the consumer of the deletion queue no longer reads it (or clears it before phase 2 logs it)", nil)
	}

	r7 := c.Rule("R7", "a removed item's value blob is handed to deletion whatever its fetch state: in itemActionTracker.manage the removeAction case queues the item's id in forDeletionItems unconditionally (for stores whose values live in their own blobs the blob exists as soon as the item was added)", 2)
	{
		f := w.Fn("common.itemActionTracker.manage")
		g := w.G(f)
		c.Analysed(f)
		info := f.Pkg.TypesInfo
		queue := w.Field("common", "itemActionTracker", "forDeletionItems")
		vnf := w.Field("btree", "Item", "ValueNeedsFetch")
		// the append that sits in the removeAction case clause
		var site *GNode
		ast.Inspect(f.Body, func(x ast.Node) bool {
			cc, ok := x.(*ast.CaseClause)
			if !ok {
				return true
			}
			isRemove := false
			for _, e := range cc.List {
				if id, ok := ast.Unparen(e).(*ast.Ident); ok && id.Name == "removeAction" {
					isRemove = true
				}
			}
			if !isRemove {
				return true
			}
			for _, n := range g.Nodes {
				if as, ok := n.Ast.(*ast.AssignStmt); ok && as.Pos() >= cc.Pos() && as.End() <= cc.End() && len(as.Lhs) == 1 && fieldOfSelector(info, as.Lhs[0]) == queue {
					site = n
				}
			}
			return true
		})
		c.Check(site != nil, r7, "manage(removeAction): queues the removed item's value blob", f.Decl.Pos(), "append to forDeletionItems present", "the remove case no longer queues the value blob for deletion", nil)
		if site != nil {
			guards := g.condNodes(func(e ast.Expr) bool { return fieldOfSelector(info, e) == vnf })
			gated := false
			for _, cn := range guards {
				if len(g.ReachableWithout(edgeCut([]*GNode{cn}, 1), func(n *GNode) bool { return n == site })) == 0 {
					gated = true
				}
			}
			c.Check(!gated, r7, "manage(removeAction): the value blob is queued whatever the item's fetch state", site.Ast.Pos(), "unconditional",
				"the removed item's blob is queued for deletion only while ValueNeedsFetch is set: an item whose slot holds its value inline (every item since it was added, or after its value was read) keeps its blob in the blob store for ever once the item is removed", nil)
		}
	}
	r8 := c.Rule("R8", "the queue of replaced / removed value blobs survives until the post-commit cleanup: the getters phase1Commit calls to build log payloads do not clear it (shared with C07.R11)", 3)
	payloadPurityRule(c, r8)
	r9 := c.Rule("R9", "a blob handed to BlobStore.Remove is removed completely: in the file-system blob stores' Remove the loops over tables, blobs and (erasure coding) drives are never cut short - no `break` out of them and no success return from inside them - so a missing first shard does not leave the other drives' shards behind", 4)
	{
		n := 0
		for _, k := range []string{"fs.blobStore.Remove", "fs.BlobStoreWithEC.Remove"} {
			f := w.Fn(k)
			g := w.G(f)
			c.Analysed(f)
			var loops []ast.Stmt
			var breaks []*ast.BranchStmt
			var visit func(x ast.Node, inLoop bool)
			visit = func(x ast.Node, inLoop bool) {
				ast.Inspect(x, func(y ast.Node) bool {
					switch st := y.(type) {
					case *ast.FuncLit:
						return false
					case *ast.RangeStmt:
						if y != x {
							loops = append(loops, st)
							visit(st.Body, true)
							return false
						}
					case *ast.ForStmt:
						if y != x {
							loops = append(loops, st)
							visit(st.Body, true)
							return false
						}
					case *ast.SwitchStmt, *ast.TypeSwitchStmt, *ast.SelectStmt:
						// an unlabeled break inside these leaves the switch, not the loop
						if y != x {
							ast.Inspect(y, func(z ast.Node) bool {
								if _, ok := z.(*ast.FuncLit); ok {
									return false
								}
								if b, ok := z.(*ast.BranchStmt); ok && (b.Tok == token.GOTO || (b.Tok == token.BREAK && b.Label != nil)) && inLoop {
									breaks = append(breaks, b)
								}
								return true
							})
							return false
						}
					case *ast.BranchStmt:
						if inLoop && (st.Tok == token.BREAK || st.Tok == token.GOTO) {
							breaks = append(breaks, st)
						}
					}
					return true
				})
			}
			visit(f.Body, false)
			n += len(loops)
			pos := f.Decl.Pos()
			if len(breaks) > 0 {
				pos = breaks[0].Pos()
			}
			c.Check(len(breaks) == 0, r9, shortKey(k)+": no loop over the blobs / drives is left early", pos, fmt.Sprintf("%d loops, no break", len(loops)),
				"a `break` leaves a loop of Remove before every blob / shard was visited: shard files of a removed blob stay on the remaining drives (e.g. when the shard on the first drive is missing because that drive rejected the write the erasure coding tolerated), referenced by nothing and recorded in no log", nil)
			// success returns from inside a loop
			var early []*GNode
			for _, x := range g.Nodes {
				if x.Ret == nil || g.ClassifyReturn(x) != RetNil {
					continue
				}
				for _, l := range loops {
					if l.Pos() <= x.Ret.Pos() && x.Ret.End() <= l.End() {
						early = append(early, x)
						break
					}
				}
			}
			if len(early) > 0 {
				pos = early[0].Ret.Pos()
			}
			c.Check(len(early) == 0, r9, shortKey(k)+": no success return from inside the loops", pos, "only error returns inside the loops", "Remove can return nil from inside its loops, leaving the remaining blobs / shards on disk", nil)
		}
		c.Check(n >= 5, r9, "loops of the blob stores' Remove inventoried", token.NoPos, fmt.Sprintf("%d loops", n), fmt.Sprintf("only %d loops (2 in blobStore.Remove, 3 in BlobStoreWithEC.Remove known)", n), nil)
	}
	r6 := c.Rule("R6", "every step is announced before it acts: the live rollback decides from the announced step whether the PREVIOUS step's artifacts (staged blobs, reserved ids) must be removed (`committedState > previous`), so a step that is announced only after it succeeded makes its own failure skip the previous step's undo (shared with C08.R1)", 16)
	logBeforeActRule(c, r6, logActSteps)
	r5 := c.Rule("R5", "what an undo function must look up in the registry is recorded there before the data it leads to is written: rollbackUpdatedNodes finds the staged blobs through the inactive ids of the registry handles, so commitUpdatedNodes writes the reservation before (and only if it succeeded, then) the blobs (derived; shared with C03.R1 / C37.R2)", 3)
	undoDiscoveryRule(c, r5)
}

// flowsFrom returns the local objects of f that (transitively, through assignments whose left side is
// rooted at them) receive a value mentioning one of the seed objects.
func flowsFrom(f *Func, seeds map[types.Object]bool) map[types.Object]bool {
	info := f.Pkg.TypesInfo
	set := map[types.Object]bool{}
	for k := range seeds {
		set[k] = true
	}
	rootObj := func(e ast.Expr) types.Object {
		for {
			switch x := ast.Unparen(e).(type) {
			case *ast.SelectorExpr:
				e = x.X
			case *ast.IndexExpr:
				e = x.X
			case *ast.StarExpr:
				e = x.X
			case *ast.SliceExpr:
				e = x.X
			case *ast.Ident:
				if o := info.Defs[x]; o != nil {
					return o
				}
				return info.Uses[x]
			default:
				return nil
			}
		}
	}
	mentionsAny := func(e ast.Node) bool {
		hit := false
		ast.Inspect(e, func(n ast.Node) bool {
			if id, ok := n.(*ast.Ident); ok && set[info.Uses[id]] {
				hit = true
			}
			return !hit
		})
		return hit
	}
	for changed := true; changed; {
		changed = false
		ast.Inspect(f.Body, func(n ast.Node) bool {
			as, ok := n.(*ast.AssignStmt)
			if !ok {
				return true
			}
			any := false
			for _, r := range as.Rhs {
				if mentionsAny(r) {
					any = true
				}
			}
			if !any {
				return true
			}
			for _, l := range as.Lhs {
				if o := rootObj(l); o != nil && !set[o] {
					set[o] = true
					changed = true
				}
			}
			return true
		})
	}
	return set
}

// undoDiscoveryRule (C11.R5 = C07.R8): derive, from the undo function, whether it discovers the blobs to delete
// through the registry; if so the do function must record them in the registry first.
func undoDiscoveryRule(c *Ctx, r string) {
	w := c.W
	pairs := []struct{ do, undo string }{
		{kNRBcommitUpdated, kNRBrbUpdated},
		{kNRBcommitAdded, kNRBrbAdded},
	}
	derived := 0
	for _, p := range pairs {
		fu := w.Fn(p.undo)
		gu := w.G(fu)
		c.Analysed(fu)
		info := fu.Pkg.TypesInfo
		seeds := map[types.Object]bool{}
		for _, nc := range gu.callNodes(kRegGet) {
			if v := gu.lhsVarOfCall(nc.n, nc.cs, 0); v != nil {
				seeds[v] = true
			}
		}
		viaRegistry := false
		if len(seeds) > 0 {
			fl := flowsFrom(fu, seeds)
			for _, nc := range gu.callNodes(kBlobRemove) {
				for _, a := range nc.cs.Call.Args {
					ast.Inspect(a, func(n ast.Node) bool {
						if id, ok := n.(*ast.Ident); ok && fl[info.Uses[id]] {
							viaRegistry = true
						}
						return true
					})
				}
			}
		}
		fd := w.Fn(p.do)
		gd := w.G(fd)
		c.Analysed(fd)
		if !viaRegistry {
			c.Held(r, shortKey(p.do)+": its undo deletes blobs by ids it is handed", fu.Decl.Pos(), shortKey(p.undo)+" does not look the blob ids up in the registry: no write order is implied")
			continue
		}
		derived++
		isRegWrite := calls(kRegUpdNL, kRegUpd, kRegAdd)
		offs := gd.MustPrecede(isRegWrite, calls(kBlobAdd))
		c.Offences(gd, offs, r, shortKey(p.do)+": the registry records the new ids before their blobs are written", fd.Decl.Pos(), "the registry write precedes blobStore.Add on every path",
			shortKey(p.undo)+" finds the blobs to delete through the ids recorded in the registry, but a blob can be written before (or without) that record: if the registry write then fails the blobs are orphans no undo or recovery can find")
		okE := false
		for _, nc := range gd.Find(isRegWrite) {
			for _, cs := range nc.Calls {
				if !isRegWrite(&GNode{Calls: []*CallSite{cs}}) {
					continue
				}
				if _, succ, ok := gd.ErrBranches(nc, cs); ok {
					okE = len(gd.ReachableWithout(func(from *GNode, e Edge) bool {
						for _, sx := range succ {
							if e.To == sx {
								return true
							}
						}
						return false
					}, calls(kBlobAdd))) == 0
				}
			}
		}
		c.Check(okE, r, shortKey(p.do)+": blobs are written only after the registry write succeeded", fd.Decl.Pos(), "blobStore.Add is reachable only through the success edge of the registry write", "blobStore.Add is reachable although the registry write failed or was skipped", nil)
	}
	c.Check(derived >= 1, r, "undo discovery: at least one undo function looks blobs up in the registry", token.NoPos, fmt.Sprintf("%d derived", derived), "no undo function reads the registry to find blobs any more (rule has nothing to decide)", nil)
}

// decodeErrorsRule (C10.R5, shared by C19.R2).
func decodeErrorsRule(c *Ctx, r5 string) {
	w := c.W
	for _, k := range []string{"common.nodeRepositoryBackend.get", "common.itemActionTracker.Get"} {
		f := w.Fn(k)
		g := w.G(f)
		c.Analysed(f)
		n := 0
		for _, nd := range g.Nodes {
			for _, cs := range nd.Calls {
				if !strings.HasSuffix(cs.Key, ".Unmarshal") {
					continue
				}
				n++
				construct := fmt.Sprintf("%s: error of %s #%d is returned", shortKey(k), cs.Key, ordinalOf(w, f, cs))
				fail, _, ok := g.ErrBranches(nd, cs)
				if !ok {
					c.Violated(r5, construct, cs.Call.Pos(), "the result of Unmarshal is discarded: a truncated or corrupt blob yields a zero-valued (empty) node/value that is then cached and served as if it were the stored data", nil)
					continue
				}
				r := g.Reach(fail, isReturn, nil)
				bad := false
				for _, x := range g.Nodes {
					if r.Seen[x.ID] && x.Ret != nil && g.ClassifyReturn(x) != RetNonNil {
						bad = true
					}
				}
				c.Check(!bad, r5, construct, cs.Call.Pos(), "failure edge returns the error", "a decode failure does not end in an error return", nil)
			}
		}
		c.Check(n >= 1, r5, shortKey(k)+": decode sites", f.Decl.Pos(), fmt.Sprintf("%d", n), "no Unmarshal call found", nil)
	}
}

// priorityLogBeforeDeletionRule (C10.R7 = C08.R6).
func priorityLogBeforeDeletionRule(c *Ctx, r7 string) {
	w := c.W

	reachDel := w.callsReaching(kTxDelObsolete)
	reachRm := w.callsReaching(kPLogRemove)
	n := 0
	for _, k := range []string{kTxp2, "common.Transaction.cleanup"} {
		f := w.Fn(k)
		g := w.G(f)
		c.Analysed(f)
		dels := g.Find(func(x *GNode) bool { return reachDel(x) || calls(kTxDelObsolete)(x) })
		if len(dels) == 0 {
			continue
		}
		n++
		// a node that reaches both (t.cleanup) is judged inside the callee
		var strict []*GNode
		for _, d := range dels {
			if !(reachRm(d) || calls(kPLogRemove)(d)) {
				strict = append(strict, d)
			}
		}
		var offs []Offence
		if false && len(strict) > 0 && k == kTxp2 { // covered by the dedicated phase2Commit obligation below (with the no-handles exemption)
			offs = g.MustPrecede(func(x *GNode) bool { return reachRm(x) || calls(kPLogRemove)(x) }, func(x *GNode) bool {
				for _, d := range strict {
					if x == d {
						return true
					}
				}
				return false
			})
		}
		// inside a function that itself removes the priority log and deletes: order matters there too
		if k != kTxp2 {
			if rms := g.Find(calls(kPLogRemove)); len(rms) > 0 {
				offs = append(offs, g.MustPrecede(calls(kPLogRemove), func(x *GNode) bool { return calls(kTxDelObsolete)(x) || reachDel(x) })...)
			} else if len(g.Find(calls(kTxDelObsolete))) > 0 {
				// the callee deletes but does not remove the log: its callers must have removed it (checked for phase2Commit above)
				_ = rms
			}
		}
		c.Offences(g, offs, r7, shortKey(k)+": obsolete entries are deleted only after the priority log was removed", f.Decl.Pos(), "PriorityLog().Remove precedes deleteObsoleteEntries",
			"the pre-commit blobs can be deleted while the priority log still exists: a crash in between makes recovery restore the pre-flip handles (the log says `undo`), whose active ids then name blobs that are already gone - the committed tree no longer loads")
	}
	c.Check(n >= 1, r7, "deletion sites of obsolete entries inventoried", token.NoPos, fmt.Sprintf("%d function(s)", n), "none found", nil)
	// phase2Commit: its cleanup call is preceded by the priority log removal
	f2 := w.Fn(kTxp2)
	g2 := w.G(f2)
	// no priority log exists when neither updated nor removed handles exist: the path on which both length
	// tests are false is exempt (cut at the false edge of the last of those tests)
	info2 := f2.Pkg.TypesInfo
	updF, remF := w.Field("common", "Transaction", "updatedNodeHandles"), w.Field("common", "Transaction", "removedNodeHandles")
	emptyTests := g2.condNodes(func(e ast.Expr) bool {
		hit := false
		ast.Inspect(e, func(x ast.Node) bool {
			if sx, ok := x.(ast.Expr); ok {
				if fv := fieldOfSelector(info2, sx); fv == remF {
					hit = true
				}
			}
			return !hit
		})
		return hit
	})
	_ = updF
	isRm := func(x *GNode) bool {
		return (reachRm(x) || calls(kPLogRemove)(x)) && !calls("common.Transaction.cleanup")(x)
	}
	r := g2.Reach([]int{g2.Entry}, isRm, edgeCut(emptyTests, 2))
	var offs []Offence
	for _, x := range g2.Find(calls("common.Transaction.cleanup")) {
		if r.Seen[x.ID] {
			offs = append(offs, Offence{x, r.Path(x.ID)})
		}
	}
	c.Offences(g2, offs, r7, "phase2Commit: the priority log is removed before cleanup starts deleting", f2.Decl.Pos(), "a PriorityLog().Remove task precedes t.cleanup (unless no handle was updated or removed)", "cleanup can start deleting obsolete blobs while the priority log of this transaction still exists")
}
