package main

// C21: the on-disk registry behaves as a map from id to handle (structural part).

import (
	"fmt"
	"go/ast"
	"go/token"
	"go/types"
)

func init() {
	register("C21", propMeta{
		Explanation:  "Decides the guards a map-like registry file needs: (R1) identity guards: registryMap.set and registryMap.remove compare the LogicalID stored in the located slot with the requested id and fail on a mismatch before anything is written or zeroed; remove also fails on an empty slot; (R2) findAndAdd takes the logical-slot lock before it looks for a slot and keeps it (deferred Unlock) until the block write is done, so two adders of colliding ids cannot choose the same free slot; (R3) lookups scan the whole block: in findOneFileRegion the scan loop ranges over the constant handlesPerBlock, steps by HandleSizeInBytes on every continuing path, compares every occupied slot's LogicalID with the requested id, and has no exit other than a return (found / free slot for a writer) or exhaustion - in particular an empty slot does not end a lookup, because removals leave holes in front of displaced records; when the block is exhausted the search continues in the next segment file; (R4) fetch skips only the 'id not found' condition and returns every other error. (R5) a slot update never disturbs the other slots of its block: every caller of writeBlockRegionPayload rewrites the image it read from the same file and offset under the current hold of the block lock. (R6) findOneFileRegion locates by id in both modes: a location is returned only for the id's own record or after every segment file was searched; (R7) every located region handed to the slot writers is written.",
		DoesNotCover: "Map semantics over operation sequences (last-writer-wins, a removed id never reappears) and hash/offset arithmetic beyond C24's layout obligations are not decided.",
	}, runC21)
}

func runC21(c *Ctx) {
	w := c.W
	logical := w.Field("sop", "Handle", "LogicalID")
	r1 := c.Rule("R1", "set/remove fail when the located slot holds another id (remove also on an empty slot) before writing", 5)
	for _, spec := range []struct{ fn, write string }{
		{"fs.registryMap.set", "fs.hashmap.updateFileRegion"},
		{"fs.registryMap.remove", "fs.hashmap.markDeleteFileRegion"},
	} {
		f := w.Fn(spec.fn)
		g := w.G(f)
		c.Analysed(f)
		info := f.Pkg.TypesInfo
		neq := g.condNodes(func(e ast.Expr) bool {
			be, ok := e.(*ast.BinaryExpr)
			return ok && be.Op == token.NEQ && mentionsObj(info, be.X, logical) && mentionsObj(info, be.X, w.Field("fs", "fileRegionDetails", "handle"))
		})
		ok := len(neq) == 1
		if ok {
			r := g.Reach(branchStarts(neq, 1), isReturn, nil)
			for _, x := range g.Nodes {
				if r.Seen[x.ID] && (x.RangeHead != nil || calls(spec.write)(x) || (x.Ret != nil && g.ClassifyReturn(x) != RetNonNil)) {
					ok = false
				}
			}
			// the write happens only after the comparison loop ran over the located regions
			h := enclosingRangeHead(g, neq[0])
			ok = ok && h != nil && len(g.MustPrecede(func(n *GNode) bool { return n == h }, calls(spec.write))) == 0
		}
		c.Check(ok, r1, shortKey(spec.fn)+": a slot holding another id is an error, checked before the write", f.Decl.Pos(), "LogicalID mismatch returns an error; the write follows the check loop", "the slot found for an id can be overwritten / zeroed although it holds a different id (another id's handle is destroyed)", nil)
	}
	{
		f := w.Fn("fs.registryMap.remove")
		g := w.G(f)
		empty := g.condNodes(func(e ast.Expr) bool { return w.mentionsCall(f, e, "sop.Handle.IsEmpty") })
		ok := len(empty) == 1
		if ok {
			r := g.Reach(branchStarts(empty, 1), isReturn, nil)
			for _, x := range g.Nodes {
				if r.Seen[x.ID] && (x.RangeHead != nil || (x.Ret != nil && g.ClassifyReturn(x) != RetNonNil)) {
					ok = false
				}
			}
		}
		c.Check(ok, r1, "remove: a missing id is an error", f.Decl.Pos(), "empty slot returns an error", "removing an absent id reports success", nil)
		// ids are paired by position with the located regions: findFileRegion preserves order (one region per id, in order)
		ff := w.Fn("fs.hashmap.findFileRegion")
		gf := w.G(ff)
		c.Analysed(ff)
		okOrder := false
		for _, n := range gf.Nodes {
			if n.RangeHead != nil && mentionsObj(ff.Pkg.TypesInfo, n.RangeHead.X, ff.Obj.Type().(*types.Signature).Params().At(2)) {
				okOrder = true
			}
		}
		nApp := 0
		for _, n := range gf.Nodes {
			if calls("builtin.append")(n) {
				nApp++
				if enclosingRangeHead(gf, n) == nil {
					okOrder = false
				}
			}
		}
		// every iteration appends exactly one region or returns an error
		c.Check(okOrder && nApp == 1, r1, "findFileRegion returns one region per requested id, in request order", ff.Decl.Pos(), "single append inside the loop over the ids", "the regions returned are not in lock-step with the requested ids (set/remove pair them by position)", nil)
		for _, n := range gf.Nodes {
			if n.RangeHead != nil {
				offs := gf.MustFollowFrom(bodyStarts(n), or(calls("builtin.append"), isReturn), func(x *GNode) bool { return x == n })
				c.Offences(gf, offs, r1, "findFileRegion: no id is skipped silently", ff.Decl.Pos(), "each iteration appends or returns", "an id can be skipped, shifting the positions of the regions after it")
			}
		}
	}

	r2 := c.Rule("R2", "findAndAdd holds the logical-slot lock from before the slot search until after the block write", 3)
	{
		f := w.Fn("fs.hashmap.findAndAdd")
		g := w.G(f)
		c.Analysed(f)
		lock := calls(kL2DualLock)
		offs := g.MustPrecede(lock, calls("fs.hashmap.findOneFileRegion"))
		c.Offences(g, offs, r2, "findAndAdd: the slot search runs under the logical-slot lock", f.Decl.Pos(), "DualLock precedes findOneFileRegion", "two adders of colliding ids can both find the same free slot")
		var du *GNode
		for _, n := range g.Nodes {
			for _, cs := range n.Calls {
				if cs.Key == kL2Unlock && cs.Deferred && du == nil {
					du = n
				}
			}
		}
		ok := du != nil && len(g.MustPrecede(func(n *GNode) bool { return n == du }, calls("fs.hashmap.findOneFileRegion"))) == 0
		c.Check(ok, r2, "findAndAdd: the lock is released by a deferred Unlock registered before the search", f.Decl.Pos(), "defer Unlock", "the logical-slot lock can be released before the block is written (or leaked)", nil)
		wr := w.callsReaching("fs.hashmap.writeBlockRegionPayload", "fs.hashmap.updateFileBlockRegion")
		offs = g.MustPrecede(calls("fs.hashmap.findOneFileRegion"), wr)
		c.Offences(g, offs, r2, "findAndAdd: the block is written only at a slot the search returned", f.Decl.Pos(), "search precedes write", "a handle can be written without a slot search")
	}

	r3 := c.Rule("R3", "findOneFileRegion scans every slot of the block and moves on to the next segment only when the block is exhausted", 5)
	{
		f := w.Fn("fs.hashmap.findOneFileRegion")
		g := w.G(f)
		c.Analysed(f)
		info := f.Pkg.TypesInfo
		hpb := w.Object("fs", "handlesPerBlock")
		var scan *GNode
		for _, n := range g.Nodes {
			if n.RangeHead != nil {
				if id, ok := ast.Unparen(n.RangeHead.X).(*ast.Ident); ok && info.Uses[id] == hpb {
					scan = n
				}
			}
		}
		c.Check(scan != nil, r3, "scan loop ranges over the constant handlesPerBlock", f.Decl.Pos(), "for range handlesPerBlock", "the block scan is not bounded by handlesPerBlock", nil)
		if scan != nil {
			body := scan.RangeHead.Body
			in := func(n *GNode) bool { return n.Ast != nil && body.Pos() <= n.Ast.Pos() && n.Ast.End() <= body.End() }
			// exits: edges from body nodes to nodes outside the body other than the loop head and returns
			var offs []Offence
			for _, n := range g.Nodes {
				if !in(n) || n.Ret != nil {
					continue
				}
				for _, e := range n.Succs {
					t := g.Nodes[e.To]
					if t == scan || in(t) || t.Exit {
						continue
					}
					// pseudo nodes (empty blocks) inside the loop: follow to the next real node
					cur := t
					for cur.Ast == nil && !cur.Exit && cur != scan && len(cur.Succs) == 1 {
						cur = g.Nodes[cur.Succs[0].To]
					}
					if cur == scan || in(cur) {
						continue
					}
					offs = append(offs, Offence{n, []string{fmt.Sprintf("L%d leaves the scan loop to L%d", g.line(n), g.line(cur))}})
				}
			}
			c.Offences(g, offs, r3, "the block scan ends only by return or exhaustion", scan.RangeHead.Pos(), "no break / goto out of the scan loop", "a lookup can stop scanning the block early (e.g. at the first empty slot): removals leave holes in front of displaced records, so an id that is present is reported missing")
			// step on every continuing path
			step := func(n *GNode) bool {
				as, ok := n.Ast.(*ast.AssignStmt)
				if !ok || as.Tok != token.ADD_ASSIGN || len(as.Rhs) != 1 {
					return false
				}
				return mentionsObj(info, as.Rhs[0], w.Object("sop", "HandleSizeInBytes"))
			}
			offs = g.MustFollowFrom(bodyStarts(scan), step, func(n *GNode) bool { return n == scan })
			c.Offences(g, offs, r3, "every continuing iteration advances by one slot", scan.RangeHead.Pos(), "bao += HandleSizeInBytes before the next iteration", "an iteration can repeat the same slot (the last slots of the block are never visited)")
			// occupied slots are compared with the requested id
			idPar := f.Obj.Type().(*types.Signature).Params().At(3)
			cmp := g.condNodes(func(e ast.Expr) bool {
				be, ok := e.(*ast.BinaryExpr)
				return ok && be.Op == token.EQL && mentionsObj(info, be.Y, idPar)
			})
			nIn := 0
			for _, cn := range cmp {
				if in(cn) {
					nIn++
				}
			}
			c.Check(nIn == 1 && len(cmp) == 2, r3, "the ideal slot and every scanned slot are compared with the requested id", f.Decl.Pos(), "lid == id for the ideal slot and in the scan", fmt.Sprintf("found %d id comparisons (%d in the scan)", len(cmp), nIn), nil)
			// after exhaustion the outer loop continues (next segment): the scan loop's exit edge leads back to the outer loop head, not to a return
			r := g.Reach(branchStarts([]*GNode{scan}, 2), func(n *GNode) bool { return n.Ast != nil }, nil)
			toReturn := false
			for _, x := range g.Nodes {
				if r.Seen[x.ID] && (x.Ret != nil || x.Exit) {
					toReturn = true
				}
			}
			c.Check(!toReturn, r3, "an exhausted block continues with the next segment file", scan.RangeHead.Pos(), "falls through to the next outer iteration", "after scanning one block without a match the search gives up instead of trying the next segment", nil)
		}
	}

	r5 := c.Rule("R5", "a slot update never disturbs the other slots of its block: every caller of writeBlockRegionPayload rewrites the image it read from the same file and offset under the current hold of the block lock (shared with C22.R6)", 2)
	rmwRule(c, r5)
	r6 := c.Rule("R6", "findOneFileRegion locates by id in both modes: every success return lies behind a `logical id == id` match, or in the branch taken when there is no further segment file - a free slot (or a short file) met on the way is not an answer while the id may still live further on", 3)
	{
		f := w.Fn(kHMfindOne)
		g := w.G(f)
		c.Analysed(f)
		info := f.Pkg.TypesInfo
		defs := localDefs(f)
		idP := f.Obj.Type().(*types.Signature).Params().At(3)
		type edge struct {
			n  *GNode
			br int
		}
		var accept []edge
		nMatch, nEnd := 0, 0
		for _, cn := range g.Nodes {
			if !cn.IsCond || cn.Ast == nil {
				continue
			}
			e, _ := cn.Ast.(ast.Expr)
			if e == nil {
				continue
			}
			if be, ok := e.(*ast.BinaryExpr); ok && be.Op == token.EQL && (mentionsObj(info, be.X, idP) || mentionsObj(info, be.Y, idP)) &&
				(w.mentionsDeep(f, defs, be.X, nil, "encoding.HandleEncoder.UnmarshalLogicalID") || w.mentionsDeep(f, defs, be.Y, nil, "encoding.HandleEncoder.UnmarshalLogicalID")) {
				accept = append(accept, edge{cn, 1})
				nMatch++
				continue
			}
			if id, ok := e.(*ast.Ident); ok && w.mentionsDeep(f, defs, id, nil, "fs.fileDirectIO.fileExists") {
				accept = append(accept, edge{cn, 2}) // `!fileExists`
				nEnd++
				continue
			}
			if be, ok := e.(*ast.BinaryExpr); ok && be.Op == token.LSS && w.mentionsCall(f, be.Y, "fs.hashmap.getSegmentFileSize") {
				accept = append(accept, edge{cn, 1})
				nEnd++
			}
		}
		c.Check(nMatch >= 2, r6, "findOneFileRegion: id match tests present", f.Decl.Pos(), fmt.Sprintf("%d", nMatch), fmt.Sprintf("found %d `lid == id` tests (ideal slot and block scan expected)", nMatch), nil)
		c.Check(nEnd >= 1, r6, "findOneFileRegion: end-of-segments branch present", f.Decl.Pos(), fmt.Sprintf("%d", nEnd), "no test for a missing / short segment file", nil)
		cut := func(from *GNode, e Edge) bool {
			for _, a := range accept {
				if from == a.n && e.Cond == a.br {
					return true
				}
			}
			return false
		}
		offs := g.ReachableWithout(cut, func(n *GNode) bool { return n.Ret != nil && g.ClassifyReturn(n) != RetNonNil })
		c.Offences(g, offs, r6, "findOneFileRegion: a location is returned only for the id's own record or after all segment files were searched", f.Decl.Pos(), "success returns lie behind `lid == id` or the no-further-segment branch",
			"in write mode the search answers with the first free slot (an empty ideal slot, an empty slot in the block, a short file) although the id may be stored further on - in a later slot or a later segment file, where it was put when those places were taken: Update then stores a second copy, Remove deletes only one of them or fails with `can't delete a missing item`, and Get serves the stale copy")
	}
	r7 := c.Rule("R7", "every region handed to the slot writers is written: in markDeleteFileRegion and updateFileRegion each iteration of the loop over the located regions reaches the block update (zero sector / marshalled handle); no region is skipped on the strength of its content", 2)
	for _, k := range []string{"fs.hashmap.markDeleteFileRegion", "fs.hashmap.updateFileRegion"} {
		f := w.Fn(k)
		g := w.G(f)
		c.Analysed(f)
		wr := g.Find(calls(kHMupdateBlock))
		if len(wr) != 1 {
			c.Violated(r7, shortKey(k)+": one block update per region", f.Decl.Pos(), fmt.Sprintf("found %d updateFileBlockRegion calls", len(wr)), nil)
			continue
		}
		head := enclosingRangeHead(g, wr[0])
		if head == nil {
			c.Violated(r7, shortKey(k)+": one block update per region", f.Decl.Pos(), "the block update is not inside a range loop over the regions", nil)
			continue
		}
		var body []int
		for _, e := range head.Succs {
			if e.Cond == 1 {
				body = append(body, e.To)
			}
		}
		offs := g.MustFollowFrom(body, func(n *GNode) bool { return n == wr[0] }, func(n *GNode) bool {
			return n == head || (n.Ret != nil && g.ClassifyReturn(n) != RetNonNil)
		})
		c.Offences(g, offs, r7, shortKey(k)+": each located region is written", f.Decl.Pos(), "every iteration reaches updateFileBlockRegion",
			"an iteration can skip the block update (and the function still reports success): the slot of an id that was found keeps its record - a removed id stays on disk and comes back on the next cold lookup, its slot is never freed")
	}
	r4 := c.Rule("R4", "fetch skips only 'id not found' and returns every other error", 1)
	{
		f := w.Fn("fs.hashmap.fetch")
		g := w.G(f)
		c.Analysed(f)
		calls1 := g.callNodes("fs.hashmap.findOneFileRegion")
		ok := len(calls1) == 1
		if ok {
			fail, _, tested := g.ErrBranches(calls1[0].n, calls1[0].cs)
			ok = tested
			if tested {
				skip := g.condNodes(func(e ast.Expr) bool { return mentionsObj(f.Pkg.TypesInfo, e, w.Object("fs", "idNotFoundErr")) })
				ok = len(skip) == 1
				if ok {
					// from the failure edge, reaching the loop head again requires the true edge of the skip test
					r := g.Reach(fail, isReturn, edgeCut(skip, 1))
					for _, x := range g.Nodes {
						if r.Seen[x.ID] && (x.RangeHead != nil || (x.Ret != nil && g.ClassifyReturn(x) != RetNonNil)) {
							ok = false
						}
					}
				}
			}
		}
		c.Check(ok, r4, "fetch: a lookup error other than 'not found' is returned", f.Decl.Pos(), "only the not-found condition is skipped", "an I/O or checksum error during a lookup is swallowed and the id is reported absent", nil)
	}
}
