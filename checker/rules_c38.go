package main

// C38: values returned by reads are private to the caller (one clause: what the process-wide node cache shares).

import (
	"fmt"
	"go/ast"
	"go/token"
	"go/types"
	"sort"
	"strings"
)

func init() {
	register("C38", propMeta{
		Explanation:  "Decides one clause - which storage the process-wide L1 node cache can share with what the read API hands out: (R1) Node.CopyTo is the materialisation point between the cache's clone and a transaction's node; Item.Value is a pointer, so a plain slice copy of the slots leaves every copy pointing at the same value object: CopyTo (or the read API) must detach Item.Value - allocate a fresh value per slot - otherwise an in-place mutation of a value obtained from GetCurrentValue / GetCurrentItem is seen by every later transaction served from the cache; (R2) the cache hands out materialised copies only: every node value returned by an L1Cache method is nil, the caller's own target object, or the result of materializeCacheValue (CopyTo / decode into the target) - never the cached instance itself, into which a read would write fetched values; (R3) what is stored in the cache is a clone (cloneCacheNodeValue) of the caller's node, never the caller's instance. (R4) the fetched-value marker is written through a pointer into the node's slot, never into a local copy of the item. (R5) Btree.setCurrentItemID calls unfetchCurrentValue before it writes currentItem or currentItemRef, because unfetchCurrentValue works on the item the cursor still points to; no other Btree method moves currentItemRef field by field.",
		DoesNotCover: "Aliasing inside decoded values themselves (encoding layers that pass byte slices through), values of stores whose items are fetched from a separate segment on every read, and mutation of keys are not decided; no points-to analysis is available, so this is a copy-shape argument.",
	}, runC38)
}

func runC38(c *Ctx) {
	w := c.W
	r1 := c.Rule("R1", "Node.CopyTo detaches Item.Value between the cached clone and a transaction's node", 1)
	{
		f := w.Fn("btree.Node.CopyTo")
		c.Analysed(f)
		info := f.Pkg.TypesInfo
		valF := w.Field("btree", "Item", "Value")
		_, isPtr := valF.Type().Underlying().(*types.Pointer)
		// does CopyTo assign a fresh value to any slot's Value?
		detaches := false
		ast.Inspect(f.Body, func(x ast.Node) bool {
			if as, ok := x.(*ast.AssignStmt); ok {
				for i, l := range as.Lhs {
					if fieldOfSelector(info, l) == valF && i < len(as.Rhs) {
						switch r := ast.Unparen(as.Rhs[i]).(type) {
						case *ast.UnaryExpr:
							if r.Op == token.AND {
								detaches = true
							}
						case *ast.CallExpr:
							detaches = true
						}
					}
				}
			}
			return true
		})
		shallow := false
		for _, cs := range w.Sites(f) {
			if cs.Key == "builtin.copy" && len(cs.Call.Args) == 2 && fieldOfSelector(info, cs.Call.Args[1]) == w.Field("btree", "Node", "Slots") {
				shallow = true
			}
		}
		c.Check(!isPtr || detaches || !shallow, r1, "CopyTo: the copy does not share Item.Value objects with its source", f.Decl.Pos(), "values are re-allocated per slot",
			"Item.Value is a *TV and CopyTo copies the slots with copy(): the L1 cache's clone and every transaction's node share one value object per item; GetCurrentValue / GetCurrentItem hand out that object, so an in-place mutation by one transaction (even one that rolls back) is what later transactions read until the node leaves the cache", nil)
	}

	r2 := c.Rule("R2", "the L1 cache returns materialised copies only", 2)
	r3 := c.Rule("R3", "the L1 cache stores a clone of the caller's node", 1)
	l1IsolationRules(c, r2, r3)

	r4 := c.Rule("R4", "a value fetched for a reader is dropped from the transaction's node again when the cursor moves: unfetchCurrentValue relies on Item.valueWasFetched of the node's slot, so every place that marks a value as fetched writes the marker through a pointer into the node - never into a local copy of the item", 3)
	{
		marker := w.Field("btree", "Item", "valueWasFetched")
		nSites := 0
		for _, fn := range w.declaredFuncs("btree") {
			info := fn.Pkg.TypesInfo
			for _, ws := range w.writesOf(fn, marker, true) {
				if ws.Rhs == nil || !isBoolLit(info, ws.Rhs, true) {
					continue
				}
				as, _ := ws.Stmt.(*ast.AssignStmt)
				if as == nil {
					continue
				}
				nSites++
				for _, l := range as.Lhs {
					if fieldOfSelector(info, l) != marker {
						continue
					}
					c.Check(!rootedAtLocalValue(info, l), r4, fmt.Sprintf("%s: fetch marker #%d is set on the node's slot", shortKey(fn.Key), ordinalOfWrite(w, fn, marker, ws)), ws.Pos, "written through a pointer",
						"the marker is set on a local copy of the item: the slot in the transaction's node keeps the fetched value object without the marker, unfetchCurrentValue never drops it, and if the same transaction updates a sibling item of that node and commits, the node is persisted and cached with the reader's (possibly modified in place) value inline - later transactions read a value nobody wrote", nil)
				}
			}
		}
		c.Check(nSites >= 3, r4, "valueWasFetched = true sites inventoried", token.NoPos, fmt.Sprintf("%d sites", nSites), fmt.Sprintf("only %d sites", nSites), nil)
	}

	r5 := c.Rule("R5", "the cursor drops the fetched value of the item it leaves: Btree.setCurrentItemID calls unfetchCurrentValue before it touches the cursor (currentItem, currentItemRef), because unfetchCurrentValue works on the item the cursor still points to; nobody else in package btree moves currentItemRef field by field", 3)
	{
		f := w.Fn("btree.Btree.setCurrentItemID")
		g := w.G(f)
		c.Analysed(f)
		cur := w.Field("btree", "Btree", "currentItem")
		ref := w.Field("btree", "Btree", "currentItemRef")
		info := f.Pkg.TypesInfo
		unf := calls("btree.Btree.unfetchCurrentValue")
		touchesCursor := func(n *GNode) bool {
			as, ok := n.Ast.(*ast.AssignStmt)
			if !ok {
				return false
			}
			for _, l := range as.Lhs {
				hit := false
				ast.Inspect(l, func(x ast.Node) bool {
					if sel, ok := x.(*ast.SelectorExpr); ok {
						if fo := fieldOfSelector(info, sel); fo == cur || fo == ref {
							hit = true
						}
					}
					return true
				})
				if hit {
					return true
				}
			}
			return false
		}
		nw := len(g.Find(touchesCursor))
		c.Check(nw >= 2 && len(g.Find(unf)) >= 1, r5, "setCurrentItemID: cursor writes and the unfetch call inventoried", f.Decl.Pos(), fmt.Sprintf("%d cursor writes", nw), fmt.Sprintf("%d cursor writes, %d unfetch calls", nw, len(g.Find(unf))), nil)
		offs := g.MustPrecede(unf, touchesCursor)
		c.Offences(g, offs, r5, "setCurrentItemID: unfetchCurrentValue precedes every write of the cursor", f.Decl.Pos(), "unfetch first",
			"the cursor is changed before unfetchCurrentValue ran: unfetchCurrentValue works on btree.currentItem, so it no longer sees the item being left and the value fetched for the reader stays inline in the transaction's node slot - when that transaction later persists the node (a sibling item is updated) the reader's possibly modified value object is written and cached, and later transactions read a value nobody wrote")
		// field-wise cursor moves elsewhere in the package
		var others []string
		var pos token.Pos
		for _, fn := range w.declaredFuncs("btree") {
			if fn == f || !strings.HasPrefix(fn.Key, "btree.Btree.") {
				continue
			}
			fi := fn.Pkg.TypesInfo
			ast.Inspect(fn.Body, func(x ast.Node) bool {
				as, ok := x.(*ast.AssignStmt)
				if !ok {
					return true
				}
				for _, l := range as.Lhs {
					if sel, ok := ast.Unparen(l).(*ast.SelectorExpr); ok && fieldOfSelector(fi, sel.X) == ref {
						others = append(others, shortKey(fn.Key))
						pos = as.Pos()
					}
				}
				return true
			})
		}
		c.Check(len(others) == 0, r5, "only setCurrentItemID moves Btree.currentItemRef", pos, "no other writer", fmt.Sprintf("%v also move the cursor position without unfetching the item left", dedup(others)), nil)
	}
}

// l1IsolationRules (C38.R2/R3, shared by C02.R6 and C03.R7): the host-wide L1 cache never shares a node object
// with a transaction, in either direction.
func l1IsolationRules(c *Ctx, r2, r3 string) {
	w := c.W
	{
		nodeData := w.Field("cache", "l1CacheEntry", "nodeData")
		n := 0
		for _, f := range w.declaredFuncs("cache") {
			if f.Obj == nil || !strings.HasPrefix(f.Key, "cache.L1Cache.") {
				continue
			}
			g := w.G(f)
			info := f.Pkg.TypesInfo
			defs := localDefs(f)
			touches := false
			ast.Inspect(f.Body, func(x ast.Node) bool {
				if sel, ok := x.(*ast.SelectorExpr); ok && fieldOfSelector(info, sel) == nodeData {
					touches = true
				}
				return true
			})
			sig := f.Obj.Type().(*types.Signature)
			if !touches || sig.Results().Len() == 0 {
				continue
			}
			// does any result have an interface / pointer type that could carry the node?
			carries := false
			for i := 0; i < sig.Results().Len(); i++ {
				switch sig.Results().At(i).Type().Underlying().(type) {
				case *types.Interface, *types.Pointer:
					if !isErrorType(sig.Results().At(i).Type()) {
						carries = true
					}
				}
			}
			if !carries {
				continue
			}
			n++
			c.Analysed(f)
			var bad []string
			for _, x := range g.Nodes {
				if x.Ret == nil || len(x.Ret.Results) == 0 {
					continue
				}
				r0 := ast.Unparen(x.Ret.Results[0])
				if isNilLit(info, r0) {
					continue
				}
				// the caller's own target parameter
				if id, ok := r0.(*ast.Ident); ok {
					if v, ok := info.Uses[id].(*types.Var); ok && isParamOf(f, v) {
						continue
					}
					// a local whose every definition is a materializeCacheValue(...) call
					ds := defs[info.Uses[id]]
					okAll := len(ds) > 0
					for _, d := range ds {
						call, isCall := ast.Unparen(d).(*ast.CallExpr)
						if !isCall || w.resolveCall(f, call).Key != "cache.materializeCacheValue" {
							okAll = false
						}
					}
					if okAll {
						continue
					}
				}
				if call, ok := r0.(*ast.CallExpr); ok && w.resolveCall(f, call).Key == "cache.materializeCacheValue" {
					continue
				}
				// anything else that derives from nodeData is the cached instance
				if w.mentionsDeep(f, defs, r0, nodeData) {
					bad = append(bad, w.PosStr(x.Ret.Pos())+" returns `"+types.ExprString(r0)+"`")
				}
			}
			c.Check(len(bad) == 0, r2, shortKey(f.Key)+": returns nil, the caller's target or a materialised copy", f.Decl.Pos(), "no return of the cached instance",
				fmt.Sprintf("the cached node instance itself is handed out (%v): a read writes fetched values into the node it was given, so they end up in the process-wide cache and later transactions are served another reader's (possibly mutated) value objects", bad), nil)
		}
		c.Check(n >= 2, r2, "L1 cache getters inventoried", token.NoPos, fmt.Sprintf("%d", n), fmt.Sprintf("only %d found", n), nil)
	}

	{
		nodeData := w.Field("cache", "l1CacheEntry", "nodeData")
		var bad []string
		n := 0
		for _, f := range w.declaredFuncs("cache") {
			info := f.Pkg.TypesInfo
			defs := localDefs(f)
			check := func(rhs ast.Expr, pos token.Pos) {
				if isNilLit(info, rhs) {
					return
				}
				n++
				if !w.mentionsDeep(f, defs, rhs, nil, "cache.cloneCacheNodeValue") {
					bad = append(bad, shortKey(f.Key)+" @"+w.PosStr(pos))
				}
			}
			ast.Inspect(f.Body, func(x ast.Node) bool {
				switch s := x.(type) {
				case *ast.AssignStmt:
					for i, l := range s.Lhs {
						if fieldOfSelector(info, l) == nodeData && i < len(s.Rhs) {
							check(s.Rhs[i], s.Pos())
						}
					}
				case *ast.KeyValueExpr:
					if id, ok := s.Key.(*ast.Ident); ok && originOf(info.Uses[id]) == types.Object(nodeData) {
						check(s.Value, s.Pos())
					}
				}
				return true
			})
		}
		sort.Strings(bad)
		c.Check(len(bad) == 0 && n >= 2, r3, "every value stored in an L1 entry is a clone", token.NoPos, fmt.Sprintf("%d store site(s), all through cloneCacheNodeValue", n), fmt.Sprintf("the caller's own node instance is stored in the cache at %v: the transaction keeps mutating it while other transactions are served from it", bad), nil)
	}

}
