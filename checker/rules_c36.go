package main

// C36: concurrent use of the library is free of data races (static lockset, narrow).

import (
	"fmt"
	"go/ast"
	"go/token"
	"go/types"
	"path/filepath"
	"sort"
	"strings"
)

func init() {
	register("C36", propMeta{
		Explanation:  "A static lockset approximation, not a race detector: (R1) every package-level variable of packages sop, common, cache and fs that is written after initialisation by library code has one mutex that is held at all of its accesses (exclusively at writes, at least shared at reads) - locks held are computed per CFG node as a must-set, plus the locks every caller holds at every call site of an unexported function (three levels); variables that are only assigned by exported configuration setters / initialisation and variables of sync / atomic types are listed as such; variables touched only by the maintenance routines behind Transaction.onIdle are reported separately as latent, because that path is unreachable from any exported API today (C09.R1, known finding F5) and no execution of the real library can exhibit those races; (R2) goroutines spawned in the same scope (the task-runner closures of phase2Commit and the erasure-coding blob store) must not write a shared struct field that a sibling reads without a common lock: the fields reachable from each closure through static callees are collected, and a field written by one sibling's callees and read or written by another's without a common must-held lock is a violation (element-wise writes to a shared slice indexed by the per-goroutine loop variable are the accepted idiom); (R3) wrapper exhaustiveness: the synchronised cache wrapper overrides every method of the cache interface under its mutex. (R4) mutex-sibling maps: in a struct carrying its own mutex every access to a sibling map field outside constructors holds that mutex. (R5) the fields of cache.l1CacheEntry (the node data and MRU links shared by all transactions of the process) are read and written only while L1Cache.locker is held - in L1Cache methods at nodes where the lock is held, in MRU helpers only when every caller holds it.",
		DoesNotCover: "No may-happen-in-parallel analysis beyond R2's sibling closures; struct fields shared between user goroutines (one transaction used from several goroutines is outside the library's contract); the Redis / Cassandra adapters.",
	}, runC36)
}

func isTestHelperFile(w *World, f *Func) bool {
	file, _ := w.Pos(f.Body.Pos())
	base := filepath.Base(file)
	return strings.HasPrefix(base, "test_") || strings.Contains(base, "_testhelper") || strings.Contains(base, "mock")
}

func runC36(c *Ctx) {
	w := c.W
	li := newLockInfo(w)
	r1 := c.Rule("R1", "package-level variables written after initialisation are accessed under one common lock", 6)
	// maintenance-only functions: reachable from onIdle's maintenance calls
	maint := map[*Func]bool{}
	{
		var rec func(f *Func)
		rec = func(f *Func) {
			if f == nil || maint[f] {
				return
			}
			maint[f] = true
			for _, cs := range w.AllSites(f) {
				rec(w.CalleeFunc(cs))
			}
			for _, l := range w.allLits(f) {
				rec(l)
			}
		}
		for _, k := range []string{"common.Transaction.processNewerPriorityLogsLocksResurrection", "common.Transaction.processPriorityRollbackOnRestart", "common.Transaction.processScheduledPriorityRollback", "common.Transaction.processExpiredLogs"} {
			rec(w.Fn(k))
		}
	}
	var all []*Func
	for _, f := range w.allDeclared() {
		if !isTestHelperFile(w, f) {
			all = append(all, f)
		}
	}
	nVars := 0
	pkScope := []string{"sop", "common", "cache", "fs"}
	if c.Tier == "thorough" {
		// the wider sweep: every analysed package
		pkScope = nil
		for k, p := range w.ByPath {
			if p.Types.Name() == "main" {
				continue // an application (tools/httpserver), not the library the property speaks about
			}
			pkScope = append(pkScope, k)
		}
		sort.Strings(pkScope)
	}
	for _, pk := range pkScope {
		scope := w.Pkg(pk).Types.Scope()
		names := scope.Names()
		sort.Strings(names)
		for _, name := range names {
			v, ok := scope.Lookup(name).(*types.Var)
			if !ok || name == "_" {
				continue
			}
			ts := v.Type().String()
			if strings.HasPrefix(ts, "sync.") || strings.Contains(ts, "atomic.") || strings.HasPrefix(ts, "*sync.") {
				continue
			}
			acc := li.accessesOf(v, all)
			var writes, reads []varAccess
			for _, a := range acc {
				root := rootOf(a.f)
				if root.Decl != nil && root.Decl.Name.Name == "init" {
					continue
				}
				if a.write {
					writes = append(writes, a)
				} else {
					reads = append(reads, a)
				}
			}
			if len(writes) == 0 {
				continue // immutable after initialisation as far as library code is concerned
			}
			nVars++
			construct := fmt.Sprintf("%s.%s: all accesses share a lock", pk, name)
			// configuration setter idiom: every writer is an exported function whose name starts with Set/Register/Configure/Use,
			// or the variable is exported API (documented knob) and written only there
			setterOnly := true
			var writerNames []string
			for _, a := range writes {
				r := rootOf(a.f)
				writerNames = append(writerNames, shortKey(r.Key))
				nm := ""
				if r.Decl != nil {
					nm = r.Decl.Name.Name
				}
				if !(r.Obj != nil && r.Obj.Exported() && (strings.HasPrefix(nm, "Set") || strings.HasPrefix(nm, "Register") || strings.HasPrefix(nm, "Configure") || strings.HasPrefix(nm, "Use") || strings.HasPrefix(nm, "Init") || strings.HasPrefix(nm, "Reset") || strings.HasPrefix(nm, "Close") || strings.HasPrefix(nm, "Open"))) {
					setterOnly = false
				}
			}
			sort.Strings(writerNames)
			writerNames = dedup(writerNames)
			// common lock?
			var common lockset
			first := true
			for _, a := range writes {
				h := lockset{}
				for k, kind := range a.held {
					if kind == 2 {
						h[k] = 2
					}
				}
				if first {
					common, first = h, false
				} else {
					common = meet(common, h)
				}
			}
			for _, a := range reads {
				if first {
					common, first = a.held.clone(), false
				} else {
					common = meet(common, a.held)
				}
			}
			if len(common) > 0 {
				var ls []string
				for k := range common {
					ls = append(ls, k.Name())
				}
				sort.Strings(ls)
				c.Held(r1, construct, v.Pos(), fmt.Sprintf("%d write(s), %d read(s), all under %v", len(writes), len(reads), ls))
				continue
			}
			// maintenance-only?
			onlyMaint := true
			for _, a := range acc {
				if !maint[rootOf(a.f)] && !maint[a.f] {
					onlyMaint = false
				}
			}
			if onlyMaint {
				c.Note(fmt.Sprintf("latent (not decided): %s.%s is accessed without a common lock, but only by the maintenance routines behind Transaction.onIdle, which no exported API reaches today (C09.R1 / F5); writers %v", pk, name, writerNames))
				c.Held(r1, construct+" (maintenance path only: unreachable today, reported as latent)", v.Pos(), "not reachable from any exported entry point (see C09.R1)")
				continue
			}
			if setterOnly {
				c.Held(r1, construct+" (configuration knob)", v.Pos(), fmt.Sprintf("written only by exported configuration entry points %v, which the embedding application calls during set-up", writerNames))
				continue
			}
			// first unlocked access as witness
			var wit []string
			for _, a := range acc {
				kind := "read"
				if a.write {
					kind = "write"
				}
				var hs []string
				for k, kk := range a.held {
					hs = append(hs, fmt.Sprintf("%s:%d", k.Name(), kk))
				}
				sort.Strings(hs)
				wit = append(wit, fmt.Sprintf("%s %s@%s held=%v", kind, shortKey(rootOf(a.f).Key), w.PosStr(a.n.Ast.Pos()), hs))
			}
			if len(wit) > 12 {
				wit = wit[:12]
			}
			c.Violated(r1, construct, v.Pos(), fmt.Sprintf("package-level variable written by %v has no lock common to all its %d accesses (a write needs the lock exclusively, a read at least shared)", writerNames, len(acc)), wit)
		}
	}
	c.Check(nVars >= 4, r1, "mutable package-level variables inventoried", token.NoPos, fmt.Sprintf("%d", nVars), fmt.Sprintf("only %d found", nVars), nil)

	r3 := c.Rule("R3", "the synchronised cache wrapper overrides every interface method under its mutex", 1)
	{
		obj := w.Pkg("cache").Types.Scope().Lookup("sync_cache")
		iface := w.Pkg("cache").Types.Scope().Lookup("Cache")
		if obj == nil || iface == nil {
			c.Violated(r3, "cache.sync_cache / cache.Cache resolved", token.NoPos, "anchor types not found", nil)
		} else {
			it, _ := iface.Type().Underlying().(*types.Interface)
			var missing, unlocked []string
			for i := 0; it != nil && i < it.NumMethods(); i++ {
				m := it.Method(i)
				f := w.FnOpt("cache.sync_cache." + m.Name())
				if f == nil {
					missing = append(missing, m.Name())
					continue
				}
				c.Analysed(f)
				locks := false
				for _, cs := range w.Sites(f) {
					if _, kind, ok := lockOp(f.Pkg.TypesInfo, cs); ok && kind > 0 {
						locks = true
					}
				}
				if !locks {
					unlocked = append(unlocked, m.Name())
				}
			}
			// promoted-but-unsynchronised methods matter only if somebody calls them on the wrapper
			var used []string
			for _, m := range missing {
				for _, f := range w.allDeclared() {
					for _, cs := range w.AllSites(f) {
						if cs.Key == "cache.Cache."+m || cs.Key == "cache.sync_cache."+m {
							used = append(used, m+" called in "+shortKey(f.Key))
						}
					}
				}
			}
			sort.Strings(used)
			c.Check(len(unlocked) == 0 && len(used) == 0, r3, "sync_cache: every method that is used is overridden and takes the mutex", obj.Pos(), fmt.Sprintf("declared methods all lock; promoted without override (no caller in scope): %v", missing),
				fmt.Sprintf("methods without the mutex: %v; promoted unsynchronised methods that are called: %v", unlocked, used), nil)
		}
	}

	r2 := c.Rule("R2", "sibling goroutines do not share a written struct field without a common lock", 2)
	siblingRule(c, li, r2)

	r5 := c.Rule("R5", "what a mutex-guarded container holds is guarded too: the fields of cache.l1CacheEntry (the values of L1Cache.lookup) are read and written only while L1Cache.locker is held - copying a field into a local inside the critical section is the accepted way to use it afterwards", 2)
	{
		locker := w.Field("cache", "L1Cache", "locker")
		est, _ := w.Object("cache", "l1CacheEntry").Type().Underlying().(*types.Struct)
		if est == nil {
			panic(undecided{"cache.l1CacheEntry is not a struct"})
		}
		entryFld := map[*types.Var]bool{}
		for i := 0; i < est.NumFields(); i++ {
			entryFld[est.Field(i)] = true
		}
		nAcc := 0
		var offs []string
		var pos token.Pos
		for _, f := range w.declaredFuncs("cache") {
			if isTestHelperFile(w, f) {
				continue
			}
			root := rootOf(f)
			nm := ""
			if root.Decl != nil {
				nm = root.Decl.Name.Name
			}
			if strings.HasPrefix(nm, "New") || strings.HasPrefix(nm, "new") {
				continue
			}
			for _, fn := range append([]*Func{f}, w.allLits(f)...) {
				g := w.G(fn)
				info := fn.Pkg.TypesInfo
				for _, n := range g.Nodes {
					if n.Ast == nil {
						continue
					}
					touched := false
					ast.Inspect(n.Ast, func(x ast.Node) bool {
						switch y := x.(type) {
						case *ast.FuncLit:
							return false
						case *ast.SelectorExpr:
							if fv := fieldOfSelector(info, y); fv != nil && entryFld[fv] && !rootedAtLocalValue(info, y) {
								touched = true
							}
						case *ast.KeyValueExpr:
							return true
						}
						return true
					})
					// composite literals building a fresh entry are not accesses of a shared one
					if _, isAssign := n.Ast.(*ast.AssignStmt); touched && isAssign {
						if as := n.Ast.(*ast.AssignStmt); len(as.Rhs) == 1 {
							if u, ok := ast.Unparen(as.Rhs[0]).(*ast.UnaryExpr); ok {
								if _, isLit := ast.Unparen(u.X).(*ast.CompositeLit); isLit {
									touched = false
								}
							}
						}
					}
					if !touched {
						continue
					}
					nAcc++
					if li.heldAtNode(fn, n, 3)[locker] < 1 {
						offs = append(offs, fmt.Sprintf("%s at %s", shortKey(root.Key), w.PosStr(n.Ast.Pos())))
						if pos == token.NoPos {
							pos = n.Ast.Pos()
						}
					}
				}
			}
		}
		c.Check(nAcc >= 5, r5, "l1CacheEntry field accesses inventoried", token.NoPos, fmt.Sprintf("%d accesses", nAcc), fmt.Sprintf("only %d accesses", nAcc), nil)
		c.Check(len(offs) == 0, r5, "cache.l1CacheEntry fields are accessed under L1Cache.locker", pos, "all accesses inside the critical section",
			fmt.Sprintf("an entry's field is accessed without L1Cache.locker held (%s): SetNodeToMRU (refresh in place), DeleteNodes and the MRU eviction write that field under the lock, so a cache hit races with a concurrent refresh, delete or eviction of the same node", strings.Join(offs, "; ")), nil)
	}

	r4 := c.Rule("R4", "mutex-sibling containers: in a struct that carries its own sync.Mutex / sync.RWMutex, every access to a sibling field of map type outside the constructors happens with that mutex held (exclusively for writes, at least shared for reads, len() included)", 2)
	mutexSiblingRule(c, li, r4)
}

// mutexSiblingRule (C36.R4).
func mutexSiblingRule(c *Ctx, li *lockInfo, r4 string) {
	w := c.W
	nStructs := 0
	for _, pk := range []string{"cache", "common", "fs", "sop"} {
		p := w.Pkg(pk)
		scope := p.Types.Scope()
		names := scope.Names()
		sort.Strings(names)
		for _, name := range names {
			tn, ok := scope.Lookup(name).(*types.TypeName)
			if !ok {
				continue
			}
			st, ok := tn.Type().Underlying().(*types.Struct)
			if !ok {
				continue
			}
			var mu *types.Var
			nMu := 0
			for i := 0; i < st.NumFields(); i++ {
				ts := st.Field(i).Type().String()
				if ts == "sync.Mutex" || ts == "sync.RWMutex" || ts == "*sync.Mutex" || ts == "*sync.RWMutex" {
					mu = st.Field(i)
					nMu++
				}
			}
			if nMu != 1 {
				continue
			}
			for i := 0; i < st.NumFields(); i++ {
				fld := st.Field(i)
				if _, isMap := fld.Type().Underlying().(*types.Map); !isMap {
					continue
				}
				nStructs++
				var offs []string
				var pos token.Pos
				nAcc := 0
				for _, f := range w.declaredFuncs(pk) {
					if isTestHelperFile(w, f) {
						continue
					}
					root := rootOf(f)
					nm := ""
					if root.Decl != nil {
						nm = root.Decl.Name.Name
					}
					if strings.HasPrefix(nm, "New") || strings.HasPrefix(nm, "new") || nm == "init" {
						continue // constructor: the value is not shared yet
					}
					for _, fn := range append([]*Func{f}, w.allLits(f)...) {
						g := w.G(fn)
						info := fn.Pkg.TypesInfo
						for _, n := range g.Nodes {
							if n.Ast == nil {
								continue
							}
							write := false
							touched := false
							ast.Inspect(n.Ast, func(x ast.Node) bool {
								switch y := x.(type) {
								case *ast.FuncLit:
									return false
								case *ast.AssignStmt:
									for _, l := range y.Lhs {
										e := l
										if ix, ok := ast.Unparen(e).(*ast.IndexExpr); ok {
											e = ix.X
										}
										if fieldOfSelector(info, e) == fld {
											write = true
										}
									}
								case *ast.CallExpr:
									if id, ok := ast.Unparen(y.Fun).(*ast.Ident); ok && (id.Name == "delete" || id.Name == "clear") && len(y.Args) >= 1 && fieldOfSelector(info, y.Args[0]) == fld {
										write = true
									}
								case *ast.SelectorExpr:
									if fieldOfSelector(info, y) == fld {
										touched = true
									}
								}
								return true
							})
							if !touched {
								continue
							}
							nAcc++
							held := li.heldAtNode(fn, n, 3)
							need := 1
							if write {
								need = 2
							}
							if held[mu] < need {
								kind := "read"
								if write {
									kind = "write"
								}
								offs = append(offs, fmt.Sprintf("%s in %s at %s", kind, shortKey(root.Key), w.PosStr(n.Ast.Pos())))
								if pos == token.NoPos {
									pos = n.Ast.Pos()
								}
							}
						}
					}
				}
				if pos == token.NoPos {
					pos = fld.Pos()
				}
				c.Check(len(offs) == 0, r4, fmt.Sprintf("%s.%s.%s is accessed under %s", pk, name, fld.Name(), mu.Name()), pos, fmt.Sprintf("%d access(es), all under the struct's mutex", nAcc),
					fmt.Sprintf("map field %s.%s is accessed without the struct's mutex %s held (%s): a concurrent writer holding the mutex races with it (a map read, even len(), concurrent with a map write is a data race)", name, fld.Name(), mu.Name(), strings.Join(offs, "; ")), nil)
			}
		}
	}
	c.Check(nStructs >= 2, r4, "mutex-carrying structs with map fields inventoried", token.NoPos, fmt.Sprintf("%d map fields", nStructs), fmt.Sprintf("only %d", nStructs), nil)
}

// fieldEffects: struct fields read / written by f and its static callees (depth-limited), with the locks
// held (must) at each access.
type fieldAccess struct {
	fld   *types.Var
	write bool
	held  lockset
	where string
}

func (li *lockInfo) fieldEffects(f *Func, depth int, seen map[*Func]bool, inherited lockset) []fieldAccess {
	if f == nil || seen[f] || depth < 0 {
		return nil
	}
	seen[f] = true
	w := li.w
	g := w.G(f)
	info := f.Pkg.TypesInfo
	local := li.local(f)
	var out []fieldAccess
	for _, n := range g.Nodes {
		if n.Ast == nil {
			continue
		}
		held := local[n.ID].clone()
		for k, v := range inherited {
			if held[k] < v {
				held[k] = v
			}
		}
		writes := map[*types.Var]bool{}
		ast.Inspect(n.Ast, func(x ast.Node) bool {
			switch s := x.(type) {
			case *ast.FuncLit:
				return false
			case *ast.AssignStmt:
				for _, l := range s.Lhs {
					if fv := fieldOfSelector(info, l); fv != nil && !rootedAtLocalValue(info, l) {
						writes[fv] = true
					}
				}
			case *ast.IncDecStmt:
				if fv := fieldOfSelector(info, s.X); fv != nil && !rootedAtLocalValue(info, s.X) {
					writes[fv] = true
				}
			}
			return true
		})
		ast.Inspect(n.Ast, func(x ast.Node) bool {
			switch s := x.(type) {
			case *ast.FuncLit:
				return false
			case *ast.SelectorExpr:
				if fv := fieldOfSelector(info, s); fv != nil {
					out = append(out, fieldAccess{fv, writes[fv], held, w.PosStr(s.Pos())})
				}
			}
			return true
		})
		for _, cs := range n.Calls {
			if cs.Go {
				continue
			}
			if cf := w.CalleeFunc(cs); cf != nil {
				out = append(out, li.fieldEffects(cf, depth-1, seen, held)...)
			} else {
				for _, impl := range implsOf(w, cs) {
					out = append(out, li.fieldEffects(impl, depth-1, seen, held)...)
				}
			}
		}
	}
	return out
}

// implsOf resolves an interface method call to the in-scope implementations (class-hierarchy analysis),
// restricted to the library packages and excluding mocks.
func implsOf(w *World, cs *CallSite) []*Func {
	fo, ok := cs.Callee.(*types.Func)
	if !ok {
		return nil
	}
	sig, _ := fo.Type().(*types.Signature)
	if sig == nil || sig.Recv() == nil {
		return nil
	}
	it, ok := sig.Recv().Type().Underlying().(*types.Interface)
	if !ok {
		return nil
	}
	var out []*Func
	for _, f := range w.allDeclared() {
		if f.Obj == nil || f.Obj.Name() != fo.Name() || strings.Contains(f.Key, "mock") || strings.Contains(f.Key, "Mock") {
			continue
		}
		pk := shortPkgPath(f.Pkg.PkgPath)
		if pk != "fs" && pk != "common" && pk != "cache" && pk != "sop" {
			continue
		}
		fs, _ := f.Obj.Type().(*types.Signature)
		if fs == nil || fs.Recv() == nil {
			continue
		}
		rt := fs.Recv().Type()
		if types.Implements(rt, it) || types.Implements(types.NewPointer(rt), it) {
			out = append(out, f)
		}
	}
	sort.Slice(out, func(i, j int) bool { return out[i].Key < out[j].Key })
	return out
}

func siblingRule(c *Ctx, li *lockInfo, r2 string) {
	w := c.W
	nGroups := 0
	specs := []string{kTxp2, "fs.BlobStoreWithEC.GetOne", "fs.BlobStoreWithEC.Add", "fs.BlobStoreWithEC.Remove"}
	if c.Tier == "thorough" {
		// the wider sweep: every library function that hands closures to a task runner's Go
		have := map[string]bool{}
		for _, k := range specs {
			have[k] = true
		}
		for _, f := range w.allDeclared() {
			if f.Pkg.Types.Name() == "main" || isTestHelperFile(w, f) || have[f.Key] {
				continue
			}
			for _, fn := range append([]*Func{f}, w.allLits(f)...) {
				for _, cs := range w.Sites(fn) {
					if strings.HasSuffix(cs.Key, ".Go") && len(cs.Call.Args) == 1 && !have[f.Key] {
						if _, ok := ast.Unparen(cs.Call.Args[0]).(*ast.FuncLit); ok {
							have[f.Key] = true
							specs = append(specs, f.Key)
						}
					}
				}
			}
		}
		sort.Strings(specs)
	}
	for _, spec := range specs {
		f := w.FnOpt(spec)
		if f == nil {
			continue
		}
		// closures handed to a `.Go(` call inside f (any nesting level of literals of f)
		var sibs []*Func
		for _, fn := range append([]*Func{f}, w.allLits(f)...) {
			for _, cs := range w.Sites(fn) {
				if !strings.HasSuffix(cs.Key, ".Go") || len(cs.Call.Args) != 1 {
					continue
				}
				if lit, ok := ast.Unparen(cs.Call.Args[0]).(*ast.FuncLit); ok {
					if lf := w.byLit[lit]; lf != nil {
						sibs = append(sibs, lf)
					}
				}
			}
		}
		if len(sibs) < 1 {
			continue
		}
		nGroups++
		c.Analysed(f)
		effects := make([][]fieldAccess, len(sibs))
		for i, s := range sibs {
			effects[i] = li.fieldEffects(s, 4, map[*Func]bool{}, lockset{})
		}
		type conflict struct {
			fld  *types.Var
			a, b fieldAccess
			i, j int
		}
		var conflicts []conflict
		seenF := map[*types.Var]bool{}
		for i := range sibs {
			for j := range sibs {
				// a closure spawned in a loop races with itself (i == j) as well
				if j < i {
					continue
				}
				for _, a := range effects[i] {
					if !a.write {
						continue
					}
					// element-wise slice writes through an index are not field writes here (fieldOfSelector on the
					// LHS only matches selector LHS), so the accepted idiom never reaches this point
					for _, b := range effects[j] {
						if b.fld != a.fld || seenF[a.fld] {
							continue
						}
						if i == j && !spawnedInLoop(w, f, sibs[i]) {
							continue
						}
						if i == j && a.where == b.where && !spawnedInLoop(w, f, sibs[i]) {
							continue
						}
						// common lock with a exclusively held?
						ok := false
						for k, kind := range a.held {
							if kind == 2 && b.held[k] >= 1 {
								ok = true
							}
						}
						if !ok {
							// fields of values local to the closure (declared inside it) are private: skip when the
							// field's owner struct is created inside the closure - approximated by the field's package
							// being outside the four library packages
							pkg := ""
							if a.fld.Pkg() != nil {
								pkg = shortPkgPath(a.fld.Pkg().Path())
							}
							if pkg != "sop" && pkg != "common" && pkg != "cache" && pkg != "fs" {
								continue
							}
							seenF[a.fld] = true
							conflicts = append(conflicts, conflict{a.fld, a, b, i, j})
						}
					}
				}
			}
		}
		sort.Slice(conflicts, func(x, y int) bool { return conflicts[x].fld.Name() < conflicts[y].fld.Name() })
		if len(conflicts) == 0 {
			c.Held(r2, shortKey(spec)+": sibling goroutines share no unsynchronised written field", f.Decl.Pos(), fmt.Sprintf("%d closures", len(sibs)))
		}
		for _, cf := range conflicts {
			c.Violated(r2, fmt.Sprintf("%s: field %s is not written by one goroutine while a sibling accesses it without a common lock", shortKey(spec), cf.fld.Name()), f.Decl.Pos(),
				fmt.Sprintf("closure %s writes %s at %s (locks %v) while closure %s accesses it at %s (locks %v): the two run concurrently between the task runner's Go and Wait", sibs[cf.i].Key, cf.fld.Name(), cf.a.where, lockNames(cf.a.held), sibs[cf.j].Key, cf.b.where, lockNames(cf.b.held)), nil)
		}
	}
	c.Check(nGroups >= 2, r2, "goroutine spawn sites inventoried", token.NoPos, fmt.Sprintf("%d functions with task-runner closures", nGroups), fmt.Sprintf("only %d", nGroups), nil)
}

func lockNames(s lockset) []string {
	var out []string
	for k, v := range s {
		out = append(out, fmt.Sprintf("%s:%d", k.Name(), v))
	}
	sort.Strings(out)
	return out
}

func spawnedInLoop(w *World, f *Func, lit *Func) bool {
	in := false
	for _, fn := range append([]*Func{f}, w.allLits(f)...) {
		ast.Inspect(fn.Body, func(x ast.Node) bool {
			switch s := x.(type) {
			case *ast.ForStmt:
				if s.Body.Pos() <= lit.Lit.Pos() && lit.Lit.End() <= s.Body.End() {
					in = true
				}
			case *ast.RangeStmt:
				if s.Body.Pos() <= lit.Lit.Pos() && lit.Lit.End() <= s.Body.End() {
					in = true
				}
			}
			return true
		})
	}
	return in
}

// rootedAtLocalValue: the selector chain starts at a local variable of struct (non-pointer) type, i.e. the
// write goes to a private copy (e.g. `copy := *r.tracker; copy.Toggler = ...`).
func rootedAtLocalValue(info *types.Info, e ast.Expr) bool {
	for {
		switch x := ast.Unparen(e).(type) {
		case *ast.SelectorExpr:
			// a pointer-typed intermediate makes the target shared again
			if tv, ok := info.Types[x.X]; ok {
				if _, isPtr := tv.Type.Underlying().(*types.Pointer); isPtr {
					return false
				}
			}
			e = x.X
			continue
		case *ast.IndexExpr:
			return false
		case *ast.Ident:
			v, ok := info.Uses[x].(*types.Var)
			if !ok || v.IsField() || v.Pkg() == nil || v.Parent() == v.Pkg().Scope() {
				return false
			}
			_, isStruct := v.Type().Underlying().(*types.Struct)
			return isStruct
		}
		return false
	}
}
