package main

// C17: a B-tree store behaves as a correctly ordered collection (three structural clauses only).

import (
	"fmt"
	"go/ast"
	"go/token"
	"go/types"
)

func init() {
	register("C17", propMeta{
		Explanation: "Decides three structural necessary conditions of ordered-collection behaviour, not the behaviour: (R1) updates that would change a key's order are rejected: in UpdateCurrentKey and UpdateCurrentItem the comparison `compare(currentKey, newKey) != 0` with an error return dominates every store of the new key into the item and the node slot; UpdateKey / UpdateCurrentItem reach those two only; (R2) sibling rotation moves exactly one parent separator, so the sibling helpers must return the ADJACENT child only: getLeftSibling / getRightSibling contain no loop, take the node's own index from getIndexOfNode and ask the parent for the child at index-1 / index+1 through getChild (a nil child yields nil: no vacancy is seen across an emptied sibling); the vacancy tests and the distribute functions obtain siblings only through these helpers. (R3) cursor stepping: in moveToNext / moveToPrevious every descent step is taken only after the nil-child escape of the same direction was consulted on the node being left, initially and between successive descent steps.",
		DoesNotCover: "Splits, rotations, deletes, scan order against a model, and Count after arbitrary operation sequences are value-level behaviour and are NOT decided here (C05/C06 cover the duplicate check and the count bookkeeping).",
	}, runC17)
}

func runC17(c *Ctx) {
	w := c.W
	r1 := c.Rule("R1", "a key update that changes the order is rejected before the key is stored", 4)
	keyF := w.Field("btree", "Item", "Key")
	for _, k := range []string{"btree.Btree.UpdateCurrentKey", "btree.Btree.UpdateCurrentItem"} {
		f := w.Fn(k)
		g := w.G(f)
		c.Analysed(f)
		info := f.Pkg.TypesInfo
		keyPar := f.Obj.Type().(*types.Signature).Params().At(1)
		cmp := g.condNodes(func(e ast.Expr) bool {
			be, ok := e.(*ast.BinaryExpr)
			if !ok || be.Op != token.NEQ || !w.mentionsCall(f, be.X, "btree.Btree.compare") || !mentionsObj(info, be.X, keyPar) {
				return false
			}
			lit, ok := ast.Unparen(be.Y).(*ast.BasicLit)
			return ok && lit.Value == "0"
		})
		ok := len(cmp) == 1
		if ok {
			r := g.Reach(branchStarts(cmp, 1), isReturn, nil)
			for _, x := range g.Nodes {
				if r.Seen[x.ID] && x.Ret != nil && g.ClassifyReturn(x) != RetNonNil {
					ok = false
				}
			}
		}
		c.Check(ok, r1, shortKey(k)+": an order-changing key is an error", f.Decl.Pos(), "compare(current, new) != 0 returns an error", "a key that compares different from the current one is not rejected", nil)
		if len(cmp) == 1 {
			stores := func(n *GNode) bool {
				as, isAs := n.Ast.(*ast.AssignStmt)
				if !isAs {
					return false
				}
				for i, l := range as.Lhs {
					if fieldOfSelector(info, l) == keyF && i < len(as.Rhs) && mentionsObj(info, as.Rhs[i], keyPar) {
						return true
					}
				}
				return false
			}
			n := len(g.Find(stores))
			offs := g.notOnlyVia(cmp, 2, stores)
			if n == 0 {
				offs = []Offence{{g.Nodes[g.Entry], nil}}
			}
			c.Offences(g, offs, r1, shortKey(k)+": the new key is stored only after the comparison said 'same order'", f.Decl.Pos(), "item.Key = key reachable only through the == 0 edge", "the new key can be stored without having been compared with the current key (a node's slots go out of order)")
		}
	}

	r2 := c.Rule("R2", "sibling helpers return the adjacent child only; rotations obtain siblings only through them", 6)
	for _, spec := range []struct {
		fn string
		op token.Token
	}{{"btree.Node.getLeftSibling", token.SUB}, {"btree.Node.getRightSibling", token.ADD}} {
		f := w.Fn(spec.fn)
		g := w.G(f)
		c.Analysed(f)
		info := f.Pkg.TypesInfo
		loops := false
		ast.Inspect(f.Body, func(x ast.Node) bool {
			switch x.(type) {
			case *ast.ForStmt, *ast.RangeStmt:
				loops = true
			}
			return true
		})
		idx := g.callNodes("btree.Node.getIndexOfNode")
		gc := g.callNodes("btree.Node.getChild")
		ok := !loops && len(idx) == 1 && len(gc) == 1
		detail := ""
		if ok {
			iv := g.lhsVarOfCall(idx[0].n, idx[0].cs, 0)
			arg := gc[0].cs.Call.Args[len(gc[0].cs.Call.Args)-1]
			be, isBE := ast.Unparen(arg).(*ast.BinaryExpr)
			ok = false
			if isBE && be.Op == spec.op {
				if id, isID := ast.Unparen(be.X).(*ast.Ident); isID && iv != nil && info.Uses[id] == types.Object(iv) {
					if lit, isLit := ast.Unparen(be.Y).(*ast.BasicLit); isLit && lit.Value == "1" {
						ok = true
					}
				}
			}
			if !ok {
				detail = "child index is `" + types.ExprString(arg) + "`"
			}
		} else {
			detail = fmt.Sprintf("loops: %v, getIndexOfNode calls %d, getChild calls %d", loops, len(idx), len(gc))
		}
		c.Check(ok, r2, shortKey(spec.fn)+" returns the adjacent child (or nil)", f.Decl.Pos(), "parent.getChild(own index "+spec.op.String()+" 1), no loop",
			"the sibling helper can return a non-adjacent child ("+detail+"): rotation moves ONE parent separator into the sibling, so across a skipped (emptied) child the separator lands on the wrong side and scans go out of key order", nil)
	}
	// users of siblings go through the helpers: the distribute / vacancy functions never index parent's children themselves
	for _, k := range []string{"btree.Node.isThereVacantSlotInLeft", "btree.Node.isThereVacantSlotInRight", "btree.Node.distributeToLeft", "btree.Node.distributeToRight"} {
		f := w.Fn(k)
		c.Analysed(f)
		uses := false
		direct := false
		for _, cs := range w.AllSites(f) {
			if cs.Key == "btree.Node.getLeftSibling" || cs.Key == "btree.Node.getRightSibling" {
				uses = true
			}
			if cs.Key == "btree.Node.getChild" || cs.Key == "btree.Node.getChildren" {
				direct = true
			}
		}
		c.Check(uses && !direct, r2, shortKey(k)+" obtains siblings through the sibling helpers only", f.Decl.Pos(), "uses getLeft/RightSibling, no direct child indexing", fmt.Sprintf("uses helper: %v, indexes children directly: %v", uses, direct), nil)
	}

	r3 := c.Rule("R3", "cursor stepping: in moveToNext / moveToPrevious every descent step (getChild) is taken only after the nil-child escape of the same direction was consulted on the node being left - from the entry and again between two successive descent steps - because a delete can leave a nil child on any level", 6)
	for _, spec := range []struct{ fn, escape, wrong string }{
		{"btree.Node.moveToNext", "btree.Node.goRightUpItemOnNodeWithNilChild", "btree.Node.goLeftUpItemOnNodeWithNilChild"},
		{"btree.Node.moveToPrevious", "btree.Node.goLeftUpItemOnNodeWithNilChild", "btree.Node.goRightUpItemOnNodeWithNilChild"},
	} {
		f := w.Fn(spec.fn)
		g := w.G(f)
		c.Analysed(f)
		desc := g.Find(calls("btree.Node.getChild"))
		esc := g.Find(calls(spec.escape))
		c.Check(len(desc) >= 1 && len(esc) >= 1, r3, shortKey(spec.fn)+": descent and nil-child escape present", f.Decl.Pos(), fmt.Sprintf("%d getChild, %d escape call(s)", len(desc), len(esc)), fmt.Sprintf("found %d getChild and %d %s calls", len(desc), len(esc), shortKey(spec.escape)), nil)
		c.Check(len(g.Find(calls(spec.wrong))) == 0, r3, shortKey(spec.fn)+": escape of its own direction", f.Decl.Pos(), "does not call "+shortKey(spec.wrong), "calls the escape of the opposite direction", nil)
		offs := g.MustPrecede(calls(spec.escape), calls("btree.Node.getChild"))
		c.Offences(g, offs, r3, shortKey(spec.fn)+": first descent step is preceded by the nil-child escape", f.Decl.Pos(), "getChild is dominated by the escape", "a descent step is reachable without consulting the nil-child escape")
		offs = g.MustFollow(desc, calls(spec.escape), calls("btree.Node.getChild"))
		c.Offences(g, offs, r3, shortKey(spec.fn)+": the escape is consulted again before every further descent step", f.Decl.Pos(), "between two getChild calls the escape is always called",
			"after one descent step the next one is taken without consulting the nil-child escape on the new node: when that node's child in the scan direction is nil (left behind by deletes) the scan reports the end of the tree instead of stepping to the node's own slot")
	}
}
