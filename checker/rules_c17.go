package main

// C17: a B-tree store behaves as a correctly ordered collection (five structural clauses only).

import (
	"fmt"
	"go/ast"
	"go/token"
	"go/types"
)

func init() {
	register("C17", propMeta{
		Explanation:  "Decides five structural necessary conditions of ordered-collection behaviour, not the behaviour: (R1) updates that would change a key's order are rejected: in UpdateCurrentKey and UpdateCurrentItem the comparison `compare(currentKey, newKey) != 0` with an error return dominates every store of the new key into the item and the node slot; UpdateKey / UpdateCurrentItem reach those two only; (R2) sibling rotation moves exactly one parent separator, so the sibling helpers must return the ADJACENT child only: getLeftSibling / getRightSibling contain no loop, take the node's own index from getIndexOfNode and ask the parent for the child at index-1 / index+1 through getChild (a nil child yields nil: no vacancy is seen across an emptied sibling); the vacancy tests and the distribute functions obtain siblings only through these helpers. (R3) cursor stepping: in moveToNext / moveToPrevious every descent step is taken only after the nil-child escape of the same direction was consulted on the node being left, initially and between successive descent steps. (R4) whenever a node's Slots are cleared to be repopulated its Count is assigned before the node is saved; (R5) a function that hangs a new child holding a caller-supplied item under ChildrenIDs[i] takes i from its caller, a key comparison or a direction argument. (R6) a node created and hung under X.ChildrenIDs is created with newID(X.ID): parent links agree with child links.",
		DoesNotCover: "Splits, rotations, deletes, scan order against a model, and Count after arbitrary operation sequences are value-level behaviour and are NOT decided here (C05/C06 cover the duplicate check and the count bookkeeping).",
	}, runC17)
}

func runC17(c *Ctx) {
	w := c.W
	r1 := c.Rule("R1", "a key update that changes the order is rejected before the key is stored", 4)
	keyF := w.Field("btree", "Item", "Key")
	for _, k := range []string{"btree.Btree.UpdateCurrentKey", "btree.Btree.UpdateCurrentItem"} {
		f := w.Fn(k)
		g := w.G(f)
		c.Analysed(f)
		info := f.Pkg.TypesInfo
		keyPar := f.Obj.Type().(*types.Signature).Params().At(1)
		cmp := g.condNodes(func(e ast.Expr) bool {
			be, ok := e.(*ast.BinaryExpr)
			if !ok || be.Op != token.NEQ || !w.mentionsCall(f, be.X, "btree.Btree.compare") || !mentionsObj(info, be.X, keyPar) {
				return false
			}
			lit, ok := ast.Unparen(be.Y).(*ast.BasicLit)
			return ok && lit.Value == "0"
		})
		ok := len(cmp) == 1
		if ok {
			r := g.Reach(branchStarts(cmp, 1), isReturn, nil)
			for _, x := range g.Nodes {
				if r.Seen[x.ID] && x.Ret != nil && g.ClassifyReturn(x) != RetNonNil {
					ok = false
				}
			}
		}
		c.Check(ok, r1, shortKey(k)+": an order-changing key is an error", f.Decl.Pos(), "compare(current, new) != 0 returns an error", "a key that compares different from the current one is not rejected", nil)
		if len(cmp) == 1 {
			stores := func(n *GNode) bool {
				as, isAs := n.Ast.(*ast.AssignStmt)
				if !isAs {
					return false
				}
				for i, l := range as.Lhs {
					if fieldOfSelector(info, l) == keyF && i < len(as.Rhs) && mentionsObj(info, as.Rhs[i], keyPar) {
						return true
					}
				}
				return false
			}
			n := len(g.Find(stores))
			offs := g.notOnlyVia(cmp, 2, stores)
			if n == 0 {
				offs = []Offence{{g.Nodes[g.Entry], nil}}
			}
			c.Offences(g, offs, r1, shortKey(k)+": the new key is stored only after the comparison said 'same order'", f.Decl.Pos(), "item.Key = key reachable only through the == 0 edge", "the new key can be stored without having been compared with the current key (a node's slots go out of order)")
		}
	}

	r2 := c.Rule("R2", "sibling helpers return the adjacent child only; rotations obtain siblings only through them", 6)
	for _, spec := range []struct {
		fn string
		op token.Token
	}{{"btree.Node.getLeftSibling", token.SUB}, {"btree.Node.getRightSibling", token.ADD}} {
		f := w.Fn(spec.fn)
		g := w.G(f)
		c.Analysed(f)
		info := f.Pkg.TypesInfo
		loops := false
		ast.Inspect(f.Body, func(x ast.Node) bool {
			switch x.(type) {
			case *ast.ForStmt, *ast.RangeStmt:
				loops = true
			}
			return true
		})
		idx := g.callNodes("btree.Node.getIndexOfNode")
		gc := g.callNodes("btree.Node.getChild")
		ok := !loops && len(idx) == 1 && len(gc) == 1
		detail := ""
		if ok {
			iv := g.lhsVarOfCall(idx[0].n, idx[0].cs, 0)
			arg := gc[0].cs.Call.Args[len(gc[0].cs.Call.Args)-1]
			be, isBE := ast.Unparen(arg).(*ast.BinaryExpr)
			ok = false
			if isBE && be.Op == spec.op {
				if id, isID := ast.Unparen(be.X).(*ast.Ident); isID && iv != nil && info.Uses[id] == types.Object(iv) {
					if lit, isLit := ast.Unparen(be.Y).(*ast.BasicLit); isLit && lit.Value == "1" {
						ok = true
					}
				}
			}
			if !ok {
				detail = "child index is `" + types.ExprString(arg) + "`"
			}
		} else {
			detail = fmt.Sprintf("loops: %v, getIndexOfNode calls %d, getChild calls %d", loops, len(idx), len(gc))
		}
		c.Check(ok, r2, shortKey(spec.fn)+" returns the adjacent child (or nil)", f.Decl.Pos(), "parent.getChild(own index "+spec.op.String()+" 1), no loop",
			"the sibling helper can return a non-adjacent child ("+detail+"): rotation moves ONE parent separator into the sibling, so across a skipped (emptied) child the separator lands on the wrong side and scans go out of key order", nil)
	}
	// users of siblings go through the helpers: the distribute / vacancy functions never index parent's children themselves
	for _, k := range []string{"btree.Node.isThereVacantSlotInLeft", "btree.Node.isThereVacantSlotInRight", "btree.Node.distributeToLeft", "btree.Node.distributeToRight"} {
		f := w.Fn(k)
		c.Analysed(f)
		uses := false
		direct := false
		for _, cs := range w.AllSites(f) {
			if cs.Key == "btree.Node.getLeftSibling" || cs.Key == "btree.Node.getRightSibling" {
				uses = true
			}
			if cs.Key == "btree.Node.getChild" || cs.Key == "btree.Node.getChildren" {
				direct = true
			}
		}
		c.Check(uses && !direct, r2, shortKey(k)+" obtains siblings through the sibling helpers only", f.Decl.Pos(), "uses getLeft/RightSibling, no direct child indexing", fmt.Sprintf("uses helper: %v, indexes children directly: %v", uses, direct), nil)
	}

	r3 := c.Rule("R3", "cursor stepping: in moveToNext / moveToPrevious every descent step (getChild) is taken only after the nil-child escape of the same direction was consulted on the node being left - from the entry and again between two successive descent steps - because a delete can leave a nil child on any level", 6)
	for _, spec := range []struct{ fn, escape, wrong string }{
		{"btree.Node.moveToNext", "btree.Node.goRightUpItemOnNodeWithNilChild", "btree.Node.goLeftUpItemOnNodeWithNilChild"},
		{"btree.Node.moveToPrevious", "btree.Node.goLeftUpItemOnNodeWithNilChild", "btree.Node.goRightUpItemOnNodeWithNilChild"},
	} {
		f := w.Fn(spec.fn)
		g := w.G(f)
		c.Analysed(f)
		desc := g.Find(calls("btree.Node.getChild"))
		esc := g.Find(calls(spec.escape))
		c.Check(len(desc) >= 1 && len(esc) >= 1, r3, shortKey(spec.fn)+": descent and nil-child escape present", f.Decl.Pos(), fmt.Sprintf("%d getChild, %d escape call(s)", len(desc), len(esc)), fmt.Sprintf("found %d getChild and %d %s calls", len(desc), len(esc), shortKey(spec.escape)), nil)
		c.Check(len(g.Find(calls(spec.wrong))) == 0, r3, shortKey(spec.fn)+": escape of its own direction", f.Decl.Pos(), "does not call "+shortKey(spec.wrong), "calls the escape of the opposite direction", nil)
		offs := g.MustPrecede(calls(spec.escape), calls("btree.Node.getChild"))
		c.Offences(g, offs, r3, shortKey(spec.fn)+": first descent step is preceded by the nil-child escape", f.Decl.Pos(), "getChild is dominated by the escape", "a descent step is reachable without consulting the nil-child escape")
		offs = g.MustFollow(desc, calls(spec.escape), calls("btree.Node.getChild"))
		c.Offences(g, offs, r3, shortKey(spec.fn)+": the escape is consulted again before every further descent step", f.Decl.Pos(), "between two getChild calls the escape is always called",
			"after one descent step the next one is taken without consulting the nil-child escape on the new node: when that node's child in the scan direction is nil (left behind by deletes) the scan reports the end of the tree instead of stepping to the node's own slot")
	}

	r4 := c.Rule("R4", "slot-array rewrites keep Count in step: whenever a node's Slots are cleared (to be repopulated) the node's Count is assigned before the node is saved or the function returns - a node whose Count still describes the old content exposes zero items to scans and searches", 5)
	{
		slotsF := w.Field("btree", "Node", "Slots")
		countF := w.Field("btree", "Node", "Count")
		nSites := 0
		for _, f := range w.declaredFuncs("btree") {
			g := w.G(f)
			info := f.Pkg.TypesInfo
			for _, n := range g.Nodes {
				for _, cs := range n.Calls {
					if cs.Key != "builtin.clear" || len(cs.Call.Args) != 1 {
						continue
					}
					sel, ok := ast.Unparen(cs.Call.Args[0]).(*ast.SelectorExpr)
					if !ok || fieldOfSelector(info, sel) != slotsF {
						continue
					}
					nSites++
					base := types.ExprString(sel.X)
					setCount := func(x *GNode) bool {
						switch st := x.Ast.(type) {
						case *ast.AssignStmt:
							for _, l := range st.Lhs {
								if ls, ok := ast.Unparen(l).(*ast.SelectorExpr); ok && fieldOfSelector(info, ls) == countF && types.ExprString(ls.X) == base {
									return true
								}
							}
						case *ast.IncDecStmt:
							if ls, ok := ast.Unparen(st.X).(*ast.SelectorExpr); ok && fieldOfSelector(info, ls) == countF && types.ExprString(ls.X) == base {
								return true
							}
						}
						return false
					}
					until := func(x *GNode) bool {
						if x.Ret != nil || x.Exit {
							return true
						}
						for _, c2 := range x.Calls {
							if c2.Key == "btree.Btree.saveNode" && len(c2.Call.Args) == 1 && types.ExprString(c2.Call.Args[0]) == base {
								return true
							}
						}
						return false
					}
					offs := g.MustFollow([]*GNode{n}, setCount, until)
					c.Offences(g, offs, r4, fmt.Sprintf("%s: clear(%s.Slots) #%d is followed by an assignment of %s.Count", shortKey(f.Key), base, ordinalOf(w, f, cs), base), cs.Call.Pos(),
						"Count assigned before the node is saved / the function returns",
						"the node is saved with its Slots rewritten but its Count unchanged: turned into a one-item inner node it keeps Count == SlotLength, so scans return zero items, the slot array is no longer sorted for the search and Find misses real keys")
				}
			}
		}
		c.Check(nSites >= 5, r4, "clear(node.Slots) sites inventoried", token.NoPos, fmt.Sprintf("%d sites", nSites), fmt.Sprintf("only %d sites", nSites), nil)
	}

	r5 := c.Rule("R5", "items are placed by key: a function that hangs a new child holding a caller-supplied item under ChildrenIDs[i] takes i from its caller or derives it from a key comparison / a direction argument - never from the mere position of a free child pointer", 2)
	{
		childrenF := w.Field("btree", "Node", "ChildrenIDs")
		nSites := 0
		for _, f := range w.declaredFuncs("btree") {
			if f.Obj == nil {
				continue
			}
			sig := f.Obj.Type().(*types.Signature)
			var itemP *types.Var
			for i := 0; i < sig.Params().Len(); i++ {
				if pt, ok := sig.Params().At(i).Type().(*types.Pointer); ok {
					if nt, ok := pt.Elem().(*types.Named); ok && nt.Obj().Name() == "Item" {
						itemP = sig.Params().At(i)
					}
				}
			}
			if itemP == nil {
				continue
			}
			info := f.Pkg.TypesInfo
			defs := localDefs(f)
			// a local node created here that receives the item
			newChild := map[types.Object]bool{}
			ast.Inspect(f.Body, func(x ast.Node) bool {
				as, ok := x.(*ast.AssignStmt)
				if !ok {
					return true
				}
				for i, l := range as.Lhs {
					if i < len(as.Rhs) && mentionsObj(info, as.Rhs[i], itemP) {
						if ix, ok := ast.Unparen(l).(*ast.IndexExpr); ok {
							if sel, ok := ast.Unparen(ix.X).(*ast.SelectorExpr); ok && sel.Sel.Name == "Slots" {
								if id, ok := ast.Unparen(sel.X).(*ast.Ident); ok {
									if o := info.Uses[id]; o != nil {
										for _, d := range defs[o] {
											if w.mentionsCall(f, d, "btree.newNode") {
												newChild[o] = true
											}
										}
									}
								}
							}
						}
					}
				}
				return true
			})
			if len(newChild) == 0 {
				continue
			}
			// ChildrenIDs[i] = child.ID
			ast.Inspect(f.Body, func(x ast.Node) bool {
				as, ok := x.(*ast.AssignStmt)
				if !ok || len(as.Lhs) != 1 || len(as.Rhs) != 1 {
					return true
				}
				ix, ok := ast.Unparen(as.Lhs[0]).(*ast.IndexExpr)
				if !ok || fieldOfSelector(info, ix.X) != childrenF {
					return true
				}
				isChild := false
				for o := range newChild {
					if mentionsObj(info, as.Rhs[0], o) {
						isChild = true
					}
				}
				if !isChild {
					return true
				}
				nSites++
				construct := fmt.Sprintf("%s: the child position that receives the supplied item is chosen by key", shortKey(f.Key))
				okIdx := false
				why := ""
				if id, ok := ast.Unparen(ix.Index).(*ast.Ident); ok {
					o := info.Uses[id]
					for i := 0; i < sig.Params().Len(); i++ {
						if o == types.Object(sig.Params().At(i)) {
							okIdx, why = true, "index is a parameter (the caller's search result)"
						}
					}
					if !okIdx {
						for i := 0; i < sig.Params().Len(); i++ {
							if b, isB := sig.Params().At(i).Type().Underlying().(*types.Basic); isB && b.Kind() == types.Bool && w.mentionsDeep(f, defs, ix.Index, sig.Params().At(i)) {
								okIdx, why = true, "index depends on a direction argument"
							}
						}
						// conditions controlling the index: any comparison involving the item's key
						g := w.G(f)
						for _, cn := range g.Nodes {
							if cn.IsCond && cn.Ast != nil && mentionsObj(info, cn.Ast, itemP) {
								okIdx, why = true, "a condition on the item's key controls the placement"
							}
						}
						if w.mentionsDeep(f, defs, ix.Index, nil, "btree.Btree.compare", "btree.Node.getIndexToInsertTo", "sort.Search", "btree.Btree.Compare") {
							okIdx, why = true, "index derives from a key search"
						}
					}
				} else if _, isLit := ast.Unparen(ix.Index).(*ast.BasicLit); isLit {
					okIdx, why = true, "constant position"
				}
				c.Check(okIdx, r5, construct, as.Pos(), why,
					"the new child holding the supplied item is attached under the first free child pointer, whatever the item's key: an item rotated in from a sibling (greater than all keys when coming from the right, smaller when coming from the left) lands between keys it does not belong between; scans return it out of order and Find misses it", nil)
				return true
			})
		}
		c.Check(nSites >= 2, r5, "child-attachment sites inventoried", token.NoPos, fmt.Sprintf("%d sites", nSites), fmt.Sprintf("only %d sites", nSites), nil)
	}

	r6 := c.Rule("R6", "parent links agree with child links: when a function creates a node N (newNode) and hangs it under X.ChildrenIDs[k] = N.ID, N's id/parent initialisation is N.newID(X.ID) - cursor stepping climbs through ParentID and asks that node for the child's index", 4)
	{
		nSites := 0
		for _, f := range w.declaredFuncs("btree") {
			info := f.Pkg.TypesInfo
			defs := localDefs(f)
			// newID calls per local node variable
			parentArg := map[types.Object][]ast.Expr{}
			for _, cs := range w.Sites(f) {
				if cs.Key != "btree.Node.newID" || len(cs.Call.Args) != 1 {
					continue
				}
				if sel, ok := ast.Unparen(cs.Call.Fun).(*ast.SelectorExpr); ok {
					if id, ok := ast.Unparen(sel.X).(*ast.Ident); ok {
						parentArg[info.Uses[id]] = append(parentArg[info.Uses[id]], cs.Call.Args[0])
					}
				}
			}
			ast.Inspect(f.Body, func(x ast.Node) bool {
				as, ok := x.(*ast.AssignStmt)
				if !ok || len(as.Lhs) != 1 || len(as.Rhs) != 1 {
					return true
				}
				ix, ok := ast.Unparen(as.Lhs[0]).(*ast.IndexExpr)
				if !ok {
					return true
				}
				lsel, ok := ast.Unparen(ix.X).(*ast.SelectorExpr)
				if !ok || lsel.Sel.Name != "ChildrenIDs" {
					return true
				}
				rsel, ok := ast.Unparen(as.Rhs[0]).(*ast.SelectorExpr)
				if !ok || rsel.Sel.Name != "ID" {
					return true
				}
				cid, ok := ast.Unparen(rsel.X).(*ast.Ident)
				if !ok {
					return true
				}
				child := info.Uses[cid]
				created := false
				for _, d := range defs[child] {
					if w.mentionsCall(f, d, "btree.newNode") {
						created = true
					}
				}
				if !created || len(parentArg[child]) == 0 {
					return true
				}
				nSites++
				want := types.ExprString(lsel.X) + ".ID"
				okP := true
				got := ""
				for _, a := range parentArg[child] {
					if types.ExprString(ast.Unparen(a)) != want {
						okP = false
						got = types.ExprString(a)
					}
				}
				c.Check(okP, r6, fmt.Sprintf("%s: %s is created with the parent it is hung under", shortKey(f.Key), cid.Name), as.Pos(), cid.Name+".newID("+want+")",
					fmt.Sprintf("%s is attached under %s.ChildrenIDs but created with newID(%s): its ParentID names another node, so stepping out of it asks that node for a child it does not hold - forward scans stop early, backward scans and later splits index out of range", cid.Name, types.ExprString(lsel.X), got), nil)
				return true
			})
		}
		c.Check(nSites >= 4, r6, "child attachment sites with locally created nodes inventoried", token.NoPos, fmt.Sprintf("%d sites", nSites), fmt.Sprintf("only %d sites", nSites), nil)
	}
}
