package main

// C05 (unique stores never hold duplicate keys) and C06 (count equals number of items).

import (
	"fmt"
	"go/ast"
	"go/token"
	"go/types"
	"strings"
)

func init() {
	register("C05", propMeta{
		Explanation:  "Decides that every insertion path of the B-tree runs the duplicate check and that competing first roots are forced to merge: (R1) who-may-call: the slot-insertion primitives Node.addOnLeaf and Node.addItemOnNodeWithNilChild are called only from Node.add, Node.add only from Btree.Add/AddItem, and Node.insertSlotItem only from addOnLeaf and the rebalancing helpers; AddIfNotExist and Upsert insert only through Btree.Add; (R2) in Node.add every path to an insertion primitive passes getIndexToInsertTo for the node it inserts into, the `exists` result leads only to `return false` and the insertion index is the one that search returned; getIndexToInsertTo returns compare(...)==0 as its second result on every path of its isUnique() branch; (R3) commitNewRootNodes refuses (returns false, forcing refetch-and-merge) when the registry already holds a handle for the root id, before it creates the new handle; (R4) the merge replays adds through Btree.AddItem (hence through Node.add) and a rejected add fails the merge; (R5) AddIfNotExist forces IsUnique for the duration of the add and restores it on every exit. (R6) commitUpdatedNodes compares every handle's version with the version the transaction read, unconditionally (shared with C02.R2): a stale writer is sent through refetch-and-merge, where the duplicate check applies.",
		DoesNotCover: "Interleavings of concurrent committers are not explored (the version checks they rely on are C02/C37); correctness of the binary search and of the comparer (C29/C30) is assumed.",
	}, runC05)
	register("C06", propMeta{
		Explanation:  "Decides the bookkeeping pairing behind the store count: (R1) in Btree.Add and Btree.AddItem StoreInfo.Count++ executes on exactly the paths that return (true, nil); in Btree.RemoveCurrentItem Count-- executes exactly once on every path on which a removal primitive succeeded and that does not return an error, and on no other path; no other function of package btree writes Count; (R2) the committed delta is Count minus the count seen at open (getCommitStoresInfo), the rollback delta is the same operands swapped (getRollbackStoresInfo), and fs.StoreRepository.Update adds the caller's delta to the freshly read count of the same store under the store lock (shared with C13.R3); (R3) the refetch-and-merge closure resets both StoreInfo.Count and the count-at-open baseline from the same freshly read store record before replaying, and the only other writer of the baseline is the constructor; (R4) rollback applies the reverse delta only when the commit had passed the commitStoreInfo step and never to stores this transaction created. (R5) positional pairing of rollback store infos and backends; (R6) in fs.StoreRepository.Update and its undo closure the record put into the cache after a write is the record that was written; (R7) the count delta a dead transaction's log replay must subtract is carried by an encoded field of the log record (StoreInfo.CountDelta itself is excluded from JSON). (R8) the window between writing the store counts and logging the next step must be covered by recovery (known finding F36). (R9) transactionLog.log advances committedState on every path, also when the backend rejects the record: the live rollback reverses the count under committedState > commitStoreInfo, and the count is applied before the next step is logged (shared with C07.R9).",
		DoesNotCover: "The arithmetic outcome of concurrent merges and the Cassandra StoreRepository sibling are not decided; that every structural operation keeps the number of occupied slots equal to Count is C17's (undecided) territory.",
	}, runC06)
}

func callerSetCheck(c *Ctx, rule, callee string, allowed ...string) {
	w := c.W
	f := w.Fn(callee)
	got := callersOf(w, callee)
	var extra []string
	for _, g := range got {
		if !contains(allowed, g) {
			extra = append(extra, g)
		}
	}
	c.Check(len(extra) == 0 && len(got) > 0, rule, "callers of "+shortKey(callee)+" are within {"+strings.Join(shortKeys(allowed), ", ")+"}", f.Decl.Pos(),
		fmt.Sprintf("callers: %v", shortKeys(got)), fmt.Sprintf("called from outside the duplicate-checked insertion path: %v (all callers %v)", shortKeys(extra), shortKeys(got)), nil)
}

func shortKeys(xs []string) []string {
	out := make([]string, len(xs))
	for i, x := range xs {
		out[i] = shortKey(x)
	}
	return out
}

func runC05(c *Ctx) {
	w := c.W
	const (
		kAdd      = "btree.Btree.Add"
		kNodeAdd  = "btree.Node.add"
		kOnLeaf   = "btree.Node.addOnLeaf"
		kNilChild = "btree.Node.addItemOnNodeWithNilChild"
		kInsert   = "btree.Node.insertSlotItem"
		kIndex    = "btree.Node.getIndexToInsertTo"
		kIsUnique = "btree.Btree.isUnique"
		kCompare  = "btree.Btree.compare"
	)
	r1 := c.Rule("R1", "slot-insertion primitives are reachable only through the duplicate-checked Node.add", 6)
	callerSetCheck(c, r1, kOnLeaf, kNodeAdd)
	callerSetCheck(c, r1, kNilChild, kNodeAdd)
	callerSetCheck(c, r1, kNodeAdd, kAdd, kB3AddItem)
	callerSetCheck(c, r1, kInsert, kOnLeaf, "btree.Node.distributeToLeft", "btree.Node.distributeToRight", "btree.Node.promote")
	// AddIfNotExist / Upsert insert only through Add
	for _, k := range []string{"btree.Btree.AddIfNotExist", "btree.Btree.Upsert"} {
		f := w.Fn(k)
		c.Analysed(f)
		var direct []string
		for _, cs := range w.AllSites(f) {
			if cs.Key == kNodeAdd || cs.Key == kOnLeaf || cs.Key == kNilChild || cs.Key == kInsert {
				direct = append(direct, cs.Key)
			}
		}
		reaches := w.Reaches(f, keyIn(kAdd))
		c.Check(len(direct) == 0 && reaches, r1, shortKey(k)+" inserts through Btree.Add only", f.Decl.Pos(), "delegates to Add", fmt.Sprintf("bypasses Btree.Add (direct primitive calls %v, reaches Add: %v)", direct, reaches), nil)
	}

	r2 := c.Rule("R2", "Node.add: search-then-insert on the same node with the index the search returned; an existing key leads only to `return false`; the unique branch of getIndexToInsertTo reports equality", 7)
	{
		f := w.Fn(kNodeAdd)
		g := w.G(f)
		c.Analysed(f)
		info := f.Pkg.TypesInfo
		idx := g.callNodes(kIndex)
		c.Check(len(idx) == 1, r2, "add: one getIndexToInsertTo search per visited node", f.Decl.Pos(), "one call in the descent loop", fmt.Sprintf("found %d", len(idx)), nil)
		if len(idx) == 1 {
			ins := calls(kOnLeaf, kNilChild)
			offs := g.MustPrecede(calls(kIndex), ins)
			c.Offences(g, offs, r2, "add: every insertion is preceded by the search", f.Decl.Pos(), "getIndexToInsertTo precedes addOnLeaf/addItemOnNodeWithNilChild on every path", "an item can be inserted without searching the node for an equal key")
			idxVar := g.lhsVarOfCall(idx[0].n, idx[0].cs, 0)
			exVar := g.lhsVarOfCall(idx[0].n, idx[0].cs, 1)
			c.Check(idxVar != nil && exVar != nil, r2, "add: both results of the search are bound", idx[0].cs.Call.Pos(), "index, exists := ...", "the `exists` result of getIndexToInsertTo is discarded", nil)
			if idxVar != nil && exVar != nil {
				exC := g.condNodes(func(e ast.Expr) bool { id, ok := e.(*ast.Ident); return ok && info.Uses[id] == exVar })
				okEx := len(exC) >= 1
				if okEx {
					// the first thing after the search is the test of `exists`
					offs := g.MustFollow([]*GNode{idx[0].n}, nodeSet(exC), or(ins, isReturn, func(n *GNode) bool { return n == idx[0].n }))
					okEx = len(offs) == 0
				}
				c.Check(okEx, r2, "add: the `exists` result is tested before anything is inserted", idx[0].cs.Call.Pos(), "tested right after the search", "the `exists` result is not tested on every path from the search to an insertion", nil)
				r := g.Reach(branchStarts(exC, 1), isReturn, nil)
				var offs []Offence
				for _, x := range g.Nodes {
					if !r.Seen[x.ID] {
						continue
					}
					if ins(x) || x == idx[0].n || (x.Ret != nil && (len(x.Ret.Results) != 2 || !isBoolLit(info, x.Ret.Results[0], false))) {
						offs = append(offs, Offence{x, r.Path(x.ID)})
					}
				}
				c.Offences(g, offs, r2, "add: an existing equal key only returns false", f.Decl.Pos(), "the exists edge reaches `return false, nil` only", "after finding an equal key in a unique store the add can still insert or report success")
				// insertion index is the searched index; receiver is the searched node
				recvOf := func(call *ast.CallExpr) string {
					if sel, ok := call.Fun.(*ast.SelectorExpr); ok {
						return types.ExprString(sel.X)
					}
					return ""
				}
				for _, k := range []string{kOnLeaf, kNilChild} {
					for _, nc := range g.callNodes(k) {
						args := nc.cs.Call.Args
						last := args[len(args)-1]
						id, _ := ast.Unparen(last).(*ast.Ident)
						okI := id != nil && info.Uses[id] == idxVar && recvOf(nc.cs.Call) == recvOf(idx[0].cs.Call)
						c.Check(okI, r2, "add: "+shortKey(k)+" inserts into the searched node at the searched index", nc.cs.Call.Pos(), "same receiver, index from getIndexToInsertTo", "insertion does not use the node/index that was checked for an equal key", nil)
					}
				}
			}
		}
		// getIndexToInsertTo
		fi := w.Fn(kIndex)
		gi := w.G(fi)
		c.Analysed(fi)
		ii := fi.Pkg.TypesInfo
		uq := gi.condNodes(func(e ast.Expr) bool { return w.mentionsCall(fi, e, kIsUnique) })
		c.Check(len(uq) == 1, r2, "getIndexToInsertTo: isUnique branch present", fi.Decl.Pos(), "one", fmt.Sprintf("found %d", len(uq)), nil)
		if len(uq) == 1 {
			r := gi.Reach(branchStarts(uq, 1), isReturn, nil)
			n := 0
			var offs []Offence
			for _, x := range gi.Nodes {
				if !r.Seen[x.ID] || x.Ret == nil {
					continue
				}
				n++
				ok := false
				if len(x.Ret.Results) == 2 {
					if be, isBE := ast.Unparen(x.Ret.Results[1]).(*ast.BinaryExpr); isBE && be.Op == token.EQL && w.mentionsCall(fi, be.X, kCompare) {
						if lit, isLit := ast.Unparen(be.Y).(*ast.BasicLit); isLit && lit.Value == "0" {
							sig := fi.Obj.Type().(*types.Signature)
							ok = mentionsObj(ii, be.X, sig.Params().At(1)) && mentionsObj(ii, be.X, w.Field("btree", "Node", "Slots"))
						}
					}
				}
				if !ok {
					offs = append(offs, Offence{x, r.Path(x.ID)})
				}
			}
			c.Check(n >= 1, r2, "getIndexToInsertTo: unique branch returns", fi.Decl.Pos(), fmt.Sprintf("%d return(s)", n), "no return on the unique branch", nil)
			c.Offences(gi, offs, r2, "getIndexToInsertTo: unique stores report whether an equal key sits at the position", fi.Decl.Pos(), "second result is compare(slot key, item key) == 0", "in a unique store the search can report `not found` without comparing the neighbouring slot with the new key")
			// non-unique edge never reports exists=true... and the only early exit before the isUnique test is the empty node
			pre := gi.Reach([]int{gi.Entry}, nodeSet(uq), nil)
			var offs2 []Offence
			for _, x := range gi.Nodes {
				if pre.Seen[x.ID] && x.Ret != nil {
					cn := gi.condNodes(func(e ast.Expr) bool {
						be, ok := e.(*ast.BinaryExpr)
						return ok && be.Op == token.EQL && mentionsObj(ii, be.X, w.Field("btree", "Node", "Count"))
					})
					if len(cn) != 1 || len(gi.notOnlyVia(cn, 1, func(n *GNode) bool { return n == x })) != 0 {
						offs2 = append(offs2, Offence{x, pre.Path(x.ID)})
					}
				}
			}
			c.Offences(gi, offs2, r2, "getIndexToInsertTo: the only exit before the uniqueness test is the empty node", fi.Decl.Pos(), "early return only for Count == 0", "the search can return before the uniqueness test for a non-empty node")
		}
	}

	r3 := c.Rule("R3", "commitNewRootNodes returns false when the registry already has a handle for the root id, before creating the new handle", 3)
	{
		f := w.Fn(kNRBcommitNewRoot)
		g := w.G(f)
		c.Analysed(f)
		info := f.Pkg.TypesInfo
		logical := w.Field("sop", "Handle", "LogicalID")
		chk := g.condNodes(func(e ast.Expr) bool {
			return w.mentionsCall(f, e, "sop.UUID.IsNil") && mentionsObj(info, e, logical)
		})
		c.Check(len(chk) == 1, r3, "commitNewRootNodes: existing-root test present", f.Decl.Pos(), "one `LogicalID.IsNil()` test", fmt.Sprintf("found %d", len(chk)), nil)
		if len(chk) == 1 {
			// which edge means "exists"? the test is `!IsNil()` expanded to leaf `IsNil()`: false edge = exists
			existsEdge := 2
			r := g.Reach(branchStarts(chk, existsEdge), isReturn, nil)
			var offs []Offence
			for _, x := range g.Nodes {
				if !r.Seen[x.ID] {
					continue
				}
				if x.RangeHead != nil || x.Exit || (x.Ret != nil && (len(x.Ret.Results) != 3 || !isBoolLit(info, x.Ret.Results[0], false))) {
					offs = append(offs, Offence{x, r.Path(x.ID)})
				}
			}
			c.Offences(g, offs, r3, "commitNewRootNodes: an existing root handle returns false", chk[0].Ast.Pos(), "the exists edge reaches only `return false, ...`", "a root that another transaction already registered does not force the refetch-and-merge (two roots for one store: duplicate keys possible)")
			// the new handle is created only after the test, within the same iteration
			newH := g.Find(func(n *GNode) bool { return len(n.Calls) > 0 && calls("sop.NewHandle")(n) })
			c.Check(len(newH) >= 1, r3, "commitNewRootNodes: new handle creation site", f.Decl.Pos(), fmt.Sprintf("%d", len(newH)), "no sop.NewHandle call", nil)
			for _, nh := range newH {
				h := enclosingRangeHead(g, nh)
				ok := h != nil && enclosingRangeHead(g, chk[0]) == h && !g.Reach(bodyStarts(h), nodeSet(chk), nil).Seen[nh.ID]
				c.Check(ok, r3, "commitNewRootNodes: handle created only after the existing-root test of the same id", nh.Ast.Pos(), "test precedes NewHandle in the iteration", "a new root handle can be created without testing the registry entry of that id", nil)
			}
			// registry.Get result feeds the test
			gets := g.callNodes(kRegGet)
			okGet := len(gets) == 1
			if okGet {
				hv := g.lhsVarOfCall(gets[0].n, gets[0].cs, 0)
				okGet = hv != nil && mentionsObj(info, chk[0].Ast, hv)
			}
			c.Check(okGet, r3, "commitNewRootNodes: the tested handle comes from registry.Get", f.Decl.Pos(), "handles := registry.Get(...)", "the test does not look at what the registry returned", nil)
		}
	}

	r4 := c.Rule("R4", "the commit-time merge replays adds through Btree.AddItem and a rejected replay fails the merge", 6)
	mergeRules(c, r4)

	r5 := c.Rule("R5", "AddIfNotExist forces IsUnique while adding and restores it on every exit", 3)
	{
		f := w.Fn("btree.Btree.AddIfNotExist")
		g := w.G(f)
		info := f.Pkg.TypesInfo
		uq := w.Field("sop", "StoreInfo", "IsUnique")
		var setTrue, restore []*GNode
		for _, n := range g.Nodes {
			as, ok := n.Ast.(*ast.AssignStmt)
			if !ok || len(as.Lhs) != 1 || len(as.Rhs) != 1 || fieldOfSelector(info, as.Lhs[0]) != uq {
				continue
			}
			if isBoolLit(info, as.Rhs[0], true) {
				setTrue = append(setTrue, n)
			} else if id, ok := ast.Unparen(as.Rhs[0]).(*ast.Ident); ok {
				ds := localDefs(f)[info.Uses[id]]
				if len(ds) == 1 && fieldOfSelector(info, ds[0]) == uq {
					restore = append(restore, n)
				}
			}
		}
		c.Check(len(setTrue) == 1, r5, "AddIfNotExist: IsUnique forced to true", f.Decl.Pos(), "one assignment", fmt.Sprintf("found %d", len(setTrue)), nil)
		offs := g.MustPrecede(nodeSet(setTrue), calls("btree.Btree.Add"))
		c.Offences(g, offs, r5, "AddIfNotExist: Add runs with IsUnique forced", f.Decl.Pos(), "forced before Add", "Add can run without the uniqueness flag")
		offs = g.MustFollow(setTrue, nodeSet(restore), isExit)
		c.Offences(g, offs, r5, "AddIfNotExist: the saved flag is restored on every exit", f.Decl.Pos(), "restored from the saved value", "an exit leaves IsUnique forced to true (or never restores the saved value)")
	}

	r6 := c.Rule("R6", "a writer holding a stale copy of a leaf never installs it: commitUpdatedNodes compares every handle's version with the version of the node the transaction read, unconditionally, and reports a conflict on a mismatch - the conflict is what sends the writer through refetch-and-merge, where the replayed add meets the duplicate check (shared with C02.R2)", 3)
	versionLoopRule(c, r6, kNRBcommitUpdated, true)

}

func runC06(c *Ctx) {
	w := c.W
	cnt := w.Field("sop", "StoreInfo", "Count")
	r1 := c.Rule("R1", "Count++ / Count-- execute on exactly the successful add / remove paths", 12)
	stepOf := func(g *Graph, tok token.Token) NPred {
		info := g.F.Pkg.TypesInfo
		return func(n *GNode) bool {
			s, ok := n.Ast.(*ast.IncDecStmt)
			return ok && s.Tok == tok && fieldOfSelector(info, s.X) == cnt
		}
	}
	for _, k := range []string{"btree.Btree.Add", kB3AddItem} {
		f := w.Fn(k)
		g := w.G(f)
		c.Analysed(f)
		info := f.Pkg.TypesInfo
		incr := stepOf(g, token.INC)
		okRet := func(n *GNode) bool {
			return n.Ret != nil && len(n.Ret.Results) == 2 && isBoolLit(info, n.Ret.Results[0], true) && g.ClassifyReturn(n) == RetNil
		}
		nInc := len(g.Find(incr))
		c.Check(nInc == 1, r1, shortKey(k)+": one Count++", f.Decl.Pos(), "one increment", fmt.Sprintf("found %d increments", nInc), nil)
		offs := g.MustPrecede(incr, okRet)
		c.Offences(g, offs, r1, shortKey(k)+": success implies Count++", f.Decl.Pos(), "every `return true, nil` is preceded by Count++", "an item can be added (true, nil) without counting it")
		r := g.Reach(func() []int {
			var s []int
			for _, n := range g.Find(incr) {
				s = append(s, g.after(n)...)
			}
			return s
		}(), nil, nil)
		offs = nil
		for _, x := range g.Nodes {
			if r.Seen[x.ID] && ((x.Ret != nil && !okRet(x)) || incr(x)) {
				offs = append(offs, Offence{x, r.Path(x.ID)})
			}
		}
		c.Offences(g, offs, r1, shortKey(k)+": Count++ only on the success path", f.Decl.Pos(), "after Count++ only `return true, nil` is reachable", "Count is incremented on a path that reports failure (or twice)")
		// the increment is reachable only after node.add reported true
		adds := g.callNodes("btree.Node.add")
		okAdd := len(adds) == 1
		if okAdd {
			starts, tested := g.failStartsOfBoolErrCall(adds[0].n, adds[0].cs)
			okAdd = tested
			if tested {
				fr := g.Reach(starts, nil, nil)
				for _, x := range g.Find(incr) {
					if fr.Seen[x.ID] {
						okAdd = false
					}
				}
			}
		}
		c.Check(okAdd, r1, shortKey(k)+": a rejected insert (duplicate key) is not counted", f.Decl.Pos(), "Count++ unreachable from the !ok edge of node.add", "Count++ reachable although node.add rejected the item", nil)
	}
	{
		f := w.Fn(kB3RemoveCur)
		g := w.G(f)
		c.Analysed(f)
		decr := stepOf(g, token.DEC)
		nDec := len(g.Find(decr))
		c.Check(nDec >= 1, r1, "RemoveCurrentItem: Count-- sites", f.Decl.Pos(), fmt.Sprintf("%d", nDec), "no decrement", nil)
		prim := []string{"btree.Node.removeItemOnNodeWithNilChild", "btree.Node.fixVacatedSlot"}
		offs := g.MustPrecede(calls(prim...), decr)
		c.Offences(g, offs, r1, "RemoveCurrentItem: Count-- only after a removal primitive ran", f.Decl.Pos(), "every decrement is preceded by removeItemOnNodeWithNilChild / fixVacatedSlot", "Count is decremented on a path that removed nothing")
		// from each primitive's success edge: every non-error return is preceded by exactly one decrement
		for _, k := range prim {
			for _, nc := range g.callNodes(k) {
				var succ []int
				construct := fmt.Sprintf("RemoveCurrentItem: successful %s #%d is counted exactly once", shortKey(k), ordinalOf(w, f, nc.cs))
				if k == prim[0] {
					okv := g.lhsVarOfCall(nc.n, nc.cs, 0)
					info := f.Pkg.TypesInfo
					// the edge on which ok is true: the true edge of a cond node that is the bare ident `ok`
					conds := g.condNodes(func(e ast.Expr) bool { id, isID := e.(*ast.Ident); return isID && okv != nil && info.Uses[id] == okv })
					// only tests of ok that are not part of `ok || err != nil` fall-through: take all; the || form
					// leads to the inner `if ok` anyway
					for _, cn := range conds {
						if g.canReach(nc.n.ID, cn.ID) {
							succ = append(succ, branchStarts([]*GNode{cn}, 1)...)
						}
					}
					if len(succ) == 0 {
						c.Violated(r1, construct, nc.cs.Call.Pos(), "the ok result is not tested", nil)
						continue
					}
					// path sensitivity on ok: starting on the true edge, ok stays true
					bt := g.trackBools(okv)
					init := bt.initial()
					init = setAt(init, 0, 'T')
					ar := bt.Reach(succ, init, decr)
					var offs []Offence
					for _, x := range g.Nodes {
						if ar.Node(x.ID) && x.Ret != nil && !decr(x) && g.ClassifyReturn(x) != RetNonNil {
							offs = append(offs, Offence{x, ar.Path(x.ID)})
						}
					}
					c.Offences(g, offs, r1, construct, nc.cs.Call.Pos(), "every non-error return after a successful removal passes Count--", "an item is removed from a node but the store count is not decremented")
				} else {
					_, s, ok := g.ErrBranches(nc.n, nc.cs)
					if !ok {
						c.Violated(r1, construct, nc.cs.Call.Pos(), "error result not tested", nil)
						continue
					}
					offs := g.MustFollowFrom(s, decr, isReturn)
					c.Offences(g, offs, r1, construct, nc.cs.Call.Pos(), "Count-- precedes the return", "an item is removed from a leaf but the store count is not decremented")
				}
			}
		}
		// at most one decrement per path
		offs = nil
		for _, d := range g.Find(decr) {
			r := g.Reach(g.after(d), nil, nil)
			for _, x := range g.Find(decr) {
				if r.Seen[x.ID] {
					offs = append(offs, Offence{x, r.Path(x.ID)})
				}
			}
		}
		c.Offences(g, offs, r1, "RemoveCurrentItem: at most one Count-- per call", f.Decl.Pos(), "no decrement reachable after another", "Count can be decremented twice for one removal")
	}
	// writers of StoreInfo.Count inside package btree
	{
		var writers []string
		for _, f := range w.declaredFuncs("btree") {
			for _, ws := range w.writesOf(f, cnt, true) {
				_ = ws
				writers = append(writers, f.Key)
				break
			}
		}
		sortStrings(writers)
		writers = dedup(writers)
		c.Check(sameSet(writers, "btree.Btree.Add", kB3AddItem, kB3RemoveCur), r1, "package btree: writers of StoreInfo.Count", token.NoPos, fmt.Sprintf("%v", shortKeys(writers)), fmt.Sprintf("unexpected writer set %v (expected Add, AddItem, RemoveCurrentItem)", shortKeys(writers)), nil)
	}

	r2 := c.Rule("R2", "commit delta = Count - countAtOpen, rollback delta = countAtOpen - Count, and the repository adds the delta to the freshly read count of the same store under its lock", 8)
	base := w.Field("common", "nodeRepositoryBackend", "count")
	delta := w.Field("sop", "StoreInfo", "CountDelta")
	deltaShape := func(fkey string, commit bool) {
		f := w.Fn(fkey)
		c.Analysed(f)
		info := f.Pkg.TypesInfo
		n := 0
		ok := false
		ast.Inspect(f.Body, func(x ast.Node) bool {
			as, isAs := x.(*ast.AssignStmt)
			if !isAs || len(as.Lhs) != 1 || len(as.Rhs) != 1 || fieldOfSelector(info, as.Lhs[0]) != delta {
				return true
			}
			n++
			be, isBE := ast.Unparen(as.Rhs[0]).(*ast.BinaryExpr)
			if !isBE || be.Op != token.SUB {
				return true
			}
			l, r := fieldOfSelector(info, be.X), fieldOfSelector(info, be.Y)
			if commit {
				ok = l == cnt && r == base
			} else {
				ok = l == base && r == cnt
			}
			// both operands belong to the same backend index: s2 is a copy of t.btreesBackend[i].getStoreInfo()
			return true
		})
		want := "Count - countAtOpen"
		if !commit {
			want = "countAtOpen - Count"
		}
		c.Check(n == 1 && ok, r2, shortKey(fkey)+": CountDelta = "+want, f.Decl.Pos(), "delta computed from the two counters", fmt.Sprintf("CountDelta is not computed as %s (assignments found: %d)", want, n), nil)
		// the store copy and the baseline come from the same backend element
		okIdx := false
		ast.Inspect(f.Body, func(x ast.Node) bool {
			rs, isR := x.(*ast.RangeStmt)
			if !isR {
				return true
			}
			var idxs []string
			ast.Inspect(rs.Body, func(y ast.Node) bool {
				if ix, isIx := y.(*ast.IndexExpr); isIx && fieldOfSelector(info, ix.X) == w.Field("common", "Transaction", "btreesBackend") {
					idxs = append(idxs, types.ExprString(ix.Index))
				}
				return true
			})
			sortStrings(idxs)
			idxs = dedup(idxs)
			okIdx = len(idxs) == 1
			return false
		})
		c.Check(okIdx, r2, shortKey(fkey)+": both counters belong to the same store", f.Decl.Pos(), "one backend index per iteration", "the count and its baseline are taken from different backends", nil)
	}
	deltaShape("common.Transaction.getCommitStoresInfo", true)
	deltaShape("common.Transaction.getRollbackStoresInfo", false)
	{
		f := w.Fn(kTxCommitStores)
		g := w.G(f)
		c.Analysed(f)
		ok := len(g.callNodes("common.Transaction.getCommitStoresInfo")) == 1 && len(g.callNodes(kSRUpdate)) == 1
		if ok {
			up := g.callNodes(kSRUpdate)[0]
			sv := g.lhsVarOfCall(g.callNodes("common.Transaction.getCommitStoresInfo")[0].n, g.callNodes("common.Transaction.getCommitStoresInfo")[0].cs, 0)
			ok = sv != nil && len(up.cs.Call.Args) == 2 && mentionsObj(f.Pkg.TypesInfo, up.cs.Call.Args[1], sv)
		}
		c.Check(ok, r2, "commitStores: persists exactly the computed deltas", f.Decl.Pos(), "StoreRepository.Update(getCommitStoresInfo())", "commitStores does not hand the computed deltas to StoreRepository.Update", nil)
	}
	countMergeRule(c, r2)

	r3 := c.Rule("R3", "refetch-and-merge resets StoreInfo.Count and the count-at-open baseline from the same freshly read record before the replay; the baseline has no other writer but the constructor", 4)
	{
		var f *Func
		for _, l := range w.Fn("common.refetchAndMergeClosure").lits {
			f = l
			break
		}
		if f == nil {
			panic(undecided{"refetchAndMergeClosure no longer returns a function literal"})
		}
		g := w.G(f)
		c.Analysed(f)
		info := f.Pkg.TypesInfo
		// direct assignments in the closure
		var cntAs, baseAs []*GNode
		for _, n := range g.Nodes {
			as, ok := n.Ast.(*ast.AssignStmt)
			if !ok || len(as.Lhs) != len(as.Rhs) {
				continue
			}
			for _, l := range as.Lhs {
				switch fieldOfSelector(info, l) {
				case cnt:
					cntAs = append(cntAs, n)
				case base:
					baseAs = append(baseAs, n)
				}
			}
		}
		// or through a helper called from the closure (depth <= 2)
		writesVia := func(obj types.Object) bool {
			return w.Reaches(f, func(cs *CallSite) bool {
				cf := w.CalleeFunc(cs)
				return cf != nil && len(w.writesOf(cf, obj, false)) > 0
			})
		}
		hasCnt := len(cntAs) > 0 || writesVia(cnt)
		hasBase := len(baseAs) > 0 || writesVia(base)
		c.Check(hasCnt, r3, "refetchAndMerge: StoreInfo.Count is reset from the store repository", f.Lit.Pos(), "reset present", "the merge replays onto a stale Count", nil)
		c.Check(hasBase, r3, "refetchAndMerge: the count-at-open baseline is reset together with Count", f.Lit.Pos(), "baseline reset present",
			"the merge resets StoreInfo.Count to the latest persisted count but keeps the old count-at-open baseline: the committed CountDelta then includes other transactions' deltas a second time", nil)
		if len(cntAs) == 1 && len(baseAs) == 1 {
			rhs := func(n *GNode, fld *types.Var) string {
				as := n.Ast.(*ast.AssignStmt)
				for i, l := range as.Lhs {
					if fieldOfSelector(info, l) == fld {
						return types.ExprString(as.Rhs[i])
					}
				}
				return ""
			}
			same := rhs(cntAs[0], cnt) == rhs(baseAs[0], base)
			get := g.callNodes("sop.StoreRepository.GetWithTTL")
			fromRepo := len(get) == 1
			if fromRepo {
				sv := g.lhsVarOfCall(get[0].n, get[0].cs, 0)
				fromRepo = sv != nil && mentionsObj(info, cntAs[0].Ast.(*ast.AssignStmt).Rhs[0], sv)
			}
			c.Check(same && fromRepo, r3, "refetchAndMerge: both are assigned the same freshly read count", cntAs[0].Ast.Pos(), "same source expression, read through StoreRepository.GetWithTTL", "Count and its baseline are reset from different sources", nil)
			// before the replay loop
			var head *GNode
			for _, n := range g.Nodes {
				if n.RangeHead != nil && head == nil {
					head = n
				}
			}
			okBefore := head != nil
			if okBefore {
				for _, a := range []*GNode{cntAs[0], baseAs[0]} {
					if len(g.MustPrecede(func(n *GNode) bool { return n == a }, func(n *GNode) bool { return n == head })) != 0 {
						okBefore = false
					}
				}
			}
			c.Check(okBefore, r3, "refetchAndMerge: the reset precedes the replay", cntAs[0].Ast.Pos(), "both assignments dominate the replay loop", "actions are replayed before the counters are reset", nil)
		}
		// writers of the baseline across package common
		var ws []string
		for _, fn := range w.declaredFuncs("common") {
			if len(w.writesOf(fn, base, true)) > 0 {
				ws = append(ws, fn.Key)
			}
		}
		sortStrings(ws)
		ws = dedup(ws)
		okW := true
		for _, k := range ws {
			if k != "common.refetchAndMergeClosure" && k != "common.newNodeRepository" && !strings.HasPrefix(k, "common.refetchAndMergeClosure$") {
				// helpers reachable from the closure are acceptable
				if !w.Reaches(f, keyIn(k)) {
					okW = false
				}
			}
		}
		c.Check(okW && len(ws) >= 1, r3, "package common: writers of the count-at-open baseline", token.NoPos, fmt.Sprintf("%v", shortKeys(ws)), fmt.Sprintf("unexpected writers %v", shortKeys(ws)), nil)
	}

	r4 := c.Rule("R4", "rollback applies the reverse delta only past commitStoreInfo and never to stores this transaction created", 3)
	{
		f := w.Fn(kTxrb)
		g := w.G(f)
		c.Analysed(f)
		info := f.Pkg.TypesInfo
		step := w.Object("common", "commitStoreInfo")
		state := w.Field("common", "transactionLog", "committedState")
		guard := g.condNodes(func(e ast.Expr) bool {
			be, ok := e.(*ast.BinaryExpr)
			return ok && be.Op == token.GTR && fieldOfSelector(info, be.X) == state && mentionsObj(info, be.Y, step)
		})
		up := calls(kSRUpdate)
		c.Check(len(guard) == 1 && len(g.Find(up)) == 1, r4, "rollback: reverse-delta block present", f.Decl.Pos(), "one `committedState > commitStoreInfo` guard and one StoreRepository.Update", "guard or Update call missing", nil)
		offs := g.notOnlyVia(guard, 1, up)
		c.Offences(g, offs, r4, "rollback: StoreRepository.Update only when the store counts were committed", f.Decl.Pos(), "Update reachable only through committedState > commitStoreInfo", "counts are reversed although commitStores did not complete (count drifts down)")
		created := w.Field("common", "btreeBackend", "created")
		cr := g.condNodes(func(e ast.Expr) bool { return fieldOfSelector(info, e) == created })
		var rb *GNode
		for _, nc := range g.callNodes("common.Transaction.getRollbackStoresInfo") {
			rb = nc.n
		}
		okC := rb != nil && len(cr) >= 1
		if okC {
			// the slice handed to Update is appended to only on the !created edge
			up1 := g.Find(up)[0]
			var upArg *types.Var
			for _, cs := range up1.Calls {
				if cs.Key == kSRUpdate {
					upArg = argIdentVar(info, cs.Call, 1)
				}
			}
			okC = upArg != nil
			if okC {
				apps := g.Find(func(n *GNode) bool { return g.assigns(n, upArg) && calls("builtin.append")(n) })
				okC = len(apps) >= 1
				for _, a := range apps {
					r := g.Reach(branchStarts(cr, 1), func(x *GNode) bool { return x.RangeHead != nil }, nil)
					if r.Seen[a.ID] {
						okC = false
					}
				}
			}
		}
		c.Check(okC, r4, "rollback: stores created by this transaction are skipped", f.Decl.Pos(), "append only on the !created edge", "the reverse delta is applied to a store this transaction created (it is removed instead)", nil)
	}
	r5 := c.Rule("R5", "positional pairing: rollback pairs rollbackStoresInfo[i] with t.btreesBackend[i] (the created flag), so getRollbackStoresInfo returns exactly one element per backend, in backend order: a make([]T, len(t.btreesBackend)) filled by stores[i] = ... on every iteration of a range over t.btreesBackend, never a filtered append", 3)
	positionalPairingRule(c, r5)
	r6 := c.Rule("R6", "the count a later transaction starts from is the count on disk: in fs.StoreRepository.Update and its undo closure every successful storeinfo write is followed by a cache refresh with the very record that was written (shared with C20.R4)", 6)
	updateCacheCoherenceRule(c, r6)
	r7 := c.Rule("R7", "the count delta a dead transaction's log replay must subtract survives the log encoding: StoreInfo.CountDelta is excluded from JSON (json:\"-\"), so the store infos the replay hands to StoreRepository.Update must get their CountDelta from a field of the payload that is encoded - not from decoding the payload straight into []sop.StoreInfo", 3)
	replayDeltaRule(c, r7)
	r8 := c.Rule("R8", "the window between writing the store counts and logging the next step is covered by recovery: commitStores runs strictly between log(commitStoreInfo) and log(beforeFinalize), and counts (unlike staged nodes) are visible without the commit point, so the replay of a log that ENDS with commitStoreInfo must be able to reverse what was applied - a strict `last > commitStoreInfo` gate with nothing that tells applied from unapplied deltas cannot", 2)
	storeCountWindowRule(c, r8)
	r9 := c.Rule("R9", "the count reversal of a failed commit is gated by committedState > commitStoreInfo, so the marker must advance when the log write of the next step is attempted, not only when it succeeds: transactionLog.log assigns committedState = f on every path (shared with C07.R9)", 2)
	stepMarkerRule(c, r9)

}

// positionalPairingRule (C06.R5 = C01.R9).
func positionalPairingRule(c *Ctx, r5 string) {
	w := c.W
	fr := w.Fn(kTxrb)
	gr := w.G(fr)
	info := fr.Pkg.TypesInfo
	backends := w.Field("common", "Transaction", "btreesBackend")
	// 1. the pairing site: a range over the result of getRollbackStoresInfo whose body indexes t.btreesBackend with the range key
	var producer *Func
	paired := false
	ast.Inspect(fr.Body, func(x ast.Node) bool {
		rs, ok := x.(*ast.RangeStmt)
		if !ok || rs.Key == nil {
			return true
		}
		kid, ok := rs.Key.(*ast.Ident)
		if !ok {
			return true
		}
		kobj := info.Defs[kid]
		xid, ok := ast.Unparen(rs.X).(*ast.Ident)
		if !ok {
			return true
		}
		var prod *Func
		for _, nc := range gr.callNodes("common.Transaction.getRollbackStoresInfo") {
			if v := gr.lhsVarOfCall(nc.n, nc.cs, 0); v != nil && types.Object(v) == info.Uses[xid] {
				prod = w.Fn("common.Transaction.getRollbackStoresInfo")
			}
		}
		if prod == nil {
			return true
		}
		ast.Inspect(rs.Body, func(y ast.Node) bool {
			if ix, ok := y.(*ast.IndexExpr); ok && fieldOfSelector(info, ix.X) == backends && kobj != nil && mentionsObj(info, ix.Index, kobj) {
				paired = true
				producer = prod
			}
			return true
		})
		return true
	})
	if !paired {
		c.Held(r5, "rollback: rollback store infos are not paired with the backends by position", fr.Decl.Pos(), "no positional pairing found: nothing to require of the producer")
		c.Held(r5, "getRollbackStoresInfo: one element per backend", fr.Decl.Pos(), "not required")
		c.Held(r5, "getRollbackStoresInfo: filled by position", fr.Decl.Pos(), "not required")
		return
	}
	c.Held(r5, "rollback: rollback store infos are paired with the backends by position", fr.Decl.Pos(), "rollbackStoresInfo[i] <-> t.btreesBackend[i]")
	c.Analysed(producer)
	pinfo := producer.Pkg.TypesInfo
	// 2. the producer: result := make([]T, len(t.btreesBackend)); for i := range t.btreesBackend { ...; result[i] = v }; return result
	var res types.Object
	okMake := false
	ast.Inspect(producer.Body, func(x ast.Node) bool {
		as, ok := x.(*ast.AssignStmt)
		if !ok || len(as.Lhs) != 1 || len(as.Rhs) != 1 {
			return true
		}
		call, ok := ast.Unparen(as.Rhs[0]).(*ast.CallExpr)
		if !ok {
			return true
		}
		if id, ok := ast.Unparen(call.Fun).(*ast.Ident); ok && id.Name == "make" && len(call.Args) >= 2 {
			if lid, ok := ast.Unparen(as.Lhs[0]).(*ast.Ident); ok {
				if o := pinfo.Defs[lid]; o != nil {
					res = o
					if lc, ok := ast.Unparen(call.Args[1]).(*ast.CallExpr); ok && len(call.Args) == 2 && len(lc.Args) == 1 {
						if fid, ok := ast.Unparen(lc.Fun).(*ast.Ident); ok && fid.Name == "len" && fieldOfSelector(pinfo, lc.Args[0]) == backends {
							okMake = true
						}
					}
				}
			}
		}
		return true
	})
	c.Check(okMake, r5, "getRollbackStoresInfo: one element per backend", producer.Decl.Pos(), "make([]StoreInfo, len(t.btreesBackend))",
		"the result is not allocated with one element per backend: rollback pairs element i with t.btreesBackend[i].created, so a shorter (filtered) slice makes another store's created flag decide whether a store's count delta is reversed - an existing store keeps a failed transaction's delta", nil)
	gp := w.G(producer)
	okFill := false
	var pos token.Pos = producer.Decl.Pos()
	if res != nil {
		usesAppend := false
		for _, n := range gp.Nodes {
			if gp.assignsObj(n, res) && calls("builtin.append")(n) {
				usesAppend = true
				pos = n.Ast.Pos()
			}
		}
		// the indexed store inside a range over the backends, on every iteration
		for _, n := range gp.Nodes {
			as, ok := n.Ast.(*ast.AssignStmt)
			if !ok || len(as.Lhs) != 1 {
				continue
			}
			ix, ok := ast.Unparen(as.Lhs[0]).(*ast.IndexExpr)
			if !ok {
				continue
			}
			if id, ok := ast.Unparen(ix.X).(*ast.Ident); !ok || pinfo.Uses[id] != res {
				continue
			}
			head := enclosingRangeHead(gp, n)
			if head == nil || fieldOfSelector(pinfo, head.RangeHead.X) != backends {
				continue
			}
			var body []int
			for _, e := range head.Succs {
				if e.Cond == 1 {
					body = append(body, e.To)
				}
			}
			if len(gp.MustFollowFrom(body, func(x *GNode) bool { return x == n }, func(x *GNode) bool { return x == head || x.Exit })) == 0 {
				okFill = true
			}
		}
		if usesAppend {
			okFill = false
		}
	}
	c.Check(okFill, r5, "getRollbackStoresInfo: filled by position", pos, "stores[i] = ... on every iteration over t.btreesBackend, no append",
		"the result is built by (conditional) append or skips positions: element i no longer belongs to backend i", nil)
}

// replayDeltaRule (C06.R7 = C09.R6).
func replayDeltaRule(c *Ctx, r7 string) {
	w := c.W
	cd := w.Field("sop", "StoreInfo", "CountDelta")
	st, _ := w.Object("sop", "StoreInfo").Type().Underlying().(*types.Struct)
	tag := ""
	for i := 0; st != nil && i < st.NumFields(); i++ {
		if st.Field(i) == cd {
			tag = jsonTagName(st.Tag(i))
		}
	}
	// the repositories consume CountDelta
	consumed := false
	for _, k := range []string{"fs.StoreRepository.Update"} {
		f := w.Fn(k)
		if len(w.usesOf(f, cd, true)) > 0 {
			consumed = true
		}
		for _, l := range w.allLits(f) {
			if len(w.usesOf(l, cd, true)) > 0 {
				consumed = true
			}
		}
	}
	c.Check(consumed, r7, "StoreRepository.Update applies StoreInfo.CountDelta", token.NoPos, "the repository reads CountDelta", "fs.StoreRepository.Update no longer reads CountDelta (rule has nothing to decide)", nil)
	ft := w.Fn(kTLRollback)
	gt := w.G(ft)
	c.Analysed(ft)
	info := ft.Pkg.TypesInfo
	defs := localDefs(ft)
	n := 0
	for _, nc := range gt.callNodes(kSRUpdate) {
		if len(nc.cs.Call.Args) != 2 {
			continue
		}
		n++
		construct := "log replay: the store infos handed to StoreRepository.Update carry the logged count delta"
		// the producing call of the argument
		var prod *ast.CallExpr
		e := nc.cs.Call.Args[1]
		for depth := 0; depth < 4 && prod == nil; depth++ {
			switch x := ast.Unparen(e).(type) {
			case *ast.CallExpr:
				prod = x
			case *ast.Ident:
				ds := defs[info.Uses[x]]
				if len(ds) != 1 {
					depth = 4
					break
				}
				e = ds[0]
			default:
				depth = 4
			}
		}
		if prod == nil {
			c.Violated(r7, construct, nc.cs.Call.Pos(), "cannot find the call that decodes the payload", nil)
			continue
		}
		pcs := w.resolveCall(ft, prod)
		if pcs != nil && pcs.Key == "common.toStruct" {
			// decoded straight into the type argument: does it contain sop.StoreInfo with an unencoded CountDelta?
			rt := info.TypeOf(prod)
			direct := rt != nil && strings.Contains(rt.String(), "sop.StoreInfo") && !strings.Contains(rt.String(), "common.")
			c.Check(!(direct && (tag == "-")), r7, construct, nc.cs.Call.Pos(), "CountDelta is part of the encoding",
				"the payload is decoded straight into "+rt.String()+", and StoreInfo.CountDelta is tagged json:\"-\": the delta that phase1Commit put there is not in the log, Update adds 0, and after a crash between commitStores and the commit point the store's Count keeps the dead transaction's delta although its items are rolled back", nil)
			continue
		}
		// a decoding helper: it must assign CountDelta from the decoded payload
		var helper *Func
		if pcs != nil {
			helper = w.CalleeFunc(pcs)
		}
		okH := helper != nil && len(w.writesOf(helper, cd, true)) > 0 && w.Reaches(helper, keyIn("common.toStruct"))
		c.Check(okH, r7, construct, nc.cs.Call.Pos(), "the decoding helper restores CountDelta from an encoded field", "the helper that decodes the commitStoreInfo payload does not assign StoreInfo.CountDelta", nil)
		if helper != nil {
			c.Analysed(helper)
		}
	}
	c.Check(n == 1, r7, "log replay: one StoreRepository.Update call", ft.Decl.Pos(), "found", fmt.Sprintf("found %d", n), nil)
}

// storeCountWindowRule (C06.R8 = C09.R8).
func storeCountWindowRule(c *Ctx, r8 string) {
	w := c.W
	// 1. phase1Commit: the persistent count write lies between the two log records
	f1 := w.Fn(kTxp1)
	g1 := w.G(f1)
	c.Analysed(f1)
	step := w.Object("common", "commitStoreInfo")
	next := w.Object("common", "beforeFinalize")
	act := calls(kTxCommitStores)
	between := len(g1.MustPrecede(logCalls(g1, step), act)) == 0 && len(g1.MustFollow(g1.Find(act), logCalls(g1, next), func(n *GNode) bool {
		return n.Ret != nil && g1.ClassifyReturn(n) == RetNil
	})) == 0
	c.Check(between, r8, "phase1Commit: commitStores runs between log(commitStoreInfo) and log(beforeFinalize)", f1.Decl.Pos(), "log, write counts, log", "the count write is no longer bracketed by the two log records (rule has nothing to decide)", nil)
	// 2. the replay's gate for that record
	ft := w.Fn(kTLRollback)
	gt := w.G(ft)
	c.Analysed(ft)
	info := ft.Pkg.TypesInfo
	lastVar := w.localVar(ft, "lastCommittedFunctionLog")
	gates := stateGuards(w, gt, func(e ast.Expr) bool {
		id, ok := ast.Unparen(e).(*ast.Ident)
		return ok && lastVar != nil && info.Uses[id] == types.Object(lastVar)
	})
	var gate *stateGuard
	for i := range gates {
		if gates[i].k == step {
			gate = &gates[i]
		}
	}
	if gate == nil {
		c.Held(r8, "log replay: a log that ends with commitStoreInfo is not skipped", ft.Decl.Pos(), "no `lastCommittedFunctionLog OP commitStoreInfo` gate: the record is always replayed")
		return
	}
	// an applied-or-not discriminator: the gated block (or a callee) compares a stored Timestamp / version with a logged one
	discriminates := false
	ast.Inspect(ft.Body, func(x ast.Node) bool {
		if be, ok := x.(*ast.BinaryExpr); ok && (be.Op == token.EQL || be.Op == token.NEQ) {
			if strings.Contains(types.ExprString(be), "Timestamp") {
				discriminates = true
			}
		}
		return true
	})
	ok := holdsOpTok(gate.op) || discriminates
	c.Check(ok, r8, "log replay: a log that ends with commitStoreInfo is not skipped", gate.n.Ast.Pos(), "the gate admits last == commitStoreInfo (with a discriminator for applied deltas)",
		"the replay reverses the store counts only when a record later than commitStoreInfo exists (`lastCommittedFunctionLog "+gate.op.String()+" commitStoreInfo`): a writer that dies inside StoreRepository.Update (some stores written) or right after it (all written, beforeFinalize not yet logged) leaves a log ending with commitStoreInfo, the replay skips it and removes the log - the items are rolled back, Count() keeps the dead transaction's delta for good", nil)
}

func holdsOpTok(op token.Token) bool { return op == token.GEQ }
