package main

// C15: commits end within their time budget and never deadlock (loop guarding and lock discipline).

import (
	"fmt"
	"go/ast"
	"go/constant"
	"go/token"
	"go/types"
	"sort"
	"strings"
)

func init() {
	register("C15", propMeta{
		Explanation:  "Decides loop guarding and lock discipline, not wall-clock numbers: (R1) every wait loop of packages sop, common, fs and cache (a `for` loop whose body, through static callees up to depth 2, sleeps) passes on every cycle a deadline check (sop.TimedOut / Transaction.timedOut / ctx.Err) whose failure edge leaves the loop through an error return, or is a counted loop with a constant bound; the wait loops are enumerated from the code and must number at least the six confirmed by hand; (R2) the deadline is min(caller's context, transaction maximum): Transaction.timedOut delegates to sop.TimedOut with t.maxTime, sop.TimedOut fails on ctx.Err() and on elapsed > maxTime, and the constructor clamps maxTime into (0, 1h]; (R3) no hold-and-wait: no L2 lock acquisition (Lock / DualLock of the in-memory and Redis services) sleeps or loops waiting - they are try-locks - and a failed node-key lock attempt in phase1Commit releases before sleeping (shared with C07.R3); (R4) a transaction that gives up releases its locks: rollback releases node-key locks on every path and item locks once they may have been taken (shared with C07.R3); (R5) locks are TTL-bounded: every Lock / DualLock call site in common and fs passes a duration that is a positive constant or the clamped t.maxTime (or a parameter fed only by such), and the in-memory Lock replaces a non-positive duration. (R6) rollback releases item locks only when committedState >= lockTrackedItems and every rollback rewinds that state, so phase1Commit logs lockTrackedItems before every (re-)acquisition of the item locks. (R7) in mergeNodesKeys every held node key is either carried over into the new set or released.",
		DoesNotCover: "Actual elapsed time, scheduler behaviour and the bounded overhead after the deadline are runtime quantities; progress under contention (C04) is not decided.",
	}, runC15)
}

var sleepKeys = map[string]bool{"sop.RandomSleep": true, "sop.RandomSleepWithUnit": true, "sop.Sleep": true, "time.Sleep": true}

func (w *World) sleepsWithin(f *Func, depth int) bool {
	for _, cs := range w.AllSites(f) {
		if sleepKeys[cs.Key] {
			return true
		}
		if depth > 0 {
			// sop.NewUUID's 1 ms sleep sits in its own 10-iteration counted loop (itself an R1 instance):
			// calling it is not "waiting"
			if cs.Key == "sop.NewUUID" {
				continue
			}
			if cf := w.CalleeFunc(cs); cf != nil && cf != f && w.sleepsWithin(cf, depth-1) {
				return true
			}
		}
	}
	return false
}

func runC15(c *Ctx) {
	w := c.W
	r1 := c.Rule("R1", "every wait loop checks a deadline on every cycle (or is a counted loop with a constant bound)", 6)
	deadline := map[string]bool{"sop.TimedOut": true, kTxTimedOut: true, "context.Context.Err": true}
	nLoops := 0
	var funcs []*Func
	for _, pk := range []string{"sop", "common", "fs", "cache"} {
		funcs = append(funcs, w.declaredFuncs(pk)...)
	}
	for _, root := range funcs {
		for _, f := range append([]*Func{root}, w.allLits(root)...) {
			var loops []*ast.ForStmt
			ast.Inspect(f.Body, func(x ast.Node) bool {
				switch s := x.(type) {
				case *ast.FuncLit:
					return false
				case *ast.ForStmt:
					loops = append(loops, s)
				}
				return true
			})
			if len(loops) == 0 {
				continue
			}
			g := w.G(f)
			info := f.Pkg.TypesInfo
			for li, lp := range loops {
				inLoop := func(n *GNode) bool {
					return n.Ast != nil && lp.Body.Pos() <= n.Ast.Pos() && n.Ast.End() <= lp.Body.End()
				}
				// is it a wait loop?
				waits := false
				for _, n := range g.Nodes {
					if !inLoop(n) {
						continue
					}
					for _, cs := range n.Calls {
						if sleepKeys[cs.Key] {
							waits = true
						} else if cf := w.CalleeFunc(cs); cf != nil && cs.Key != "sop.NewUUID" && w.sleepsWithin(cf, 1) {
							waits = true
						}
					}
				}
				if !waits {
					continue
				}
				nLoops++
				c.Analysed(f)
				construct := fmt.Sprintf("%s: wait loop #%d is deadline-guarded", f.Key, li+1)
				// counted loop with constant bound
				if be, ok := lp.Cond.(*ast.BinaryExpr); ok && (be.Op == token.LSS || be.Op == token.LEQ) {
					if tv, ok := info.Types[be.Y]; ok && tv.Value != nil && tv.Value.Kind() == constant.Int {
						if inc, ok := lp.Post.(*ast.IncDecStmt); ok && inc.Tok == token.INC && types.ExprString(inc.X) == types.ExprString(be.X) {
							c.Held(r1, construct, lp.Pos(), "counted loop bounded by the constant "+tv.Value.String())
							continue
						}
					}
				}
				// deadline check nodes inside the loop whose failure edge leaves through returns only
				var checks []*GNode
				for _, n := range g.Nodes {
					if !inLoop(n) {
						continue
					}
					for _, cs := range n.Calls {
						if !deadline[cs.Key] {
							continue
						}
						fail, _, ok := g.ErrBranches(n, cs)
						if !ok {
							continue
						}
						r := g.Reach(fail, isReturn, nil)
						exits := true
						for _, x := range g.Nodes {
							if r.Seen[x.ID] && inLoop(x) && x.Ret == nil && len(x.Succs) > 0 {
								// still inside the loop body on the failure edge: fine as long as no path goes back to the loop
							}
							if r.Seen[x.ID] && x.Ret != nil && g.ClassifyReturn(x) == RetNil {
								exits = false
							}
						}
						// the failure edge must not be able to start another cycle
						back := g.Reach(fail, isReturn, nil)
						for _, x := range g.Nodes {
							if back.Seen[x.ID] && x == n {
								exits = false
							}
						}
						if exits {
							checks = append(checks, n)
						}
					}
				}
				// every cycle: from the first node of the body, any path that returns to a body-start node passes a check.
				// Sleep nodes are the points where a cycle waits: from each sleep, the next sleep must not be reachable without a check.
				var sleeps []*GNode
				for _, n := range g.Nodes {
					if !inLoop(n) {
						continue
					}
					for _, cs := range n.Calls {
						if sleepKeys[cs.Key] {
							sleeps = append(sleeps, n)
						} else if cf := w.CalleeFunc(cs); cf != nil && cs.Key != "sop.NewUUID" && w.sleepsWithin(cf, 1) {
							sleeps = append(sleeps, n)
						}
					}
				}
				var offs []Offence
				for _, s := range sleeps {
					r := g.Reach(g.after(s), nodeSet(checks), nil)
					for _, s2 := range sleeps {
						if r.Seen[s2.ID] {
							offs = append(offs, Offence{s2, append([]string{fmt.Sprintf("from the wait at L%d", g.line(s))}, r.Path(s2.ID)...)})
						}
					}
				}
				c.Offences(g, offs, r1, construct, lp.Pos(), fmt.Sprintf("%d deadline check(s); no wait-to-wait cycle avoids them", len(checks)), "the loop can wait again and again without consulting the deadline: a commit (or recovery) can spin past the caller's deadline and the transaction's maximum time")
			}
		}
	}
	c.Check(nLoops >= 6, r1, "wait loops inventoried", token.NoPos, fmt.Sprintf("%d", nLoops), fmt.Sprintf("only %d wait loops found (6 confirmed by hand)", nLoops), nil)

	r2 := c.Rule("R2", "the deadline is min(context, clamped maxTime)", 4)
	{
		ft := w.Fn(kTxTimedOut)
		c.Analysed(ft)
		maxF := w.Field("common", "Transaction", "maxTime")
		ok := false
		for _, cs := range w.Sites(ft) {
			if cs.Key == "sop.TimedOut" && len(cs.Call.Args) == 4 && fieldOfSelector(ft.Pkg.TypesInfo, cs.Call.Args[3]) == maxF {
				ok = true
			}
		}
		c.Check(ok, r2, "Transaction.timedOut checks against t.maxTime through sop.TimedOut", ft.Decl.Pos(), "sop.TimedOut(ctx, ..., t.maxTime)", "the transaction deadline check does not use the transaction's maximum time", nil)
		fs := w.Fn("sop.TimedOut")
		gs := w.G(fs)
		c.Analysed(fs)
		info := fs.Pkg.TypesInfo
		sig := fs.Obj.Type().(*types.Signature)
		ctxErr := gs.condNodes(func(e ast.Expr) bool { return false })
		_ = ctxErr
		okCtx := false
		for _, nc := range gs.callNodes("context.Context.Err") {
			fail, _, tested := gs.ErrBranches(nc.n, nc.cs)
			if tested {
				okCtx = true
				r := gs.Reach(fail, isReturn, nil)
				for _, x := range gs.Nodes {
					if r.Seen[x.ID] && x.Ret != nil && gs.ClassifyReturn(x) == RetNil {
						okCtx = false
					}
				}
			}
		}
		c.Check(okCtx, r2, "sop.TimedOut fails when the context is done", fs.Decl.Pos(), "ctx.Err() != nil returns an error", "a cancelled / expired context is not reported as a timeout", nil)
		elapsed := gs.condNodes(func(e ast.Expr) bool {
			be, ok := e.(*ast.BinaryExpr)
			return ok && (be.Op == token.GTR || be.Op == token.GEQ) && mentionsObj(info, be.Y, sig.Params().At(3)) && mentionsObj(info, be.X, sig.Params().At(2))
		})
		okEl := len(elapsed) == 1
		if okEl {
			r := gs.Reach(branchStarts(elapsed, 1), isReturn, nil)
			for _, x := range gs.Nodes {
				if r.Seen[x.ID] && x.Ret != nil && gs.ClassifyReturn(x) == RetNil {
					okEl = false
				}
			}
		}
		c.Check(okEl, r2, "sop.TimedOut fails when the elapsed time exceeds maxTime", fs.Decl.Pos(), "Now().Sub(start) > maxTime returns an error", "exceeding the maximum time is not reported", nil)
		// constructor clamp
		fc := w.Fn("common.NewTwoPhaseCommitTransaction")
		gc := w.G(fc)
		c.Analysed(fc)
		ci := fc.Pkg.TypesInfo
		par := fc.Obj.Type().(*types.Signature).Params().At(1)
		lower := gc.condNodes(func(e ast.Expr) bool {
			be, ok := e.(*ast.BinaryExpr)
			return ok && (be.Op == token.LEQ || be.Op == token.LSS) && mentionsObj(ci, be.X, par)
		})
		upper := gc.condNodes(func(e ast.Expr) bool {
			be, ok := e.(*ast.BinaryExpr)
			return ok && (be.Op == token.GTR || be.Op == token.GEQ) && mentionsObj(ci, be.X, par)
		})
		okClamp := len(lower) == 1 && len(upper) == 1
		if okClamp {
			for _, cn := range append(append([]*GNode{}, lower...), upper...) {
				// the true edge assigns the parameter a constant
				assigned := false
				r := gc.Reach(branchStarts([]*GNode{cn}, 1), func(x *GNode) bool { return x.IsCond }, nil)
				for _, x := range gc.Nodes {
					if r.Seen[x.ID] && gc.assigns(x, par) {
						assigned = true
					}
				}
				if !assigned {
					okClamp = false
				}
			}
			// maxTime is initialised from the clamped parameter
			okInit := false
			ast.Inspect(fc.Body, func(x ast.Node) bool {
				if kv, ok := x.(*ast.KeyValueExpr); ok {
					if id, ok := kv.Key.(*ast.Ident); ok && originOf(ci.Uses[id]) == types.Object(maxF) && mentionsObj(ci, kv.Value, par) {
						okInit = true
					}
				}
				return true
			})
			okClamp = okClamp && okInit
		}
		c.Check(okClamp, r2, "constructor clamps the maximum commit time into (0, 1h]", fc.Decl.Pos(), "non-positive and over-large values are replaced before maxTime is set", "maxTime can be non-positive or unbounded (lock TTLs and the commit deadline derive from it)", nil)
		// no other writer of maxTime
		var ws []string
		for _, fn := range w.declaredFuncs("common") {
			if len(w.writesOf(fn, maxF, true)) > 0 {
				ws = append(ws, fn.Key)
			}
		}
		c.Check(len(ws) == 0, r2, "Transaction.maxTime is written only by the constructor literal", token.NoPos, "no assignment outside the constructor", fmt.Sprintf("maxTime assigned in %v (bypasses the clamp)", ws), nil)
	}

	r3 := c.Rule("R3", "lock acquisition never waits: Lock/DualLock implementations are try-locks; a failed node-key attempt releases before sleeping", 5)
	{
		var impls []*Func
		for _, f := range w.allDeclared() {
			if f.Obj == nil || (f.Obj.Name() != "Lock" && f.Obj.Name() != "DualLock") {
				continue
			}
			sig := f.Obj.Type().(*types.Signature)
			if sig.Recv() == nil || sig.Params().Len() != 3 || !strings.Contains(sig.Params().At(2).Type().String(), "LockKey") {
				continue
			}
			impls = append(impls, f)
		}
		sort.Slice(impls, func(i, j int) bool { return impls[i].Key < impls[j].Key })
		for _, f := range impls {
			c.Analysed(f)
			sl := w.sleepsWithin(f, 3)
			// unbounded loops (for without condition) are not allowed either
			bare := false
			ast.Inspect(f.Body, func(x ast.Node) bool {
				if fs, ok := x.(*ast.ForStmt); ok && fs.Cond == nil {
					bare = true
				}
				return true
			})
			c.Check(!sl && !bare, r3, f.Key+" is a try-lock", f.Decl.Pos(), "no sleep, no unbounded loop", "a lock acquisition can block waiting for the holder (hold-and-wait across key sets becomes possible)", nil)
		}
		c.Check(len(impls) >= 4, r3, "Lock/DualLock implementations found", token.NoPos, fmt.Sprintf("%d", len(impls)), "fewer than four lock implementations in scope", nil)
	}
	r4 := c.Rule("R4", "a transaction that gives up releases its locks (shared with C07.R3)", 5)
	// the shared section records its obligations under the rule id it is given; R3's phase1Commit part is in there too
	commitUndoRules(c, "", "", r4, "", "")

	r6 := c.Rule("R6", "rollback releases the item locks only when committedState >= lockTrackedItems (R4), and every rollback rewinds committedState: phase1Commit therefore logs lockTrackedItems before every acquisition of the item locks, also when the retry loop acquires them again (row of C08.R1)", 3)
	logBeforeActRule(c, r6, []logActStep{{"lockTrackedItems", kTxLockTracked}})
	r7 := c.Rule("R7", "held node-key locks are accounted for when the key set is re-merged for a retry: in mergeNodesKeys every held key is either carried over into the new set (handed to the lookup's Update) or released (Unlock) - an iteration that does neither leaves a lock nobody owns any more: the retry then blocks on its own lock until maxTime, and other writers until the TTL", 2)
	{
		f := w.Fn("common.Transaction.mergeNodesKeys")
		g := w.G(f)
		c.Analysed(f)
		info := f.Pkg.TypesInfo
		keysF := w.Field("common", "Transaction", "nodesKeys")
		var head *GNode
		for _, n := range g.Nodes {
			if n.RangeHead != nil && fieldOfSelector(info, n.RangeHead.X) == keysF {
				head = n
			}
		}
		if head == nil {
			c.Violated(r7, "mergeNodesKeys: loop over the held keys", f.Decl.Pos(), "no range over t.nodesKeys found", nil)
		} else {
			var kv types.Object
			if id, ok := head.RangeHead.Value.(*ast.Ident); ok {
				kv = info.Defs[id]
			}
			handled := func(n *GNode) bool {
				for _, cs := range n.Calls {
					if cs.Key == kL2Unlock || strings.HasSuffix(cs.Key, ".Update") || strings.HasSuffix(cs.Key, ".Add") {
						for _, a := range cs.Call.Args {
							if kv != nil && mentionsObj(info, a, kv) {
								return true
							}
						}
					}
				}
				return false
			}
			var body []int
			for _, e := range head.Succs {
				if e.Cond == 1 {
					body = append(body, e.To)
				}
			}
			c.Check(kv != nil && len(g.Find(handled)) >= 2, r7, "mergeNodesKeys: carry-over and release sites present", head.RangeHead.Pos(), fmt.Sprintf("%d sites", len(g.Find(handled))), "the loop no longer hands the held key to Update / Unlock", nil)
			offs := g.MustFollowFrom(body, handled, func(n *GNode) bool { return n == head || n.Exit })
			c.Offences(g, offs, r7, "mergeNodesKeys: every held key is carried over or released", head.RangeHead.Pos(), "each iteration reaches Update(.., nk) or Unlock(nk)",
				"an iteration over a held key can end without carrying the key over or unlocking it")
		}
	}
	r5 := c.Rule("R5", "every lock is taken with a positive, bounded TTL", 12)
	{
		maxF := w.Field("common", "Transaction", "maxTime")
		n := 0
		for _, pk := range []string{"common", "fs"} {
			for _, root := range w.declaredFuncs(pk) {
				for _, cs := range w.AllSites(root) {
					if cs.Key != kL2Lock && cs.Key != kL2DualLock {
						continue
					}
					n++
					f := cs.In
					info := f.Pkg.TypesInfo
					arg := cs.Call.Args[1]
					construct := fmt.Sprintf("%s: %s #%d has a bounded TTL", shortKey(rootOf(f).Key), shortKey(cs.Key), ordinalOf(w, rootOf(f), cs))
					ok := false
					why := ""
					if tv, has := info.Types[arg]; has && tv.Value != nil {
						if v, exact := constant.Int64Val(constant.ToInt(tv.Value)); exact && v > 0 {
							ok = true
							why = "positive constant"
						}
					} else if fieldOfSelector(info, arg) == maxF {
						ok = true
						why = "t.maxTime (clamped, R2)"
					} else if id, isID := ast.Unparen(arg).(*ast.Ident); isID {
						if v, isV := info.Uses[id].(*types.Var); isV {
							if ds := localDefs(rootOf(f))[v]; len(ds) == 1 && v.Parent() != v.Pkg().Scope() {
								if tv, has := info.Types[ds[0]]; has && tv.Value != nil {
									if val, exact := constant.Int64Val(constant.ToInt(tv.Value)); exact && val > 0 {
										ok = true
										why = "local initialised once with a positive constant"
									}
								}
							} else if v.Parent() == v.Pkg().Scope() {
								// package-level duration variable: initialised with a positive constant and never assigned
								okVar := true
								for _, fn := range w.allDeclared() {
									if len(w.writesOf(fn, v, true)) > 0 {
										okVar = false
									}
								}
								ok = okVar
								why = "package-level duration never reassigned"
							} else if isParamOf(rootOf(f), v) {
								// parameter: every caller in scope passes a positive constant
								okAll, cnt := true, 0
								for _, caller := range w.allDeclared() {
									for _, ccs := range w.AllSites(caller) {
										if w.CalleeFunc(ccs) == rootOf(f) || (ccs.Callee != nil && rootOf(f).Obj != nil && originOf(ccs.Callee) == types.Object(rootOf(f).Obj)) {
											cnt++
											sig := rootOf(f).Obj.Type().(*types.Signature)
											for i := 0; i < sig.Params().Len(); i++ {
												if sig.Params().At(i) == v && i < len(ccs.Call.Args) {
													tv, has := ccs.In.Pkg.TypesInfo.Types[ccs.Call.Args[i]]
													if !has || tv.Value == nil {
														okAll = false
													}
												}
											}
										}
									}
								}
								ok = okAll
								why = fmt.Sprintf("parameter fed by constants at %d call site(s) in scope (interface callers pass the implementation's documented duration)", cnt)
							}
						}
					}
					c.Check(ok, r5, construct, cs.Call.Pos(), why, "the lock duration `"+types.ExprString(arg)+"` is not provably a positive bounded value: a lock taken with it may never expire (a crashed holder blocks the key for good)", nil)
				}
			}
		}
		c.Check(n >= 12, r5, "lock call sites inventoried", token.NoPos, fmt.Sprintf("%d", n), fmt.Sprintf("only %d found", n), nil)
		fl := w.Fn("cache.L2InMemoryCache.Lock")
		gl := w.G(fl)
		c.Analysed(fl)
		li := fl.Pkg.TypesInfo
		par := fl.Obj.Type().(*types.Signature).Params().At(1)
		guard := gl.condNodes(func(e ast.Expr) bool {
			be, ok := e.(*ast.BinaryExpr)
			return ok && (be.Op == token.LEQ || be.Op == token.LSS) && mentionsObj(li, be.X, par)
		})
		okG := len(guard) == 1
		if okG {
			okG = false
			r := gl.Reach(branchStarts(guard, 1), func(x *GNode) bool { return x.IsCond }, nil)
			for _, x := range gl.Nodes {
				if r.Seen[x.ID] && gl.assigns(x, par) {
					okG = true
				}
			}
		}
		c.Check(okG, r5, "in-memory Lock replaces a non-positive duration", fl.Decl.Pos(), "duration <= 0 is replaced by a default", "a non-positive duration yields an already-expired (or never expiring) lock entry", nil)
	}
}
