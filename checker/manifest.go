package main

import (
	"encoding/json"
	"fmt"
	"sort"
)

// notApplicable: properties not claimed, with the reason (DESIGN.md section 6).
var notApplicable = map[string]string{
	"C04": "progress claim over interleavings of 2-3 committers (both commit, union of changes): no structural clause of the code is a necessary condition that static analysis can decide beyond the retry-loop and lock-release rules already claimed under C07/C15; whether merges succeed is a property of runtime tree contents and schedules",
	"C18": "correctness of cursor positions and range scans is a relation between runtime tree contents and probe keys; no structural clause that is both statically checkable and a genuine necessary condition was found beyond C29 (comparison order)",
}

// claimed lists the properties whose checks are complete enough to claim: rules built, both-ways
// self-test passing, quiet or triaged on the pinned tree. A registered but unclaimed property is
// listed as not applicable with the pending reason (it can still be run by hand).
var claimed = map[string]bool{
	"C01": true, "C02": true, "C08": true, "C16": true, "C22": true, "C23": true, "C24": true, "C25": true, "C26": true, "C14": true, "C31": true, "C13": true, "C29": true, "C34": true, "C35": true, "C28": true, "C05": true, "C06": true, "C07": true, "C03": true, "C20": true, "C12": true, "C11": true, "C15": true, "C09": true, "C10": true, "C21": true, "C37": true, "C17": true, "C19": true, "C30": true, "C32": true, "C33": true, "C38": true, "C27": true, "C36": true,
}

// pending: designed in DESIGN.md but whose rules are not built yet (kept honest: not claimed).
const pendingReason = "static rules designed in DESIGN.md section 4 but not implemented yet; not claimed until they exist and pass the both-ways self-test"

func allPropertyIDs() []string {
	var ids []string
	for i := 1; i <= 38; i++ {
		ids = append(ids, fmt.Sprintf("C%02d", i))
	}
	return ids
}

func emitManifest() {
	type lvl struct {
		Category  string `json:"category"`
		Text      string `json:"text"`
		DesignRef string `json:"design_ref"`
	}
	type check struct {
		PropertyID string `json:"property_id"`
		Quick      string `json:"quick_cmd"`
		Thorough   string `json:"thorough_cmd"`
		Evidence   string `json:"evidence_file"`
		Replay     string `json:"replay_cmd_template"`
		Engine     string `json:"engine"`
		Level      lvl    `json:"level_claimed"`
		Note       string `json:"level_note"`
		Technique  string `json:"technique"`
	}
	var checks []check
	var served []string
	var na []map[string]string
	for _, id := range allPropertyIDs() {
		p := registry[id]
		if p != nil && !claimed[id] {
			na = append(na, map[string]string{"property_id": id, "reason": "static rules are implemented in /verif/checker but the violations they report on the pinned tree are still being triaged (genuine defect vs. rule error); not claimed until that is settled"})
			continue
		}
		if p == nil {
			reason, ok := notApplicable[id]
			if !ok {
				reason = pendingReason
			}
			na = append(na, map[string]string{"property_id": id, "reason": reason})
			continue
		}
		served = append(served, id)
		tech := p.Meta.Technique
		if tech == "" {
			tech = "static analysis: CFG must-pass-through / dominance rules and call-graph who-may-call rules over the type-checked source"
		}
		checks = append(checks, check{
			PropertyID: id,
			Quick:      "./check.sh " + id + " quick",
			Thorough:   "./check.sh " + id + " thorough",
			Evidence:   "/verif/evidence/" + id + ".json",
			Replay:     "./bin/sopcheck -replay {path}",
			Engine:     "sopcheck",
			Level: lvl{Category: "other",
				Text:      "Structural necessary conditions decided statically over all paths of the named functions (not a proof of the behaviour). " + p.Meta.Explanation + " NOT decided: " + p.Meta.DoesNotCover,
				DesignRef: "DESIGN.md section 4, " + id},
			Note:      "Trusted base: go/packages + go/types (Go 1.26.8), golang.org/x/tools v0.50.0 go/cfg, and the rule tables in /verif/checker (anchors resolved by symbol; a missing anchor or a rule matching fewer instances than confirmed by hand is reported as undecided, exit 2, never as held). Interface calls are leaves of the call graph; reflection and function values stored in fields are followed only where a rule says so.",
			Technique: tech,
		})
	}
	sort.Strings(served)
	m := map[string]any{
		"version":   1,
		"setup_cmd": "./setup.sh",
		"hooks": map[string]any{
			"guard":            "verif",
			"enable":           "none needed: the checks are static and read /repo's source as it is; no instrumentation is compiled into SharedCode/sop (the tag name is reserved, no file uses it)",
			"baseline_off_cmd": "cd /repo && for m in . ./adapters/cassandra ./adapters/redis ./ai ./incfs ./infs ./jsondb ./search; do (cd $m && go test -vet=off -count=1 -timeout 25m ./...) || exit 1; done",
			"source_commits":   []string{},
			"add_only":         true,
		},
		"engines": []map[string]any{{
			"name": "sopcheck", "path": "/verif/checker", "serves_properties": served,
			"kind_free_text": "repository-specific static analyser (Go, go/packages + go/types + go/cfg): per-function control-flow rules, call-graph who-may-call rules, constant/table agreement rules; obligations keyed by rule+construct",
		}},
		"checks":         checks,
		"not_applicable": na,
		"notes":          "All checks are static (no SOP code is executed). Exit 2 / 'UNDECIDED' means the checker could not decide (load failure, missing anchor, vacuous rule) and is treated as a broken check, not as held. Known, triaged defects are listed in /verif/known_findings.json and printed as KNOWN-FINDING lines.",
	}
	b, _ := json.MarshalIndent(m, "", " ")
	fmt.Println(string(b))
}
