package main

import (
	"fmt"
	"go/ast"
	"go/types"
)

const (
	kSPTCommit   = "sop.SinglePhaseTransaction.Commit"
	kSPTRollback = "sop.SinglePhaseTransaction.Rollback"
	kSPTBegin    = "sop.SinglePhaseTransaction.Begin"
	kI2P1        = "sop.TwoPhaseCommitTransaction.Phase1Commit"
	kI2P2        = "sop.TwoPhaseCommitTransaction.Phase2Commit"
	kI2RB        = "sop.TwoPhaseCommitTransaction.Rollback"
	kI2Begin     = "sop.TwoPhaseCommitTransaction.Begin"

	kTxBegin    = "common.Transaction.Begin"
	kTxP1       = "common.Transaction.Phase1Commit"
	kTxP2       = "common.Transaction.Phase2Commit"
	kTxRB       = "common.Transaction.Rollback"
	kTxp1       = "common.Transaction.phase1Commit"
	kTxp2       = "common.Transaction.phase2Commit"
	kTxrb       = "common.Transaction.rollback"
	kRegUpdNL   = "sop.Registry.UpdateNoLocks"
	kRegUpd     = "sop.Registry.Update"
	kRegAdd     = "sop.Registry.Add"
	kRegRemove  = "sop.Registry.Remove"
	kRegGet     = "sop.Registry.Get"
	kBlobAdd    = "sop.BlobStore.Add"
	kBlobUpdate = "sop.BlobStore.Update"
	kBlobRemove = "sop.BlobStore.Remove"
	kBlobGetOne = "sop.BlobStore.GetOne"
	kSRAdd      = "sop.StoreRepository.Add"
	kSRUpdate   = "sop.StoreRepository.Update"
	kSRRemove   = "sop.StoreRepository.Remove"
)

// rangeLoopInfo describes a `for .. range X` loop over the participants slice.
type participantLoop struct {
	head     *GNode
	rangeStm *ast.RangeStmt
}

// callOnRecvKind distinguishes a call of an interface method made on the SOP transaction field
// from one made on a participant (range variable of otherTransactions).
func (c *Ctx) sptCallKind(f *Func, cs *CallSite) string {
	sel, ok := ast.Unparen(cs.Call.Fun).(*ast.SelectorExpr)
	if !ok {
		return ""
	}
	info := f.Pkg.TypesInfo
	switch x := ast.Unparen(sel.X).(type) {
	case *ast.SelectorExpr:
		if s := info.Selections[x]; s != nil && s.Obj().Name() == "SopPhaseCommitTransaction" {
			return "sop"
		}
	case *ast.Ident:
		// a range variable over t.otherTransactions?
		obj := info.Uses[x]
		if obj == nil {
			return ""
		}
		var kind string
		ast.Inspect(f.Body, func(n ast.Node) bool {
			rs, ok := n.(*ast.RangeStmt)
			if !ok {
				return true
			}
			if id, ok := rs.Value.(*ast.Ident); ok && info.Defs[id] == obj {
				if s, ok := ast.Unparen(rs.X).(*ast.SelectorExpr); ok {
					if sl := info.Selections[s]; sl != nil && sl.Obj().Name() == "otherTransactions" {
						kind = "participant"
					}
				}
			}
			return true
		})
		return kind
	}
	return ""
}

func init() {
	register("C01", propMeta{
		Explanation:  "Decides the commit-driver and commit-point discipline of the two-phase commit: (R1) SinglePhaseTransaction.Commit returns nil only after SOP Phase1Commit, every participant's Phase1Commit and SOP Phase2Commit returned nil, and every failure path passes Rollback; (R2) the only all-or-nothing registry update (UpdateNoLocks with allOrNothing=true) in the workspace is the commit point in phase2Commit, and phase 1 never flips a handle's active id in the registry; (R3) after the commit point phase2Commit cannot return an error and `committed` is set only on its nil path; (R4) a failed phase1Commit/phase2Commit always passes rollback and returns non-nil; (R5) errors of storage-interface calls reachable from phase1Commit are propagated; (R6) every successful item action is recorded where the nothing-to-commit guard looks; (R7) the priority log holds handle pre-images written before the in-place flip; (R8) every persistent commit step has a correctly guarded undo block in the live rollback and in the dead-transaction log replay. (R9) the rollback store infos are paired with the backends' created flags by position, so getRollbackStoresInfo returns exactly one element per backend. (R10) in fs.StoreRepository.Update and its undo closure every successful storeinfo write is followed by a cache refresh with the record that was written, so after a failed multi-store commit the restored counts are what later transactions read (shared with C20.R4).",
		DoesNotCover: "Visibility of the committed values themselves (that the blobs/handles written hold the right bytes) and behaviour under concrete fault schedules are not decided; only the control-flow and call-graph shape every such execution must follow.",
	}, runC01)
	register("C16", propMeta{
		Explanation:  "All control-flow paths of SinglePhaseTransaction.Commit, Rollback and Begin are enumerated on the CFG: a participant's Phase2Commit is reachable only after SOP Phase1Commit, the full participant Phase1Commit loop and SOP Phase2Commit all took their success edges; every failure edge passes t.Rollback before returning; Rollback calls SOP's Rollback and then iterates over all participants with no early exit; AddPhasedTransaction is the only writer of the participant list. R2 also requires every error exit of Commit after SOP's Phase1Commit to pass t.Rollback, not only the failure edges of the phase calls.",
		DoesNotCover: "Behaviour of the participants themselves, and what SOP's own Rollback restores (C07).",
	}, runC16)
}

// driverRules are shared by C01.R1 and C16.R1/R2.
func driverRules(c *Ctx, r1, r2 string) {
	w := c.W
	f := w.Fn(kSPTCommit)
	g := w.G(f)
	c.Analysed(f)

	// classify the call sites
	type site struct {
		n      *GNode
		cs     *CallSite
		kind   string
		helper *helperShape
	}
	var p1sop, p1part, p2sop, p2part, rb []site
	for _, n := range g.Nodes {
		for _, cs := range n.Calls {
			// a participant phase driven through an iteration helper (`t.forEach(func(ot) error { return ot.PhaseX(ctx) })`)
			if ph, sh := c.participantHelper(f, cs); sh != nil {
				c.Analysed(sh.fn)
				switch ph {
				case kI2P1:
					p1part = append(p1part, site{n, cs, "participant", sh})
				case kI2P2:
					p2part = append(p2part, site{n, cs, "participant", sh})
				}
				continue
			}
			k := c.sptCallKind(f, cs)
			switch {
			case cs.Key == kI2P1 && k == "sop":
				p1sop = append(p1sop, site{n, cs, k, nil})
			case cs.Key == kI2P1 && k == "participant":
				p1part = append(p1part, site{n, cs, k, nil})
			case cs.Key == kI2P2 && k == "sop":
				p2sop = append(p2sop, site{n, cs, k, nil})
			case cs.Key == kI2P2 && k == "participant":
				p2part = append(p2part, site{n, cs, k, nil})
			case cs.Key == kSPTRollback:
				rb = append(rb, site{n, cs, k, nil})
			case cs.Key == kI2P1 || cs.Key == kI2P2:
				c.Violated(r1, "Commit: unclassified "+cs.Key, cs.Call.Pos(), "a phase call whose receiver is neither the SOP transaction nor a participant of otherTransactions", nil)
			}
		}
	}
	if len(p1sop) != 1 || len(p2sop) != 1 || len(p1part) != 1 || len(p2part) < 1 {
		c.Violated(r1, "Commit: phase call inventory", f.Decl.Pos(),
			fmt.Sprintf("expected exactly one SOP Phase1Commit, one participant Phase1Commit loop, one SOP Phase2Commit and a participant Phase2Commit loop; found %d/%d/%d/%d", len(p1sop), len(p1part), len(p2sop), len(p2part)), nil)
		return
	}
	isNode := func(x *GNode) NPred { return func(n *GNode) bool { return n == x } }
	nilRet := func(n *GNode) bool { return n.Ret != nil && g.ClassifyReturn(n) == RetNil }

	// success edges of each phase call
	succEdges := func(s site) (fail, succ []int, ok bool) { return g.ErrBranches(s.n, s.cs) }

	// (a) order: SOP P1 success -> participants P1 loop -> SOP P2 success -> participant P2, nil return
	checkGate := func(name string, gate site, targets NPred, what string) {
		fail, _, ok := succEdges(gate)
		if !ok {
			c.Violated(r1, "Commit: "+name+" error is not tested", gate.cs.Call.Pos(), "the error result of "+name+" is not bound to a tested variable", nil)
			return
		}
		// Starting on the failure edges, the targets must be unreachable.
		r := g.Reach(fail, nil, nil)
		var offs []Offence
		for _, n := range g.Nodes {
			if r.Seen[n.ID] && targets(n) {
				offs = append(offs, Offence{n, r.Path(n.ID)})
			}
		}
		c.Offences(g, offs, r1, "Commit: after failed "+name+" no "+what, gate.cs.Call.Pos(),
			"no path from the failure edge of "+name+" reaches "+what, what+" reachable after "+name+" failed")
		// and the gate dominates the targets (for a participant loop: the loop head does, and
		// the loop-coverage obligation below shows that every iteration makes the call)
		dom := gate.n
		if gate.kind == "participant" && gate.helper == nil {
			if h := enclosingRangeHead(g, gate.n); h != nil {
				dom = h
			}
		}
		offs = g.MustPrecede(isNode(dom), targets)
		c.Offences(g, offs, r1, "Commit: "+name+" precedes "+what, gate.cs.Call.Pos(),
			"every path to "+what+" passes "+name, what+" reachable without "+name)
	}
	isP2part := func(n *GNode) bool {
		for _, s := range p2part {
			if s.n == n {
				return true
			}
		}
		return false
	}
	later := or(isP2part, nilRet)
	checkGate("SOP Phase1Commit", p1sop[0], or(later, isNode(p1part[0].n), isNode(p2sop[0].n)), "participant Phase1Commit / SOP Phase2Commit / participant Phase2Commit / nil return")
	checkGate("participant Phase1Commit", p1part[0], or(later, isNode(p2sop[0].n)), "SOP Phase2Commit / participant Phase2Commit / nil return")
	checkGate("SOP Phase2Commit", p2sop[0], later, "participant Phase2Commit / nil return")

	// (b) the participant Phase1Commit loop visits every participant: the loop body has no
	// break/continue that skips the call, i.e. from the range head's body edge every path back to
	// the head passes the call.
	for _, lp := range []struct {
		s    site
		name string
	}{{p1part[0], "Phase1Commit"}, {p2part[0], "Phase2Commit"}} {
		if sh := lp.s.helper; sh != nil {
			c.Check(sh.coversAll, r1, "Commit: participant "+lp.name+" loop covers every participant", lp.s.cs.Call.Pos(),
				"the iteration helper "+shortKey(sh.fn.Key)+" calls the function on every element of otherTransactions", "the iteration helper "+shortKey(sh.fn.Key)+" can skip a participant", nil)
			if lp.name == "Phase1Commit" {
				c.Check(!sh.earlyExit || sh.exitsOnlyWithError, r1, "Commit: participant Phase1Commit loop is left only by exhaustion or failure", lp.s.cs.Call.Pos(),
					"the helper leaves its loop early only with a non-nil error", "the iteration helper can stop early without reporting an error (later participants are not prepared, yet phase 2 runs)", nil)
			}
			continue
		}
		head := enclosingRangeHead(g, lp.s.n)
		if head == nil {
			c.Violated(r1, "Commit: participant "+lp.name+" loop", lp.s.cs.Call.Pos(), "participant call is not inside a range loop over otherTransactions", nil)
			continue
		}
		var body []int
		for _, e := range head.Succs {
			if e.Cond == 1 {
				body = append(body, e.To)
			}
		}
		offs := g.MustFollowFrom(body, isNode(lp.s.n), func(n *GNode) bool { return n == head })
		c.Offences(g, offs, r1, "Commit: participant "+lp.name+" loop covers every participant", lp.s.cs.Call.Pos(),
			"every iteration of the range over otherTransactions calls "+lp.name, "an iteration can reach the next one without calling "+lp.name)
		// leaving the loop other than via exhaustion must not reach later phases (break)
		if lp.name == "Phase1Commit" {
			r := g.Reach(body, func(n *GNode) bool { return n == head }, nil)
			var offs []Offence
			for _, n := range g.Nodes {
				if r.Seen[n.ID] && n != head && later(n) {
					offs = append(offs, Offence{n, r.Path(n.ID)})
				}
			}
			c.Offences(g, offs, r1, "Commit: participant Phase1Commit loop is left only by exhaustion or failure", lp.s.cs.Call.Pos(),
				"later phases are reachable from the loop body only through the loop head", "later phase reachable from inside the loop body (break?)")
		}
	}

	// (c) every failure edge passes t.Rollback before returning
	isRB := calls(kSPTRollback)
	for _, s := range []struct {
		s    site
		name string
	}{{p1sop[0], "SOP Phase1Commit"}, {p1part[0], "participant Phase1Commit"}, {p2sop[0], "SOP Phase2Commit"}} {
		fail, _, ok := succEdges(s.s)
		if !ok {
			continue
		}
		offs := g.MustFollowFrom(fail, isRB, isExit)
		c.Offences(g, offs, r2, "Commit: failed "+s.name+" passes Rollback", s.s.cs.Call.Pos(),
			"every path from the failure edge to the function exit calls t.Rollback", "exit reachable without t.Rollback after failed "+s.name)
		// and returns a non-nil error
		r := g.Reach(fail, nil, nil)
		var offs2 []Offence
		for _, n := range g.Nodes {
			if r.Seen[n.ID] && n.Ret != nil && g.ClassifyReturn(n) != RetNonNil {
				offs2 = append(offs2, Offence{n, r.Path(n.ID)})
			}
		}
		c.Offences(g, offs2, r2, "Commit: failed "+s.name+" returns an error", s.s.cs.Call.Pos(),
			"every return after the failure edge returns a provably non-nil error", "a return after failed "+s.name+" is not provably non-nil")
	}

	// (c') once SOP's phase 1 has run, the only way out without t.Rollback is the final `return nil`: any
	// other exit (a timeout check, a cancelled context, ...) leaves SOP and the participants prepared
	{
		r := g.Reach([]int{p1sop[0].n.ID}, isRB, nil)
		var offs []Offence
		for _, n := range g.Nodes {
			if r.Seen[n.ID] && n.Ret != nil && g.ClassifyReturn(n) != RetNil {
				offs = append(offs, Offence{n, r.Path(n.ID)})
			}
		}
		c.Offences(g, offs, r2, "Commit: every error exit after SOP's Phase1Commit passes Rollback", f.Decl.Pos(),
			"after phase 1 started, only `return nil` is reachable without t.Rollback",
			"Commit can return an error after phase 1 without calling t.Rollback: SOP's transaction stays begun with its phase-1 locks and staged nodes, and no participant is told to roll back")
	}

	// (d) Rollback fan-out
	fr := w.Fn(kSPTRollback)
	gr := w.G(fr)
	c.Analysed(fr)
	var rbsop, rbpart []*GNode
	var rbHelper *helperShape
	for _, n := range gr.Nodes {
		for _, cs := range n.Calls {
			if ph, sh := c.participantHelper(fr, cs); sh != nil && ph == kI2RB {
				c.Analysed(sh.fn)
				rbpart = append(rbpart, n)
				rbHelper = sh
				continue
			}
			if cs.Key != kI2RB {
				continue
			}
			switch c.sptCallKind(fr, cs) {
			case "sop":
				rbsop = append(rbsop, n)
			case "participant":
				rbpart = append(rbpart, n)
			}
		}
	}
	if len(rbsop) < 1 || len(rbpart) != 1 {
		c.Violated(r2, "Rollback: inventory", fr.Decl.Pos(), fmt.Sprintf("expected a SOP Rollback call and one participant Rollback loop, found %d/%d", len(rbsop), len(rbpart)), nil)
		return
	}
	c.Held(r2, "Rollback: inventory", fr.Decl.Pos(), fmt.Sprintf("%d SOP Rollback call(s), one participant Rollback loop", len(rbsop)))
	offs := gr.MustPrecede(func(n *GNode) bool {
		for _, x := range rbsop {
			if n == x {
				return true
			}
		}
		return false
	}, isExit)
	c.Offences(gr, offs, r2, "Rollback: SOP Rollback on every path", rbsop[0].Ast.Pos(), "every path to the exit calls SOP's Rollback", "exit reachable without SOP Rollback")
	if rbHelper != nil {
		offs = gr.MustPrecede(func(n *GNode) bool { return n == rbpart[0] }, isExit)
		c.Offences(gr, offs, r2, "Rollback: participant loop on every path", rbpart[0].Ast.Pos(), "every path to the exit passes the iteration over participants", "exit reachable without iterating the participants")
		c.Check(rbHelper.coversAll, r2, "Rollback: every participant is rolled back", rbpart[0].Ast.Pos(), "the iteration helper calls the function on every element", "the iteration helper can skip a participant", nil)
		c.Check(!rbHelper.earlyExit, r2, "Rollback: no early exit from the participant loop", rbpart[0].Ast.Pos(), "the iteration helper always visits all participants",
			"the iteration helper "+shortKey(rbHelper.fn.Key)+" stops at the first participant whose Rollback returns an error: the participants registered after it are never asked to roll back", nil)
		return
	}
	head := enclosingRangeHead(gr, rbpart[0])
	if head == nil {
		c.Violated(r2, "Rollback: participant loop", rbpart[0].Ast.Pos(), "participant Rollback is not inside a range loop", nil)
		return
	}
	// the loop head is on every path to exit, and the body always calls Rollback and returns to head
	offs = gr.MustPrecede(func(n *GNode) bool { return n == head }, isExit)
	c.Offences(gr, offs, r2, "Rollback: participant loop on every path", rbpart[0].Ast.Pos(), "every path to the exit passes the loop over participants", "exit reachable without the participant loop")
	var body []int
	for _, e := range head.Succs {
		if e.Cond == 1 {
			body = append(body, e.To)
		}
	}
	offs = gr.MustFollowFrom(body, func(n *GNode) bool { return n == rbpart[0] }, func(n *GNode) bool { return n == head || n.Exit })
	c.Offences(gr, offs, r2, "Rollback: every participant is rolled back", rbpart[0].Ast.Pos(), "each iteration calls the participant's Rollback", "an iteration skips the participant Rollback")
	r := gr.Reach(body, func(n *GNode) bool { return n == head }, nil)
	var offs3 []Offence
	for _, n := range gr.Nodes {
		if r.Seen[n.ID] && n.Exit {
			offs3 = append(offs3, Offence{n, r.Path(n.ID)})
		}
	}
	c.Offences(gr, offs3, r2, "Rollback: no early exit from the participant loop", rbpart[0].Ast.Pos(), "the loop body cannot leave the function or the loop early", "early exit from the participant rollback loop")
}

func enclosingRangeHead(g *Graph, n *GNode) *GNode {
	if n.Ast == nil {
		return nil
	}
	var best *GNode
	for _, h := range g.Nodes {
		if h.RangeHead == nil {
			continue
		}
		rs := h.RangeHead
		if rs.Body.Pos() <= n.Ast.Pos() && n.Ast.End() <= rs.Body.End() {
			if best == nil || best.RangeHead.Pos() < rs.Pos() {
				best = h
			}
		}
	}
	return best
}

func runC16(c *Ctx) {
	r1 := c.Rule("R1", "a participant's Phase2Commit (and the nil return) is reachable only through the success edges of SOP Phase1Commit, every participant's Phase1Commit and SOP Phase2Commit", 8)
	r2 := c.Rule("R2", "every failure edge in Commit passes t.Rollback and returns non-nil; Rollback calls SOP Rollback and every participant's Rollback without early exit", 9)
	r3 := c.Rule("R3", "AddPhasedTransaction is the only writer of otherTransactions", 1)
	driverRules(c, r1, r2)
	// R3 writers of the field
	fld := c.W.Field("sop", "SinglePhaseTransaction", "otherTransactions")
	writers := fieldWriters(c.W, fld)
	ok := len(writers) == 1 && writers[0].Key == "sop.SinglePhaseTransaction.AddPhasedTransaction"
	var names []string
	for _, f := range writers {
		names = append(names, f.Key)
	}
	c.Check(ok, r3, "writers of SinglePhaseTransaction.otherTransactions", fld.Pos(), fmt.Sprintf("writers: %v", names), fmt.Sprintf("unexpected writers: %v", names), nil)
}

// participantHelper: call site cs invokes a method of SinglePhaseTransaction (body in scope) passing a function
// literal that calls one of the phase methods on its parameter, and the method ranges over t.otherTransactions
// calling that function value on every element. Returns the phase key the literal calls and the helper's shape.
type helperShape struct {
	fn                 *Func
	coversAll          bool // every iteration calls the function value on the range value
	earlyExit          bool // the loop body can leave the function without finishing the iteration over all participants
	exitsOnlyWithError bool
}

func (c *Ctx) participantHelper(f *Func, cs *CallSite) (string, *helperShape) {
	w := c.W
	h := w.CalleeFunc(cs)
	if h == nil || h.Obj == nil || len(cs.Call.Args) == 0 {
		return "", nil
	}
	sig := h.Obj.Type().(*types.Signature)
	if sig.Recv() == nil || typeBaseName(sig.Recv().Type()) != "SinglePhaseTransaction" {
		return "", nil
	}
	var lit *ast.FuncLit
	argIdx := -1
	for i, a := range cs.Call.Args {
		if l, ok := ast.Unparen(a).(*ast.FuncLit); ok {
			lit, argIdx = l, i
		}
	}
	if lit == nil || argIdx >= sig.Params().Len() {
		return "", nil
	}
	lf := w.byLit[lit]
	if lf == nil || lit.Type.Params.NumFields() != 1 {
		return "", nil
	}
	// the literal calls a phase method on its own parameter
	linfo := lf.Pkg.TypesInfo
	lpar := linfo.Defs[lit.Type.Params.List[0].Names[0]]
	phase := ""
	for _, x := range w.Sites(lf) {
		switch x.Key {
		case kI2P1, kI2P2, kI2RB, kI2Begin:
			if sel, ok := x.Call.Fun.(*ast.SelectorExpr); ok {
				if id, ok := ast.Unparen(sel.X).(*ast.Ident); ok && linfo.Uses[id] == lpar {
					phase = x.Key
				}
			}
		}
	}
	if phase == "" {
		return "", nil
	}
	// the helper's shape
	fnPar := sig.Params().At(argIdx)
	g := w.G(h)
	hinfo := h.Pkg.TypesInfo
	sh := &helperShape{fn: h}
	var head *GNode
	for _, n := range g.Nodes {
		if n.RangeHead == nil {
			continue
		}
		if sx, ok := ast.Unparen(n.RangeHead.X).(*ast.SelectorExpr); ok {
			if sl := hinfo.Selections[sx]; sl != nil && sl.Obj().Name() == "otherTransactions" {
				head = n
			}
		}
	}
	if head == nil {
		return phase, sh
	}
	rv, _ := head.RangeHead.Value.(*ast.Ident)
	callsFn := func(n *GNode) bool {
		for _, x := range n.Calls {
			if v, ok := x.Callee.(*types.Var); ok && v == fnPar && len(x.Call.Args) == 1 {
				if id, ok := ast.Unparen(x.Call.Args[0]).(*ast.Ident); ok && rv != nil && hinfo.Uses[id] == hinfo.Defs[rv] {
					return true
				}
			}
		}
		return false
	}
	sh.coversAll = len(g.MustFollowFrom(bodyStarts(head), callsFn, func(n *GNode) bool { return n == head || n.Exit })) == 0 &&
		len(g.MustPrecede(func(n *GNode) bool { return n == head }, isExit)) == 0
	r := g.Reach(bodyStarts(head), func(n *GNode) bool { return n == head }, nil)
	sh.exitsOnlyWithError = true
	for _, n := range g.Nodes {
		if r.Seen[n.ID] && n != head && (n.Ret != nil || n.Exit) {
			sh.earlyExit = true
			if n.Ret != nil && g.ClassifyReturn(n) != RetNonNil {
				sh.exitsOnlyWithError = false
			}
		}
	}
	return phase, sh
}
