package main

// Field / variable effect queries at the AST level (P-EFF of DESIGN.md, syntactic version).

import (
	"go/ast"
	"go/token"
	"go/types"
	"sort"
)

// lhsRoot returns the selector/identifier object an assignment target ultimately stores into,
// looking through index, slice, star and paren expressions; elem reports whether the store is
// to an element/pointee rather than the variable itself.
func lhsObject(info *types.Info, e ast.Expr) (obj types.Object, elem bool) {
	for {
		switch x := e.(type) {
		case *ast.ParenExpr:
			e = x.X
		case *ast.IndexExpr:
			e = x.X
			elem = true
		case *ast.SliceExpr:
			e = x.X
			elem = true
		case *ast.StarExpr:
			e = x.X
			elem = true
		case *ast.SelectorExpr:
			if s := info.Selections[x]; s != nil {
				return originOf(s.Obj()), elem
			}
			return originOf(info.Uses[x.Sel]), elem
		case *ast.Ident:
			if o := info.Defs[x]; o != nil {
				return originOf(o), elem
			}
			return originOf(info.Uses[x]), elem
		default:
			return nil, elem
		}
	}
}

type WriteSite struct {
	In   *Func
	Pos  token.Pos
	Elem bool
	Stmt ast.Node
	Rhs  ast.Expr // for simple assignments
}

// writesOf lists the assignment sites (=, :=, op=, ++/--) in f (literals included when
// deep) whose target is obj.
func (w *World) writesOf(f *Func, obj types.Object, deep bool) []WriteSite {
	var out []WriteSite
	info := f.Pkg.TypesInfo
	ast.Inspect(f.Body, func(n ast.Node) bool {
		switch x := n.(type) {
		case *ast.FuncLit:
			return deep
		case *ast.AssignStmt:
			for i, l := range x.Lhs {
				o, elem := lhsObject(info, l)
				if o == obj {
					var rhs ast.Expr
					if len(x.Rhs) == len(x.Lhs) {
						rhs = x.Rhs[i]
					} else if len(x.Rhs) == 1 {
						rhs = x.Rhs[0]
					}
					out = append(out, WriteSite{In: f, Pos: l.Pos(), Elem: elem, Stmt: x, Rhs: rhs})
				}
			}
		case *ast.IncDecStmt:
			o, elem := lhsObject(info, x.X)
			if o == obj {
				out = append(out, WriteSite{In: f, Pos: x.Pos(), Elem: elem, Stmt: x})
			}
		case *ast.RangeStmt:
			for _, l := range []ast.Expr{x.Key, x.Value} {
				if l == nil {
					continue
				}
				o, elem := lhsObject(info, l)
				if o == obj {
					out = append(out, WriteSite{In: f, Pos: l.Pos(), Elem: elem, Stmt: x})
				}
			}
		}
		return true
	})
	return out
}

// fieldWriters returns the declared functions (in scope) that assign to the field/variable,
// sorted by key. Composite-literal initialisation is not a write.
func fieldWriters(w *World, obj types.Object) []*Func {
	var out []*Func
	for _, f := range w.Funcs {
		if f.Lit != nil {
			continue
		}
		if len(w.writesOf(f, obj, true)) > 0 {
			out = append(out, f)
		}
	}
	sort.Slice(out, func(i, j int) bool { return out[i].Key < out[j].Key })
	return out
}

// usesOf lists identifier/selector uses of obj in f.
func (w *World) usesOf(f *Func, obj types.Object, deep bool) []token.Pos {
	var out []token.Pos
	info := f.Pkg.TypesInfo
	ast.Inspect(f.Body, func(n ast.Node) bool {
		switch x := n.(type) {
		case *ast.FuncLit:
			return deep
		case *ast.Ident:
			if info.Uses[x] == obj {
				out = append(out, x.Pos())
			}
		}
		return true
	})
	return out
}

// declaredFuncs returns all declared (non-literal) functions of a package, sorted.
func (w *World) declaredFuncs(pkg string) []*Func {
	var out []*Func
	p := w.Pkg(pkg)
	for _, f := range w.Funcs {
		if f.Lit == nil && f.Pkg == p {
			out = append(out, f)
		}
	}
	sort.Slice(out, func(i, j int) bool { return out[i].Key < out[j].Key })
	return out
}

func (w *World) allDeclared() []*Func {
	var out []*Func
	for _, f := range w.Funcs {
		if f.Lit == nil {
			out = append(out, f)
		}
	}
	sort.Slice(out, func(i, j int) bool { return out[i].Key < out[j].Key })
	return out
}
