package main

import (
	"fmt"
	"go/ast"
	"go/constant"
	"go/token"
	"go/types"
	"strings"
)

const (
	kHMreadRestore = "fs.hashmap.readAndRestoreBlock"
	kHMwritePay    = "fs.hashmap.writeBlockRegionPayload"
	kHMrestoreCow  = "fs.hashmap.restoreFromCow"
	kHMcreateCow   = "fs.hashmap.createCow"
	kHMdeleteCow   = "fs.hashmap.deleteCow"
	kHMcheckCow    = "fs.hashmap.checkCow"
	kHMupdateBlock = "fs.hashmap.updateFileBlockRegion"
	kHMlockRetry   = "fs.hashmap.lockFileBlockRegionWithRetry"
	kHMunlock      = "fs.hashmap.unlockFileBlockRegion"
	kHMfindOne     = "fs.hashmap.findOneFileRegion"
	kDIOwriteAt    = "fs.fileDirectIO.writeAt"
	kDIOreadAt     = "fs.fileDirectIO.readAt"
	kUnmarshalData = "fs.unmarshalData"
	kMarshalData   = "fs.marshalData"
)

func init() {
	register("C22", propMeta{
		Explanation:  "Decides the backup -> write -> delete-backup discipline of registry block writes: (R1) in writeBlockRegionPayload the copy-on-write backup is created (and its failure stops the write) before the direct-I/O write, and the backup is deleted only after a complete successful write; (R2) only writeBlockRegionPayload and restoreFromCow may call the direct-I/O write; (R3) updateFileBlockRegion holds the block lock (released by defer) around read-verify-modify-write; (R4) format agreement between the backup's writer and its reader: the buffer handed to createCow is the very block buffer that is then written to the main file (a full blockSize block carrying its checksum), all callers allocate it with the aligned-block allocators, createCow writes exactly its data argument, and checkCow accepts exactly blockSize bytes that pass unmarshalData. (R5) marshalData writes the 4-byte trailer on every path, including the all-zero fast path, because blocks are marshalled in place over previously read bytes; (R6) every caller of writeBlockRegionPayload reads the same (file, offset) into the written buffer after acquiring the block lock. (R7) restoreFromCow reports success only after it copied the verified backup into the caller's buffer (shared with C23.R1 / C08.R5).",
		DoesNotCover: "Torn-prefix lengths and concurrent readers are not enumerated; that WriteFile is atomic enough for the backup itself is assumed.",
	}, runC22)
	register("C23", propMeta{
		Explanation:  "(R1) In readAndRestoreBlock every success (nil) return is dominated by a successful checksum verification of the bytes just read, or hands over to restoreFromCow, whose own success returns are dominated by copying checksum-verified backup bytes into the caller's buffer; (R2) every reader of block bytes (findOneFileRegion, updateFileBlockRegion) obtains them through readAndRestoreBlock, which is the only caller of the direct-I/O read; (R3) checkCow returns restorable data only when unmarshalData accepted it. (R4) the verifier itself: every success return of unmarshalData lies behind the equality of crc32.ChecksumIEEE(block[:dataLen]) with the stored trailer, or behind isZeroData applied to the WHOLE block. (R5) checkCow declares a backup present-but-empty only when it has zero bytes.",
		DoesNotCover: "CRC32 collision resistance; corruption of a block that is all zeros (documented sparse-block optimisation).",
	}, runC23)
	register("C24", propMeta{
		Explanation:  "Obligations discharged by table extraction and constant evaluation: O1 the widths written by encoding.encode sum to sop.HandleSizeInBytes; O2 decode reads the same (field, width) sequence; O3 every field of sop.Handle appears exactly once in each; O4 each field's Go type has exactly the encoded width and both sides use the same byte order; O5 handlesPerBlock x HandleSizeInBytes + 4 <= blockSize; O6 the slot offset is (low % handlesPerBlock) x HandleSizeInBytes and the block offset a multiple of blockSize; O7 the checksum is placed by marshalData(buffer[:blockSize-4], buffer) in the last 4 bytes; O8 the block scan visits handlesPerBlock slots stepping by HandleSizeInBytes; O9 the handle bytes are copied into [offset, offset+HandleSizeInBytes); O10 decode assigns every field of the target on every success path, so the decoded handle does not depend on what the target held before; O11 neither Marshal nor encode assigns a field of the handle being encoded.",
		DoesNotCover: "Nothing about concurrency; the byte-level behaviour of encoding/binary and bytes.Buffer is trusted.",
		Technique:    "static analysis: extraction of the encoder's and decoder's field/width tables from the syntax tree, agreement checks, and constant evaluation of the block layout arithmetic (go/types, go/constant)",
	}, runC24)
}

func callersOf(w *World, key string) []string {
	set := map[string]bool{}
	for _, f := range w.allDeclared() {
		for _, cs := range w.AllSites(f) {
			if cs.Key == key {
				set[f.Key] = true
			}
		}
	}
	var out []string
	for k := range set {
		out = append(out, k)
	}
	sortStrings(out)
	return out
}

func sortStrings(xs []string) {
	for i := 0; i < len(xs); i++ {
		for j := i + 1; j < len(xs); j++ {
			if xs[j] < xs[i] {
				xs[i], xs[j] = xs[j], xs[i]
			}
		}
	}
}

func sameSet(a []string, b ...string) bool {
	if len(a) != len(b) {
		return false
	}
	m := map[string]bool{}
	for _, x := range b {
		m[x] = true
	}
	for _, x := range a {
		if !m[x] {
			return false
		}
	}
	return true
}

func argIdentVar(info *types.Info, call *ast.CallExpr, i int) *types.Var {
	if i >= len(call.Args) {
		return nil
	}
	if id, ok := ast.Unparen(call.Args[i]).(*ast.Ident); ok {
		v, _ := info.Uses[id].(*types.Var)
		return v
	}
	return nil
}

func isParamOf(f *Func, v *types.Var) bool {
	sig := f.Obj.Type().(*types.Signature)
	for i := 0; i < sig.Params().Len(); i++ {
		if sig.Params().At(i) == v {
			return true
		}
	}
	return false
}

func runC22(c *Ctx) {
	w := c.W
	r1 := c.Rule("R1", "writeBlockRegionPayload: createCow (checked) dominates the block write; deleteCow only after a complete successful write", 4)
	f := w.Fn(kHMwritePay)
	g := w.G(f)
	c.Analysed(f)
	info := f.Pkg.TypesInfo
	cc, wa, dc := g.callNodes(kHMcreateCow), g.callNodes(kDIOwriteAt), g.callNodes(kHMdeleteCow)
	if len(cc) != 1 || len(wa) != 1 || len(dc) != 1 {
		c.Violated(r1, "writeBlockRegionPayload: inventory", f.Decl.Pos(), fmt.Sprintf("expected one createCow, writeAt, deleteCow; found %d/%d/%d", len(cc), len(wa), len(dc)), nil)
		return
	}
	offs := g.MustPrecede(calls(kHMcreateCow), calls(kDIOwriteAt))
	c.Offences(g, offs, r1, "writeBlockRegionPayload: backup before write", wa[0].cs.Call.Pos(), "createCow dominates dio.writeAt", "the block can be overwritten without a backup having been written")
	if fail, _, ok := g.ErrBranches(cc[0].n, cc[0].cs); ok {
		r := g.Reach(fail, nil, nil)
		var offs []Offence
		for _, x := range g.Nodes {
			if r.Seen[x.ID] && calls(kDIOwriteAt)(x) {
				offs = append(offs, Offence{x, r.Path(x.ID)})
			}
		}
		c.Offences(g, offs, r1, "writeBlockRegionPayload: failed backup stops the write", cc[0].cs.Call.Pos(), "no write after createCow failed", "the block is overwritten although the backup failed")
	} else {
		c.Violated(r1, "writeBlockRegionPayload: failed backup stops the write", cc[0].cs.Call.Pos(), "createCow's error is not tested", nil)
	}
	// deleteCow only on the success path of the write: n == blockSize && err == nil
	{
		nv := g.lhsVarOfCall(wa[0].n, wa[0].cs, 0)
		var failStarts []int
		if fail, _, ok := g.ErrBranches(wa[0].n, wa[0].cs); ok {
			failStarts = append(failStarts, fail...)
		}
		short := g.condNodes(func(e ast.Expr) bool {
			be, ok := e.(*ast.BinaryExpr)
			if !ok || be.Op != token.NEQ {
				return false
			}
			id, ok := ast.Unparen(be.X).(*ast.Ident)
			return ok && nv != nil && info.Uses[id] == nv && mentionsObj(info, be.Y, w.Object("fs", "blockSize"))
		})
		failStarts = append(failStarts, branchStarts(short, 1)...)
		r := g.Reach(failStarts, nil, nil)
		var offs []Offence
		for _, x := range g.Nodes {
			if r.Seen[x.ID] && calls(kHMdeleteCow)(x) {
				offs = append(offs, Offence{x, r.Path(x.ID)})
			}
		}
		c.Check(len(short) == 1 && len(failStarts) >= 2, r1, "writeBlockRegionPayload: short write and error are both tested", wa[0].cs.Call.Pos(), "n != blockSize || err != nil", "the write's byte count or error is not tested", nil)
		c.Offences(g, offs, r1, "writeBlockRegionPayload: backup kept after a failed or short write", wa[0].cs.Call.Pos(), "deleteCow unreachable from the failure edges of the write", "the backup is deleted although the block write failed or was short")
		offs = g.MustPrecede(calls(kDIOwriteAt), calls(kHMdeleteCow))
		c.Offences(g, offs, r1, "writeBlockRegionPayload: backup deleted only after the write", dc[0].cs.Call.Pos(), "writeAt dominates deleteCow", "backup deletable before the write")
	}

	r2 := c.Rule("R2", "only writeBlockRegionPayload and restoreFromCow call the direct-I/O block write", 1)
	callers := callersOf(w, kDIOwriteAt)
	c.Check(sameSet(callers, kHMwritePay, kHMrestoreCow), r2, "callers of fileDirectIO.writeAt", w.Fn(kDIOwriteAt).Decl.Pos(), fmt.Sprintf("%v", callers), fmt.Sprintf("unexpected set of callers %v: a registry block can be written without the backup protocol", callers), nil)

	r3 := c.Rule("R3", "updateFileBlockRegion: block lock acquired before read-modify-write and released by defer", 4)
	{
		fu := w.Fn(kHMupdateBlock)
		gu := w.G(fu)
		c.Analysed(fu)
		offs := gu.MustPrecede(calls(kHMlockRetry), calls(kHMreadRestore, kHMwritePay))
		c.Offences(gu, offs, r3, "updateFileBlockRegion: lock before read/write", fu.Decl.Pos(), "lockFileBlockRegionWithRetry dominates the block read and write", "block read/written without holding its lock")
		lk := gu.callNodes(kHMlockRetry)
		if len(lk) == 1 {
			if fail, succ, ok := gu.ErrBranches(lk[0].n, lk[0].cs); ok {
				r := gu.Reach(fail, nil, nil)
				var offs []Offence
				for _, x := range gu.Nodes {
					if r.Seen[x.ID] && calls(kHMreadRestore, kHMwritePay)(x) {
						offs = append(offs, Offence{x, r.Path(x.ID)})
					}
				}
				c.Offences(gu, offs, r3, "updateFileBlockRegion: failed lock stops the update", lk[0].cs.Call.Pos(), "no block access after the lock failed", "block accessed although the lock was not acquired")
				offs = gu.MustFollowFrom(succ, callsOrDefers(kHMunlock), isExit)
				c.Offences(gu, offs, r3, "updateFileBlockRegion: lock released on every exit", lk[0].cs.Call.Pos(), "unlock (deferred) on every path after acquisition", "an exit keeps the block lock")
			} else {
				c.Violated(r3, "updateFileBlockRegion: lock error tested", lk[0].cs.Call.Pos(), "error not tested", nil)
			}
		}
		offs = gu.MustPrecede(calls(kHMreadRestore), calls(kHMwritePay))
		c.Offences(gu, offs, r3, "updateFileBlockRegion: block verified before it is rewritten", fu.Decl.Pos(), "readAndRestoreBlock dominates writeBlockRegionPayload", "a block can be rewritten (re-checksummed) without having been read and verified")
	}

	r4 := c.Rule("R4", "backup writer/reader format agreement: createCow receives the full block buffer that is written to the main file; checkCow accepts exactly blockSize bytes that pass unmarshalData", 6)
	{
		bufW := argIdentVar(info, wa[0].cs.Call, 1)
		bufC := argIdentVar(info, cc[0].cs.Call, 3)
		c.Check(bufW != nil && bufC == bufW, r4, "writeBlockRegionPayload: backup is of the buffer being written", cc[0].cs.Call.Pos(), "createCow and writeAt receive the same block buffer variable", "the backup is not made from the block buffer that is written to the main file (e.g. a sub-slice without the checksum): checkCow will reject it and a torn write becomes unrecoverable", nil)
		c.Check(bufW != nil && isParamOf(f, bufW), r4, "writeBlockRegionPayload: block buffer is the caller's buffer", f.Decl.Pos(), "parameter", "block buffer is not the parameter read and verified by the caller", nil)
		// callers allocate with aligned allocators
		okAlloc := true
		var det []string
		for _, cf := range w.allDeclared() {
			for _, cs := range w.Sites(cf) {
				if cs.Key != kHMwritePay {
					continue
				}
				v := argIdentVar(cf.Pkg.TypesInfo, cs.Call, 5)
				good := false
				if v != nil {
					for _, ws := range w.writesOf(cf, v, false) {
						if ws.Rhs != nil && (w.mentionsCall(cf, ws.Rhs, "fs.fileDirectIO.createAlignedBlock") || w.mentionsCall(cf, ws.Rhs, "github.com/ncw/directio.AlignedBlock")) {
							good = true
						}
					}
				}
				det = append(det, cf.Key)
				if !good {
					okAlloc = false
				}
			}
		}
		c.Check(okAlloc && len(det) > 0, r4, "callers pass a freshly allocated aligned block", f.Decl.Pos(), fmt.Sprintf("callers %v allocate with createAlignedBlock", det), "a caller passes a buffer not allocated as a full aligned block", nil)
		// createAlignedBlock allocates blockSize
		fa := w.Fn("fs.fileDirectIO.createAlignedBlock")
		okSz := w.Reaches(fa, func(cs *CallSite) bool {
			if (cs.Key != "github.com/ncw/directio.AlignedBlock" && cs.Key != "fs.fileDirectIO.createAlignedBlockOfSize") || len(cs.Call.Args) != 1 {
				return false
			}
			tv := cs.In.Pkg.TypesInfo.Types[cs.Call.Args[0]]
			bs := w.Object("fs", "blockSize").(*types.Const)
			return tv.Value != nil && constant.Compare(tv.Value, token.EQL, bs.Val())
		})
		c.Check(okSz, r4, "createAlignedBlock allocates blockSize bytes", fa.Decl.Pos(), "directio.AlignedBlock(blockSize)", "the aligned block is not blockSize bytes", nil)
		// createCow writes its data parameter
		fcw := w.Fn(kHMcreateCow)
		okW := false
		for _, cs := range w.Sites(fcw) {
			if strings.HasSuffix(cs.Key, ".WriteFile") && len(cs.Call.Args) >= 3 {
				if v := argIdentVar(fcw.Pkg.TypesInfo, cs.Call, 2); v != nil && isParamOf(fcw, v) {
					okW = true
				}
			}
		}
		c.Check(okW, r4, "createCow writes exactly the data it is given", fcw.Decl.Pos(), "WriteFile(path, data)", "createCow does not write its data parameter unchanged", nil)
		// checkCow: data returned with true only after len == blockSize and unmarshalData ok
		fck := w.Fn(kHMcheckCow)
		gck := w.G(fck)
		c.Analysed(fck)
		ickInfo := fck.Pkg.TypesInfo
		okRet := func(n *GNode) bool {
			if n.Ret == nil || len(n.Ret.Results) != 3 {
				return false
			}
			return !isNilLit(ickInfo, n.Ret.Results[0]) && isBoolLit(ickInfo, n.Ret.Results[1], true)
		}
		um := gck.callNodes(kUnmarshalData)
		var offs []Offence
		if len(um) == 1 {
			_, succ, ok := gck.ErrBranches(um[0].n, um[0].cs)
			if ok {
				cutSucc := map[int]bool{}
				for _, s := range succ {
					cutSucc[s] = true
				}
				r := gck.Reach([]int{gck.Entry}, nil, func(from *GNode, e Edge) bool {
					_, tm, isT := gck.condNilTest(from)
					return isT && from.ID != um[0].n.ID && cutSucc[e.To] && (e.Cond == 1) != tm
				})
				for _, x := range gck.Nodes {
					if r.Seen[x.ID] && okRet(x) {
						offs = append(offs, Offence{x, r.Path(x.ID)})
					}
				}
			}
		}
		c.Check(len(um) == 1, r4, "checkCow verifies the backup's checksum", fck.Decl.Pos(), "one unmarshalData call", "no checksum verification of the backup", nil)
		c.Offences(gck, offs, r4, "checkCow returns data only after its checksum verified", fck.Decl.Pos(), "`return data, true, nil` only on unmarshalData success", "backup data can be returned as restorable without passing the checksum")
		szConds := gck.condNodes(func(e ast.Expr) bool {
			be, ok := e.(*ast.BinaryExpr)
			return ok && be.Op == token.NEQ && mentionsObj(ickInfo, be, w.Object("fs", "blockSize")) && w.mentionsCall(fck, be, "builtin.len")
		})
		offs = gck.notOnlyVia(szConds, 2, okRet)
		c.Check(len(szConds) == 1, r4, "checkCow requires a full block", fck.Decl.Pos(), "len(data) != blockSize is tested", "no size test on the backup", nil)
		c.Offences(gck, offs, r4, "checkCow returns data only when it is a full block", fck.Decl.Pos(), "restorable data only on the len(data)==blockSize edge", "a backup of another size can be returned as restorable")
	}

	r5 := c.Rule("R5", "marshalData stores the 4-byte trailer on every path (also on the all-zero fast path): the block is marshalled in place over previously read bytes", 2)
	trailerRule(c, r5)
	r6 := c.Rule("R6", "read-modify-write under one lock hold: every caller of writeBlockRegionPayload reads the same (file, offset) into the written buffer after acquiring the block lock (shared with C21.R5)", 2)
	rmwRule(c, r6)
	r7 := c.Rule("R7", "a torn block is served from its pre-image to every later reader, read-only ones included: restoreFromCow reports success only after it copied the verified backup into the caller's buffer (shared with C23.R1 / C08.R5)", 2)
	cowRestoreRule(c, r7)
}

func runC23(c *Ctx) {
	w := c.W
	r1 := c.Rule("R1", "readAndRestoreBlock: every nil return is dominated by a successful checksum verification, or delegates to restoreFromCow whose nil returns are dominated by copying verified backup bytes", 4)
	f := w.Fn(kHMreadRestore)
	g := w.G(f)
	c.Analysed(f)
	um := g.callNodes(kUnmarshalData)
	if len(um) != 1 {
		c.Violated(r1, "readAndRestoreBlock: checksum verification present", f.Decl.Pos(), fmt.Sprintf("expected one unmarshalData call, found %d", len(um)), nil)
		return
	}
	c.Held(r1, "readAndRestoreBlock: checksum verification present", um[0].cs.Call.Pos(), "unmarshalData(alignedBuffer)")
	_, succ, ok := g.ErrBranches(um[0].n, um[0].cs)
	if !ok {
		c.Violated(r1, "readAndRestoreBlock: checksum result tested", um[0].cs.Call.Pos(), "unmarshalData's error is not tested", nil)
		return
	}
	// cut the success edge(s): remaining nil-literal returns are violations; returns delegating to
	// restoreFromCow are accepted here and checked inside restoreFromCow
	succSet := map[int]bool{}
	for _, s := range succ {
		succSet[s] = true
	}
	ev := g.errVarOfCall(um[0].n, um[0].cs)
	cut := func(from *GNode, e Edge) bool {
		cv, tm, isT := g.condNilTest(from)
		return isT && cv == ev && (e.Cond == 1) != tm
	}
	r := g.Reach([]int{g.Entry}, nil, cut)
	n := 0
	for _, x := range g.Nodes {
		if x.Ret == nil || !r.Seen[x.ID] {
			continue
		}
		cl := g.ClassifyReturn(x)
		if cl == RetNonNil {
			continue
		}
		n++
		construct := fmt.Sprintf("readAndRestoreBlock: return #%d reachable with a failed checksum", n)
		if cl == RetUnknown && w.mentionsCall(f, x.Ret, kHMrestoreCow) {
			c.Held(r1, construct, x.Ret.Pos(), "delegates to restoreFromCow (checked below)")
			continue
		}
		c.Violated(r1, construct, x.Ret.Pos(), "returns success although the block's checksum did not verify and no verified backup was restored: the corrupt block is then decoded into handles (findOneFileRegion) or re-checksummed and rewritten (updateFileBlockRegion)", r.Path(x.ID))
	}
	// the bytes verified are the bytes read
	{
		info := f.Pkg.TypesInfo
		rd := g.callNodes(kDIOreadAt)
		okBuf := len(rd) == 1 && argIdentVar(info, rd[0].cs.Call, 1) != nil && argIdentVar(info, rd[0].cs.Call, 1) == argIdentVar(info, um[0].cs.Call, 0) && isParamOf(f, argIdentVar(info, um[0].cs.Call, 0))
		c.Check(okBuf, r1, "readAndRestoreBlock: the verified buffer is the one read and handed back", um[0].cs.Call.Pos(), "same parameter buffer", "the checksum is not computed over the caller's buffer as read", nil)
	}
	cowRestoreRule(c, r1)

	r2 := c.Rule("R2", "block bytes are read only through readAndRestoreBlock", 3)
	callers := callersOf(w, kDIOreadAt)
	c.Check(sameSet(callers, kHMreadRestore), r2, "callers of fileDirectIO.readAt", w.Fn(kDIOreadAt).Decl.Pos(), fmt.Sprintf("%v", callers), fmt.Sprintf("block bytes read outside readAndRestoreBlock by %v", callers), nil)
	for _, k := range []string{kHMfindOne, kHMupdateBlock} {
		fx := w.Fn(k)
		gx := w.G(fx)
		c.Analysed(fx)
		var consumer NPred
		if k == kHMfindOne {
			consumer = calls("encoding.HandleEncoder.Unmarshal", "encoding.HandleEncoder.UnmarshalLogicalID", "fs.isZeroData")
		} else {
			consumer = calls(kHMwritePay)
		}
		offs := gx.MustPrecede(calls(kHMreadRestore), consumer)
		c.Offences(gx, offs, r2, shortKey(k)+": block bytes consumed only after readAndRestoreBlock", fx.Decl.Pos(), "readAndRestoreBlock dominates the decode / rewrite", "block bytes decoded or rewritten without passing the verifying read")
		// and its failure prevents consumption (EOF on a short segment file is the accepted idiom in findOneFileRegion: the buffer is not decoded)
		for _, nc := range gx.callNodes(kHMreadRestore) {
			fail, _, ok := gx.ErrBranches(nc.n, nc.cs)
			if !ok {
				c.Violated(r2, shortKey(k)+": verifying read's error is tested", nc.cs.Call.Pos(), "error not tested", nil)
				continue
			}
			rr := gx.Reach(fail, func(n *GNode) bool { return n.Ret != nil }, nil)
			var offs []Offence
			for _, x := range gx.Nodes {
				if rr.Seen[x.ID] && consumer(x) {
					// in findOneFileRegion `continue` to the next segment re-enters the loop; the next
					// iteration reads again before decoding, which MustPrecede above already covers
					if k == kHMfindOne && gx.canReachThrough(fail, x.ID, calls(kHMreadRestore)) {
						continue
					}
					offs = append(offs, Offence{x, rr.Path(x.ID)})
				}
			}
			c.Offences(gx, offs, r2, shortKey(k)+": failed verifying read is not followed by a decode of that buffer", nc.cs.Call.Pos(), "after an error the buffer is not decoded/rewritten (without another read)", "the buffer is consumed although the verifying read failed")
		}
	}

	r5 := c.Rule("R5", "checkCow declares a backup `present but empty` (nil data, ok = true) only when the file has no bytes: every such return lies behind `len(data) == 0`; a backup with content is either returned (after it verified) or rejected - an all-zero block is a valid pre-image of a never-written block", 2)
	{
		f := w.Fn("fs.hashmap.checkCow")
		g := w.G(f)
		c.Analysed(f)
		info := f.Pkg.TypesInfo
		isEmptyOK := func(n *GNode) bool {
			if n.Ret == nil || len(n.Ret.Results) != 3 {
				return false
			}
			return isNilLit(info, n.Ret.Results[0]) && isBoolLit(info, n.Ret.Results[1], true)
		}
		lenZero := g.condNodes(func(e ast.Expr) bool {
			be, ok := e.(*ast.BinaryExpr)
			if !ok || be.Op != token.EQL {
				return false
			}
			call, ok := ast.Unparen(be.X).(*ast.CallExpr)
			if !ok || len(call.Args) != 1 {
				return false
			}
			id, ok := ast.Unparen(call.Fun).(*ast.Ident)
			if !ok || id.Name != "len" {
				return false
			}
			tv := info.Types[be.Y]
			return tv.Value != nil && tv.Value.String() == "0"
		})
		c.Check(len(g.Find(isEmptyOK)) >= 1 && len(lenZero) >= 1, r5, "checkCow: empty-backup return and its length test present", f.Decl.Pos(), "present", "no `return nil, true, nil` / `len(data) == 0` found", nil)
		// reachable through any other way than the true edge of len(data)==0, or through that leaf's FALSE edge followed by another test?
		offs := g.ReachableWithout(edgeCut(lenZero, 1), isEmptyOK)
		c.Offences(g, offs, r5, "checkCow: only a zero-length backup counts as empty", f.Decl.Pos(), "`return nil, true, nil` only on len(data) == 0",
			"a backup file that has content can be declared empty (e.g. because it is all zeros): restoreFromCow then restores nothing and reports success, the torn block that failed its checksum is decoded as if it had been repaired, and the good backup is deleted")
	}

	r4 := c.Rule("R4", "the verifier itself: unmarshalData accepts a block only when the CRC32 of its data section equals the stored trailer, or when the WHOLE block (data and trailer) is zero", 3)
	verifierRule(c, r4)
}

// verifierRule (C23.R4): every success return of fs.unmarshalData is dominated by the checksum comparison's
// equal edge or by isZeroData(<the whole block parameter>) being true.
func verifierRule(c *Ctx, r4 string) {
	w := c.W
	f := w.Fn(kUnmarshalData)
	g := w.G(f)
	c.Analysed(f)
	info := f.Pkg.TypesInfo
	defs := localDefs(f)
	block := f.Obj.Type().(*types.Signature).Params().At(0)
	// the checksum comparison: one side derives from crc32.ChecksumIEEE, the other from binary...Uint32 of the block
	type edge struct {
		n      *GNode
		branch int
	}
	var accept []edge
	for _, cn := range g.Nodes {
		if !cn.IsCond || cn.Ast == nil {
			continue
		}
		switch e := cn.Ast.(type) {
		case *ast.BinaryExpr:
			if e.Op != token.NEQ && e.Op != token.EQL {
				continue
			}
			isCRC := func(x ast.Expr) bool { return w.mentionsDeep(f, defs, x, nil, "hash/crc32.ChecksumIEEE") }
			isSaved := func(x ast.Expr) bool {
				return w.mentionsDeep(f, defs, x, nil, "encoding/binary.littleEndian.Uint32", "encoding/binary.bigEndian.Uint32", "encoding/binary.ByteOrder.Uint32") && w.mentionsDeep(f, defs, x, block)
			}
			if (isCRC(e.X) && isSaved(e.Y)) || (isCRC(e.Y) && isSaved(e.X)) {
				br := 1
				if e.Op == token.NEQ {
					br = 2
				}
				accept = append(accept, edge{cn, br})
			}
		case *ast.CallExpr:
			if cs := w.resolveCall(f, e); cs != nil && cs.Key == "fs.isZeroData" && len(e.Args) == 1 {
				if id, ok := ast.Unparen(e.Args[0]).(*ast.Ident); ok && info.Uses[id] == types.Object(block) {
					accept = append(accept, edge{cn, 1})
				}
			}
		}
	}
	nCRC := 0
	for _, a := range accept {
		if _, ok := a.n.Ast.(*ast.BinaryExpr); ok {
			nCRC++
		}
	}
	c.Check(nCRC == 1, r4, "unmarshalData: compares the computed CRC32 of the data section with the stored trailer", f.Decl.Pos(), "one comparison of crc32.ChecksumIEEE(...) with the Uint32 read from the block", fmt.Sprintf("found %d such comparisons", nCRC), nil)
	// success returns reachable without taking an accepting edge
	cut := func(from *GNode, e Edge) bool {
		for _, a := range accept {
			if from == a.n && e.Cond == a.branch {
				return true
			}
		}
		return false
	}
	offs := g.ReachableWithout(cut, func(n *GNode) bool { return n.Ret != nil && g.ClassifyReturn(n) != RetNonNil })
	c.Offences(g, offs, r4, "unmarshalData: success only through the checksum match or the all-zero-block shortcut", f.Decl.Pos(), "every success return lies behind `crc == saved` or isZeroData(block)",
		"a block can be accepted without its checksum matching and without being entirely zero (e.g. on a zero trailer alone): a corrupted block is served as valid and its good backup is discarded")
	// the CRC is computed over block[:len(block)-4]
	okSpan := false
	for _, cs := range w.Sites(f) {
		if cs.Key == "hash/crc32.ChecksumIEEE" && len(cs.Call.Args) == 1 {
			if se, ok := ast.Unparen(cs.Call.Args[0]).(*ast.SliceExpr); ok && se.Low == nil && se.High != nil && mentionsObj(info, se.X, block) {
				okSpan = w.mentionsDeep(f, defs, se.High, block)
			}
		}
	}
	c.Check(okSpan, r4, "unmarshalData: the CRC covers the data section of the block", f.Decl.Pos(), "ChecksumIEEE(block[:dataLen])", "the checksum is not computed over the block's data section", nil)
}

// trailerRule (C22.R5): fs.marshalData stores a trailer on every path.
func trailerRule(c *Ctx, r5 string) {
	w := c.W
	f := w.Fn(kMarshalData)
	g := w.G(f)
	c.Analysed(f)
	info := f.Pkg.TypesInfo
	blockP := f.Obj.Type().(*types.Signature).Params().At(1)
	put := func(n *GNode) bool {
		for _, cs := range n.Calls {
			if (cs.Key == "encoding/binary.littleEndian.PutUint32" || cs.Key == "encoding/binary.bigEndian.PutUint32" || cs.Key == "encoding/binary.ByteOrder.PutUint32") && len(cs.Call.Args) == 2 {
				if se, ok := ast.Unparen(cs.Call.Args[0]).(*ast.SliceExpr); ok && se.Low != nil && mentionsObj(info, se.X, blockP) {
					return true
				}
			}
		}
		return false
	}
	c.Check(len(g.Find(put)) >= 1, r5, "marshalData: trailer writes present", f.Decl.Pos(), fmt.Sprintf("%d PutUint32(block[dataLen:], ...) site(s)", len(g.Find(put))), "no trailer write found", nil)
	offs := g.MustPrecede(put, func(n *GNode) bool { return n.Ret != nil })
	c.Offences(g, offs, r5, "marshalData: every return is preceded by a write of the 4-byte trailer", f.Decl.Pos(), "PutUint32(block[dataLen:], ...) on every path",
		"marshalData can return without writing the trailer: writeBlockRegionPayload marshals in place over the block it just read, so the previous checksum stays behind zeroed data; the block then fails verification and, copied as the next writer's backup, makes a torn write unrecoverable")
}

// canReachThrough: every path from starts to target passes a node satisfying via.
func (g *Graph) canReachThrough(starts []int, target int, via NPred) bool {
	r := g.Reach(starts, via, nil)
	return !r.Seen[target]
}

// ---------------- C24 ----------------

type codecRow struct {
	field string
	width int64
	order string // "", "LittleEndian", "BigEndian"
}

func arrayLen(t types.Type) int64 {
	if a, ok := t.Underlying().(*types.Array); ok {
		return a.Len()
	}
	return -1
}

func extractEncodeTable(w *World, f *Func) ([]codecRow, []string) {
	info := f.Pkg.TypesInfo
	var rows []codecRow
	var problems []string
	pendingBool := ""
	type arrInfo struct {
		field string
		order string
		bits  int64
	}
	arrays := map[types.Object]arrInfo{}
	var walk func(stmts []ast.Stmt)
	handleWrite := func(call *ast.CallExpr) {
		if len(call.Args) != 1 {
			problems = append(problems, "Write with unexpected arity")
			return
		}
		switch a := ast.Unparen(call.Args[0]).(type) {
		case *ast.SliceExpr:
			if fld := fieldOfSelector(info, a.X); fld != nil {
				rows = append(rows, codecRow{fld.Name(), arrayLen(fld.Type()), ""})
				return
			}
			if id, ok := ast.Unparen(a.X).(*ast.Ident); ok {
				if ai, ok := arrays[info.Uses[id]]; ok {
					n := arrayLen(info.Uses[id].Type())
					if ai.bits != n*8 {
						problems = append(problems, fmt.Sprintf("field %s: Put width %d bits into a %d-byte array", ai.field, ai.bits, n))
					}
					rows = append(rows, codecRow{ai.field, n, ai.order})
					return
				}
			}
			problems = append(problems, "Write of an unrecognised slice at "+w.PosStr(call.Pos()))
		case *ast.CompositeLit:
			if len(a.Elts) == 1 && pendingBool != "" {
				rows = append(rows, codecRow{pendingBool, 1, ""})
				pendingBool = ""
				return
			}
			problems = append(problems, "Write of a literal without a preceding flag test at "+w.PosStr(call.Pos()))
		default:
			problems = append(problems, "Write of an unrecognised expression at "+w.PosStr(call.Pos()))
		}
	}
	walk = func(stmts []ast.Stmt) {
		for _, s := range stmts {
			switch st := s.(type) {
			case *ast.IfStmt:
				if fld := fieldOfSelector(info, st.Cond); fld != nil {
					pendingBool = fld.Name()
				}
			case *ast.ExprStmt:
				call, ok := st.X.(*ast.CallExpr)
				if !ok {
					continue
				}
				cs := w.resolveCall(f, call)
				switch {
				case cs.Key == "bytes.Buffer.Write":
					handleWrite(call)
				case strings.HasPrefix(cs.Key, "encoding/binary.littleEndian.PutUint") || strings.HasPrefix(cs.Key, "encoding/binary.bigEndian.PutUint") || strings.HasPrefix(cs.Key, "encoding/binary.ByteOrder.PutUint"):
					order := "LittleEndian"
					if sel, ok := call.Fun.(*ast.SelectorExpr); ok {
						if s2, ok := sel.X.(*ast.SelectorExpr); ok {
							order = s2.Sel.Name
						}
					}
					bits := int64(0)
					fmt.Sscanf(cs.Key[strings.Index(cs.Key, "PutUint")+7:], "%d", &bits)
					var arr types.Object
					if sl, ok := ast.Unparen(call.Args[0]).(*ast.SliceExpr); ok {
						if id, ok := ast.Unparen(sl.X).(*ast.Ident); ok {
							arr = info.Uses[id]
						}
					}
					fldName := ""
					ast.Inspect(call.Args[1], func(n ast.Node) bool {
						if e, ok := n.(ast.Expr); ok {
							if fld := fieldOfSelector(info, e); fld != nil {
								fldName = fld.Name()
							}
						}
						return true
					})
					if arr == nil || fldName == "" {
						problems = append(problems, "unrecognised PutUint at "+w.PosStr(call.Pos()))
					} else {
						arrays[arr] = arrInfo{fldName, order, bits}
					}
				}
			}
		}
	}
	walk(f.Body.List)
	return rows, problems
}

func extractDecodeTable(w *World, f *Func) ([]codecRow, []string) {
	info := f.Pkg.TypesInfo
	var rows []codecRow
	var problems []string
	// find r.Next(k) calls in source order with the statement they belong to
	pending := map[types.Object]int{} // local var -> row index awaiting its field
	nextIn := func(n ast.Node) (int64, string, bool) {
		var k int64 = -1
		order := ""
		found := false
		ast.Inspect(n, func(x ast.Node) bool {
			call, ok := x.(*ast.CallExpr)
			if !ok {
				return true
			}
			cs := w.resolveCall(f, call)
			if cs.Key == "bytes.Buffer.Next" && len(call.Args) == 1 {
				if tv := info.Types[call.Args[0]]; tv.Value != nil {
					k, _ = constant.Int64Val(tv.Value)
					found = true
				}
			}
			if strings.Contains(cs.Key, "encoding/binary.") && strings.Contains(cs.Key, ".Uint") {
				if sel, ok := call.Fun.(*ast.SelectorExpr); ok {
					if s2, ok := sel.X.(*ast.SelectorExpr); ok {
						order = s2.Sel.Name
					}
				}
			}
			return true
		})
		return k, order, found
	}
	targetField := func(e ast.Expr) string {
		if fld := fieldOfSelector(info, e); fld != nil {
			return fld.Name()
		}
		return ""
	}
	var walk func(stmts []ast.Stmt)
	walk = func(stmts []ast.Stmt) {
		for _, s := range stmts {
			switch st := s.(type) {
			case *ast.AssignStmt:
				k, order, has := nextIn(st)
				if has {
					if fn := targetField(st.Lhs[0]); fn != "" {
						rows = append(rows, codecRow{fn, k, order})
					} else if id, ok := st.Lhs[0].(*ast.Ident); ok {
						rows = append(rows, codecRow{"?", k, order})
						o := info.Defs[id]
						if o == nil {
							o = info.Uses[id]
						}
						pending[o] = len(rows) - 1
					}
					continue
				}
				// target.F = conv(h)
				if fn := targetField(st.Lhs[0]); fn != "" && len(st.Rhs) == 1 {
					ast.Inspect(st.Rhs[0], func(n ast.Node) bool {
						if id, ok := n.(*ast.Ident); ok {
							if idx, ok := pending[info.Uses[id]]; ok && rows[idx].field == "?" {
								rows[idx].field = fn
							}
						}
						return true
					})
				}
			case *ast.DeclStmt:
				k, order, has := nextIn(st)
				if has {
					rows = append(rows, codecRow{"?", k, order})
					if gd, ok := st.Decl.(*ast.GenDecl); ok {
						for _, sp := range gd.Specs {
							if vs, ok := sp.(*ast.ValueSpec); ok {
								for _, nm := range vs.Names {
									pending[info.Defs[nm]] = len(rows) - 1
								}
							}
						}
					}
				}
			case *ast.IfStmt:
				// if b == 1 { target.F = true }
				var condVar types.Object
				if be, ok := st.Cond.(*ast.BinaryExpr); ok {
					if id, ok := ast.Unparen(be.X).(*ast.Ident); ok {
						condVar = info.Uses[id]
					}
				}
				if idx, ok := pending[condVar]; ok {
					for _, bs := range st.Body.List {
						if as, ok := bs.(*ast.AssignStmt); ok {
							if fn := targetField(as.Lhs[0]); fn != "" {
								rows[idx].field = fn
								// re-arm for the next use of the same variable
							}
						}
					}
				}
			}
		}
	}
	walk(f.Body.List)
	for _, r := range rows {
		if r.field == "?" {
			problems = append(problems, "a Next(k) read whose target field could not be identified")
		}
	}
	return rows, problems
}

func runC24(c *Ctx) {
	w := c.W
	o := c.Rule("O", "handle codec tables agree, sum to HandleSizeInBytes and the block layout arithmetic keeps slots and checksum disjoint", 20)
	fe, fd := w.Fn("encoding.encode"), w.Fn("encoding.decode")
	c.Analysed(fe)
	c.Analysed(fd)
	enc, p1 := extractEncodeTable(w, fe)
	dec, p2 := extractDecodeTable(w, fd)
	c.Check(len(p1) == 0, o, "O0 encode table extracted", fe.Decl.Pos(), fmt.Sprintf("%v", enc), strings.Join(p1, "; "), nil)
	c.Check(len(p2) == 0, o, "O0 decode table extracted", fd.Decl.Pos(), fmt.Sprintf("%v", dec), strings.Join(p2, "; "), nil)
	hs := w.Object("sop", "HandleSizeInBytes").(*types.Const)
	hsz, _ := constant.Int64Val(hs.Val())
	var sum int64
	for _, r := range enc {
		sum += r.width
	}
	c.Check(sum == hsz, o, "O1 encoded widths sum to HandleSizeInBytes", fe.Decl.Pos(), fmt.Sprintf("sum=%d", sum), fmt.Sprintf("encoder writes %d bytes, HandleSizeInBytes=%d", sum, hsz), nil)
	okSeq := len(enc) == len(dec)
	var diff []string
	for i := 0; okSeq && i < len(enc); i++ {
		if enc[i].field != dec[i].field || enc[i].width != dec[i].width {
			diff = append(diff, fmt.Sprintf("position %d: encode %s/%d vs decode %s/%d", i, enc[i].field, enc[i].width, dec[i].field, dec[i].width))
		}
		if enc[i].order != dec[i].order {
			diff = append(diff, fmt.Sprintf("position %d (%s): byte order %s vs %s", i, enc[i].field, enc[i].order, dec[i].order))
		}
	}
	c.Check(okSeq && len(diff) == 0, o, "O2 decode reads the encoder's (field,width,order) sequence", fd.Decl.Pos(), "same sequence", fmt.Sprintf("tables differ: enc=%v dec=%v %s", enc, dec, strings.Join(diff, "; ")), nil)
	// O3/O4 per field
	st := w.Object("sop", "Handle").Type().Underlying().(*types.Struct)
	sizes := types.SizesFor("gc", "amd64")
	for i := 0; i < st.NumFields(); i++ {
		fld := st.Field(i)
		ne, nd := 0, 0
		var wd int64
		for _, r := range enc {
			if r.field == fld.Name() {
				ne++
				wd = r.width
			}
		}
		for _, r := range dec {
			if r.field == fld.Name() {
				nd++
			}
		}
		c.Check(ne == 1 && nd == 1, o, "O3 field "+fld.Name()+" encoded and decoded exactly once", fld.Pos(), "once each", fmt.Sprintf("encoded %d times, decoded %d times", ne, nd), nil)
		c.Check(sizes.Sizeof(fld.Type()) == wd, o, "O4 field "+fld.Name()+" width equals its type's size", fld.Pos(), fmt.Sprintf("%d bytes", wd), fmt.Sprintf("type %s is %d bytes, encoded in %d", fld.Type(), sizes.Sizeof(fld.Type()), wd), nil)
	}
	// O11: the codec is a pure projection: neither the wrappers (Marshal/Unmarshal) nor encode assign a field of the
	// handle being encoded, and decode assigns fields only from bytes it read
	{
		for _, k := range []string{"encoding.HandleEncoder.Marshal", "encoding.encode"} {
			fx := w.Fn(k)
			c.Analysed(fx)
			xinfo := fx.Pkg.TypesInfo
			var writes []string
			var pos token.Pos
			ast.Inspect(fx.Body, func(x ast.Node) bool {
				as, ok := x.(*ast.AssignStmt)
				if !ok {
					return true
				}
				for _, l := range as.Lhs {
					if fv := fieldOfSelector(xinfo, l); fv != nil {
						for i := 0; i < st.NumFields(); i++ {
							if st.Field(i) == fv {
								writes = append(writes, fv.Name())
								pos = as.Pos()
							}
						}
					}
				}
				return true
			})
			if pos == token.NoPos {
				pos = fx.Decl.Pos()
			}
			c.Check(len(writes) == 0, o, "O11 "+shortKey(k)+" does not alter the handle it encodes", pos, "no assignment to a Handle field",
				fmt.Sprintf("the encoder side assigns %v before writing the record: for the field combinations concerned the record decodes to a handle that differs from the one that was encoded (e.g. a timestamp normalised away - the work-in-progress mark of a handle deleted by an in-flight transaction is lost once it is read back from disk)", writes), nil)
		}
	}
	// O10: decode determines every field from the record alone: each field is assigned on every path to the
	// success return (a field set only under a condition keeps whatever the target held before)
	{
		gd := w.G(fd)
		dinfo := fd.Pkg.TypesInfo
		okRet := func(n *GNode) bool { return n.Ret != nil && gd.ClassifyReturn(n) != RetNonNil }
		for i := 0; i < st.NumFields(); i++ {
			fld := st.Field(i)
			assignsFld := func(n *GNode) bool {
				as, ok := n.Ast.(*ast.AssignStmt)
				if !ok {
					return false
				}
				for _, l := range as.Lhs {
					if fieldOfSelector(dinfo, l) == fld {
						return true
					}
				}
				return false
			}
			offs := gd.MustPrecede(assignsFld, okRet)
			c.Offences(gd, offs, o, "O10 decode assigns "+fld.Name()+" on every path", fd.Decl.Pos(), "assigned unconditionally",
				"decode can return success without assigning "+fld.Name()+": the field keeps the target's previous content, so a record decoded into a handle that is not zero (a reused variable) does not equal the handle that was encoded")
		}
	}
	// O5
	hpb := w.Object("fs", "handlesPerBlock").(*types.Const)
	bs := w.Object("fs", "blockSize").(*types.Const)
	hpbv, _ := constant.Int64Val(hpb.Val())
	bsv, _ := constant.Int64Val(bs.Val())
	c.Check(hpbv*hsz+4 <= bsv, o, "O5 handlesPerBlock*HandleSizeInBytes+4 <= blockSize", hpb.Pos(), fmt.Sprintf("%d*%d+4=%d <= %d", hpbv, hsz, hpbv*hsz+4, bsv), fmt.Sprintf("%d*%d+4=%d > blockSize %d: the last slot overlaps the checksum or the next block", hpbv, hsz, hpbv*hsz+4, bsv), nil)
	// O6
	{
		f := w.Fn("fs.hashmap.getBlockOffsetAndHandleInBlockOffset")
		c.Analysed(f)
		info := f.Pkg.TypesInfo
		remHPB, remMod, mulHS, mulBS := false, false, false, false
		ast.Inspect(f.Body, func(n ast.Node) bool {
			be, ok := n.(*ast.BinaryExpr)
			if !ok {
				return true
			}
			switch be.Op {
			case token.REM:
				if mentionsObj(info, be.Y, hpb) {
					remHPB = true
				}
				if mentionsObj(info, be.Y, w.Field("fs", "hashmap", "hashModValue")) {
					remMod = true
				}
			case token.MUL:
				if mentionsObj(info, be, hs) {
					mulHS = true
				}
				if mentionsObj(info, be, bs) {
					mulBS = true
				}
			}
			return true
		})
		c.Check(remHPB && mulHS, o, "O6 slot offset = (low % handlesPerBlock) * HandleSizeInBytes", f.Decl.Pos(), "modulo handlesPerBlock then times HandleSizeInBytes", "slot offset is not computed modulo handlesPerBlock in HandleSizeInBytes units: a slot may straddle the checksum", nil)
		c.Check(remMod && mulBS, o, "O6 block offset = (high % hashModValue) * blockSize", f.Decl.Pos(), "modulo hashModValue then times blockSize", "block offset is not a multiple of blockSize within the segment", nil)
	}
	// O7 + O9 in writeBlockRegionPayload
	{
		f := w.Fn(kHMwritePay)
		info := f.Pkg.TypesInfo
		okM, okC := false, false
		for _, cs := range w.Sites(f) {
			if cs.Key == kMarshalData && len(cs.Call.Args) == 2 {
				sl, ok := ast.Unparen(cs.Call.Args[0]).(*ast.SliceExpr)
				bv := argIdentVar(info, cs.Call, 1)
				if ok && sl.Low == nil && sl.High != nil && bv != nil {
					if id, ok := ast.Unparen(sl.X).(*ast.Ident); ok && info.Uses[id] == bv {
						if tv := info.Types[sl.High]; tv.Value != nil {
							hv, _ := constant.Int64Val(tv.Value)
							okM = hv == bsv-4
						}
					}
				}
			}
			if cs.Key == "builtin.copy" && len(cs.Call.Args) == 2 {
				if sl, ok := ast.Unparen(cs.Call.Args[0]).(*ast.SliceExpr); ok && sl.Low != nil && sl.High != nil {
					if be, ok := ast.Unparen(sl.High).(*ast.BinaryExpr); ok && be.Op == token.ADD && types.ExprString(be.X) == types.ExprString(sl.Low) && mentionsObj(info, be.Y, hs) {
						okC = true
					}
				}
			}
		}
		c.Check(okM, o, "O7 checksum over buffer[:blockSize-4] stored in the same buffer's last 4 bytes", f.Decl.Pos(), "marshalData(buf[:blockSize-4], buf)", "the checksum is not computed over the first blockSize-4 bytes of the block buffer", nil)
		c.Check(okC, o, "O9 handle copied into [offset, offset+HandleSizeInBytes)", f.Decl.Pos(), "copy(buf[o:o+HandleSizeInBytes], data)", "the handle bytes are not copied into exactly one slot", nil)
		// marshalData puts the CRC at len(block)-4
		fm := w.Fn(kMarshalData)
		c.Analysed(fm)
		minfo := fm.Pkg.TypesInfo
		okCRC := false
		ast.Inspect(fm.Body, func(n ast.Node) bool {
			as, ok := n.(*ast.AssignStmt)
			if ok && len(as.Lhs) == 1 && len(as.Rhs) == 1 {
				if be, ok := ast.Unparen(as.Rhs[0]).(*ast.BinaryExpr); ok && be.Op == token.SUB {
					if lit, ok := ast.Unparen(be.Y).(*ast.BasicLit); ok && lit.Value == "4" && w.mentionsCall(fm, be.X, "builtin.len") {
						okCRC = true
					}
				}
			}
			return true
		})
		_ = minfo
		c.Check(okCRC, o, "O7 marshalData's data section is len(block)-4", fm.Decl.Pos(), "dataLen := len(block) - 4", "marshalData does not reserve exactly 4 trailing bytes", nil)
	}
	// O8 scan loop
	{
		f := w.Fn(kHMfindOne)
		info := f.Pkg.TypesInfo
		okRange, okStep, okSlice := false, 0, 0
		ast.Inspect(f.Body, func(n ast.Node) bool {
			switch x := n.(type) {
			case *ast.RangeStmt:
				if mentionsObj(info, x.X, hpb) {
					okRange = true
				}
			case *ast.AssignStmt:
				if x.Tok == token.ADD_ASSIGN && len(x.Rhs) == 1 && mentionsObj(info, x.Rhs[0], hs) {
					okStep++
				}
			case *ast.SliceExpr:
				if x.Low != nil && x.High != nil {
					if be, ok := ast.Unparen(x.High).(*ast.BinaryExpr); ok && be.Op == token.ADD && types.ExprString(be.X) == types.ExprString(x.Low) && mentionsObj(info, be.Y, hs) {
						okSlice++
					}
				}
			}
			return true
		})
		c.Check(okRange && okStep >= 2 && okSlice >= 2, o, "O8 block scan: handlesPerBlock iterations, step HandleSizeInBytes, slices [o:o+HandleSizeInBytes]", f.Decl.Pos(), "scan covers every slot exactly", fmt.Sprintf("scan shape changed (range over handlesPerBlock=%v, steps=%d, slot slices=%d)", okRange, okStep, okSlice), nil)
	}
}

// rmwRule (C21.R5 = C22.R6): read-modify-write of a registry block happens under one hold of the block lock:
// in every caller of writeBlockRegionPayload, each write is preceded - after the latest acquisition of the block
// lock - by a readAndRestoreBlock of the same file, offset and buffer.
func rmwRule(c *Ctx, r string) {
	w := c.W
	n := 0
	for _, k := range callersOf(w, kHMwritePay) {
		f := w.Fn(k)
		g := w.G(f)
		c.Analysed(f)
		writes := g.callNodes(kHMwritePay)
		reads := g.callNodes(kHMreadRestore)
		locks := g.Find(calls(kHMlockRetry, "fs.hashmap.lockFileBlockRegion"))
		for _, wr := range writes {
			n++
			construct := fmt.Sprintf("%s: block write #%d rewrites the image read under the current lock hold", shortKey(k), ordinalOf(w, f, wr.cs))
			if len(locks) == 0 {
				c.Violated(r, construct, wr.cs.Call.Pos(), "the block lock is not acquired in this function before the write", nil)
				continue
			}
			isWr := func(x *GNode) bool { return x == wr.n }
			offs := g.MustPrecede(calls(kHMlockRetry, "fs.hashmap.lockFileBlockRegion"), isWr)
			offs = append(offs, g.MustFollow(locks, calls(kHMreadRestore), isWr)...)
			// argument agreement with some read: (dio, offset, buffer) = write args 1, 2, 5 and read args 1, 2, 3
			agree := false
			for _, rd := range reads {
				if len(rd.cs.Call.Args) == 4 && len(wr.cs.Call.Args) == 6 &&
					types.ExprString(rd.cs.Call.Args[1]) == types.ExprString(wr.cs.Call.Args[1]) &&
					types.ExprString(rd.cs.Call.Args[2]) == types.ExprString(wr.cs.Call.Args[2]) &&
					types.ExprString(rd.cs.Call.Args[3]) == types.ExprString(wr.cs.Call.Args[5]) {
					agree = true
				}
			}
			if !agree {
				c.Violated(r, construct, wr.cs.Call.Pos(), "no readAndRestoreBlock call in this function reads the same (file, offset) into the buffer that is written", nil)
				continue
			}
			c.Offences(g, offs, r, construct, wr.cs.Call.Pos(), "lock, then readAndRestoreBlock(dio, offset, buf), then writeBlockRegionPayload(dio, offset, ..., buf) on every path",
				"the block can be rewritten from an image that was not read after the block lock was taken for this write (an image kept from an earlier iteration, another segment file's block with the same offset, or bytes another writer has since changed): the other slots of the block are overwritten with stale content")
		}
	}
	c.Check(n >= 1, r, "callers of writeBlockRegionPayload inventoried", token.NoPos, fmt.Sprintf("%d write site(s)", n), "no write site found", nil)
}

// cowRestoreRule (part of C23.R1, shared by C08.R5): restoreFromCow reports success only after it copied the
// verified pre-image into the caller's buffer - for every kind of caller, read-only ones included.
func cowRestoreRule(c *Ctx, r1 string) {
	w := c.W
	fr := w.Fn(kHMrestoreCow)
	gr := w.G(fr)
	c.Analysed(fr)
	cp := gr.Find(calls("builtin.copy"))
	offs := gr.MustPrecede(calls("builtin.copy"), func(n *GNode) bool { return n.Ret != nil && gr.ClassifyReturn(n) != RetNonNil })
	c.Check(len(cp) == 1, r1, "restoreFromCow: copies the backup into the caller's buffer", fr.Decl.Pos(), "one copy(alignedBuffer, cowData)", fmt.Sprintf("found %d copy calls", len(cp)), nil)
	c.Offences(gr, offs, r1, "restoreFromCow: success only after the verified backup was copied in", fr.Decl.Pos(), "every non-error return is dominated by copy(alignedBuffer, cowData)", "restoreFromCow reports success without having put verified bytes into the buffer (e.g. empty backup): the caller then uses the corrupt block")
}
