package main

// Obligations, evidence files, known findings (DESIGN.md §2.1).

import (
	"encoding/json"
	"fmt"
	"go/token"
	"os"
	"path/filepath"
	"sort"
	"strings"
	"time"
)

type Obligation struct {
	Rule      string   `json:"rule"`
	Construct string   `json:"construct"`
	Where     string   `json:"where,omitempty"`
	Verdict   string   `json:"verdict"` // held | violated | known-finding
	Detail    string   `json:"detail,omitempty"`
	Witness   []string `json:"witness,omitempty"`
	// Sites: for path rules, one line-free descriptor per offending exit ("<node text> #<ordinal among equal texts>");
	// a known finding that lists sites covers exactly those, any other offending site is a new violation
	Sites []string `json:"sites,omitempty"`
}

type KnownFinding struct {
	Status    string   `json:"status"` // "known" or "fixed"
	Property  string   `json:"property"`
	Rule      string   `json:"rule"`
	Construct string   `json:"construct"`
	WhatFails string   `json:"what_fails"`
	Repro     string   `json:"repro,omitempty"`
	Commit    string   `json:"commit,omitempty"`
	Finding   string   `json:"finding,omitempty"`
	Sites     []string `json:"sites,omitempty"`
}

type Ctx struct {
	W        *World
	Prop     string
	Tier     string
	Obs      []Obligation
	minCount map[string]int
	ruleDoc  map[string]string
	ruleSeq  []string
	funcs    map[string]bool
	notes    []string
}

func newCtx(w *World, prop, tier string) *Ctx {
	return &Ctx{W: w, Prop: prop, Tier: tier, minCount: map[string]int{}, ruleDoc: map[string]string{}, funcs: map[string]bool{}}
}

// Rule declares a rule of the current property, its one-line statement and the minimum number
// of obligations it must produce on a tree where its anchors exist (non-vacuity).
func (c *Ctx) Rule(id, doc string, min int) string {
	full := c.Prop + "." + id
	if _, ok := c.ruleDoc[full]; !ok {
		c.ruleSeq = append(c.ruleSeq, full)
	}
	c.ruleDoc[full] = doc
	c.minCount[full] = min
	return full
}

func (c *Ctx) Analysed(f *Func) { c.funcs[f.Key] = true }

func (c *Ctx) add(rule, construct string, pos token.Pos, verdict, detail string, witness []string) {
	if rule == "" {
		return // section not claimed under the current property (shared rule bodies)
	}
	where := ""
	if pos.IsValid() {
		where = c.W.PosStr(pos)
	}
	c.Obs = append(c.Obs, Obligation{Rule: rule, Construct: construct, Where: where, Verdict: verdict, Detail: detail, Witness: witness})
}

func (c *Ctx) Held(rule, construct string, pos token.Pos, detail string) {
	c.add(rule, construct, pos, "held", detail, nil)
}

func (c *Ctx) Violated(rule, construct string, pos token.Pos, detail string, witness []string) {
	c.add(rule, construct, pos, "violated", detail, witness)
}

// Check records held when ok, violated otherwise.
func (c *Ctx) Check(ok bool, rule, construct string, pos token.Pos, held, violated string, witness []string) {
	if ok {
		c.Held(rule, construct, pos, held)
	} else {
		c.Violated(rule, construct, pos, violated, witness)
	}
}

// Offences converts CFG offences into one obligation: held when there are none.
func (c *Ctx) Offences(g *Graph, offs []Offence, rule, construct string, pos token.Pos, held, violated string) {
	if len(offs) == 0 {
		c.Held(rule, construct, pos, held)
		return
	}
	o := offs[0]
	p := pos
	if o.Node.Ast != nil {
		p = o.Node.Ast.Pos()
	}
	det := violated
	if len(offs) > 1 {
		det += fmt.Sprintf(" (%d offending sites; first shown)", len(offs))
	}
	det += ": " + g.nodeText(o.Node)
	c.Violated(rule, construct, p, det, o.Path)
	// site descriptors of all offending nodes
	var sites []string
	for _, of := range offs {
		txt := g.nodeText(of.Node)
		ord := 0
		for _, x := range g.Nodes {
			if g.nodeText(x) == txt && (x.Ast == nil || of.Node.Ast == nil || x.Ast.Pos() <= of.Node.Ast.Pos()) {
				ord++
			}
		}
		sites = append(sites, fmt.Sprintf("%s #%d", txt, ord))
	}
	sort.Strings(sites)
	c.Obs[len(c.Obs)-1].Sites = sites
}

func (c *Ctx) Note(s string) { c.notes = append(c.notes, s) }

func loadKnown(path string) ([]KnownFinding, error) {
	b, err := os.ReadFile(path)
	if err != nil {
		if os.IsNotExist(err) {
			return nil, nil
		}
		return nil, err
	}
	var k struct {
		Findings []KnownFinding `json:"findings"`
	}
	if err := json.Unmarshal(b, &k); err != nil {
		return nil, err
	}
	return k.Findings, nil
}

type propMeta struct {
	Explanation  string
	DoesNotCover string
	Assumptions  []string
	Technique    string
}

// finish applies non-vacuity, known findings, writes evidence and returns the exit code.
func (c *Ctx) finish(verifDir string, meta propMeta, t0 time.Time, seed int) int {
	if os.Getenv("SOPCHECK_VERBOSE") != "" {
		for _, o := range c.Obs {
			fmt.Printf("  [%s] %s | %s | %s | %s\n", o.Verdict, o.Rule, o.Construct, o.Where, o.Detail)
		}
	}
	counts := map[string]int{}
	for _, o := range c.Obs {
		counts[o.Rule]++
	}
	known, err := loadKnown(filepath.Join(verifDir, "known_findings.json"))
	if err != nil {
		fmt.Printf("UNDECIDED property=%s cannot read known_findings.json: %v\n", c.Prop, err)
		return 2
	}
	isKnown := func(o Obligation) *KnownFinding {
		for i := range known {
			k := &known[i]
			if k.Status == "known" && k.Property == c.Prop && k.Rule == o.Rule && k.Construct == o.Construct {
				if len(k.Sites) > 0 {
					covered := true
					for _, s := range o.Sites {
						found := false
						for _, ks := range k.Sites {
							if ks == s {
								found = true
							}
						}
						if !found {
							covered = false
						}
					}
					if !covered {
						continue
					}
				}
				return k
			}
		}
		return nil
	}
	var fresh []Obligation
	nKnown := 0
	held := 0
	for i := range c.Obs {
		o := &c.Obs[i]
		switch o.Verdict {
		case "held":
			held++
		case "violated":
			if k := isKnown(*o); k != nil {
				o.Verdict = "known-finding"
				nKnown++
				if os.Getenv("SOPCHECK_DUMP_KNOWN_SITES") != "" && len(o.Sites) > 0 {
					b, _ := json.Marshal(map[string]interface{}{"property": c.Prop, "rule": o.Rule, "construct": o.Construct, "sites": o.Sites})
					fmt.Printf("KNOWN-SITES %s\n", b)
				}
				fmt.Printf("KNOWN-FINDING: property=%s %s [%s %s at %s]\n", c.Prop, k.WhatFails, o.Rule, o.Construct, o.Where)
			} else {
				fresh = append(fresh, *o)
			}
		}
	}
	// non-vacuity (only when nothing is violated: a removed guard both lowers the count and is
	// reported as a violation, and the violation is the more useful verdict)
	if len(fresh) == 0 {
		for _, r := range c.ruleSeq {
			if counts[r] < c.minCount[r] {
				fmt.Printf("UNDECIDED property=%s rule %s produced %d obligations, fewer than the %d confirmed by hand (vacuous rule or anchors moved)\n", c.Prop, r, counts[r], c.minCount[r])
				return 2
			}
		}
	}
	// distinct non-trivial obligations: distinct rule+construct pairs
	distinct := map[string]bool{}
	for _, o := range c.Obs {
		distinct[o.Rule+"|"+o.Construct] = true
	}
	var fl []string
	for f := range c.funcs {
		fl = append(fl, f)
	}
	sort.Strings(fl)
	rules := []map[string]any{}
	for _, r := range c.ruleSeq {
		rules = append(rules, map[string]any{"rule": r, "statement": c.ruleDoc[r], "obligations": counts[r], "min_expected": c.minCount[r]})
	}
	samples := c.Obs
	if len(samples) > 400 {
		samples = samples[:400]
	}
	ev := map[string]any{
		"property_id": c.Prop,
		"tier":        c.Tier,
		"seed":        seed,
		"level":       "other",
		"coverage": map[string]any{
			"evaluations":         len(c.Obs),
			"distinct_nontrivial": len(distinct),
			"rule": "obligations are instances of the rules listed under 'rules', enumerated from /repo's type-checked source on this run (function, call site, return site or table row); " +
				"an obligation is distinct by rule+construct and non-trivial because it matched real code in /repo (nothing is counted for anchors that do not resolve)",
			"samples":            samples,
			"obligations":        len(c.Obs),
			"discharged":         held,
			"known_findings":     nKnown,
			"explanation":        meta.Explanation,
			"does_not_cover":     meta.DoesNotCover,
			"exhaustive":         true,
			"rules":              rules,
			"functions_analysed": fl,
			"packages_loaded":    len(c.W.Pkgs),
			"notes":              c.notes,
			"technique":          "static analysis of the type-checked source: per-function control-flow graphs (go/cfg), resolved call sites (go/types), call-graph reachability, constant evaluation, table extraction",
		},
		"assumptions": append([]string{
			"the Go toolchain's parser and type checker (go/packages, go/types) and golang.org/x/tools/go/cfg are correct",
			"held = the named structural necessary conditions hold on every path of the named functions; it is not a proof of the behavioural property",
		}, meta.Assumptions...),
		"wall_s":     time.Since(t0).Seconds(),
		"violations": len(fresh),
	}
	evDir := filepath.Join(verifDir, "evidence")
	os.MkdirAll(evDir, 0o755)
	b, _ := json.MarshalIndent(ev, "", " ")
	if err := os.WriteFile(filepath.Join(evDir, c.Prop+".json"), b, 0o644); err != nil {
		fmt.Printf("UNDECIDED property=%s cannot write evidence: %v\n", c.Prop, err)
		return 2
	}
	fmt.Printf("property=%s tier=%s rules=%d obligations=%d held=%d known=%d violated=%d functions=%d wall=%.1fs\n",
		c.Prop, c.Tier, len(c.ruleSeq), len(c.Obs), held, nKnown, len(fresh), len(fl), time.Since(t0).Seconds())
	if len(fresh) > 0 {
		vp := filepath.Join(evDir, c.Prop+".violations.json")
		vb, _ := json.MarshalIndent(map[string]any{"property_id": c.Prop, "violations": fresh}, "", " ")
		os.WriteFile(vp, vb, 0o644)
		for _, o := range fresh {
			fmt.Printf("  violated %s %s at %s: %s\n", o.Rule, o.Construct, o.Where, o.Detail)
			if len(o.Witness) > 0 {
				fmt.Printf("    path: %s\n", strings.Join(o.Witness, " > "))
			}
		}
		fmt.Printf("VIOLATION property=%s replay=%s\n", c.Prop, vp)
		return 1
	}
	os.Remove(filepath.Join(evDir, c.Prop+".violations.json"))
	return 0
}
