#!/bin/bash
# Usage: ./check.sh <property-id> [quick|thorough]
# Runs the static checker for one property against /repo's current working tree.
# Exit 0 held, 1 violation (prints VIOLATION property=<id> replay=<path>), 2 undecided.
set -u
cd "$(dirname "$0")"
export PATH=/opt/veriftools/go1.26.8/bin:$PATH GOTOOLCHAIN=local GOPROXY=off GOSUMDB=off
unset GOWORK
PROP="$1"; TIER="${2:-${VERIF_TIER:-quick}}"
# (re)build the checker when missing or older than its sources
if [ ! -x bin/sopcheck ] || [ -n "$(find checker -name '*.go' -newer bin/sopcheck 2>/dev/null | head -1)" ]; then
  ./setup.sh >/dev/null 2>&1 || { ./setup.sh; echo "UNDECIDED checker build failed"; exit 2; }
fi
GOFLAGS= exec bin/sopcheck -prop "$PROP" -tier "$TIER" -repo "${SOP_REPO:-/repo}" -verif "$(pwd)"
